#!/venv/bin/python
"""tools/sweep.py [--seeds 1,2,3] [--tier quick] [--only C01,C02]: run every registered check at several
seeds against /repo and print one line per run (exit code, wall, violations).  Evidence is written to a
scratch directory so committed evidence files are not disturbed."""
import argparse
import json
import os
import subprocess
import tempfile
import time

HERE = os.path.dirname(os.path.dirname(os.path.abspath(__file__)))
ap = argparse.ArgumentParser()
ap.add_argument("--seeds", default="1,2,3")
ap.add_argument("--tier", default="quick")
ap.add_argument("--only", default="")
a = ap.parse_args()
man = json.load(open(os.path.join(HERE, "MANIFEST.json")))
ids = [c["property_id"] for c in man["checks"]]
if a.only:
    ids = [i for i in ids if i in a.only.split(",")]
scratch = tempfile.mkdtemp(prefix="vf-sweep-")
bad = 0
for seed in a.seeds.split(","):
    for pid in ids:
        env = dict(os.environ, VERIF_SEED=seed, VERIF_EVIDENCE_DIR=scratch)
        t0 = time.time()
        p = subprocess.run([os.path.join(HERE, "check"), pid, "--tier", a.tier], cwd=HERE, env=env, capture_output=True, text=True)
        viol = [l for l in p.stdout.splitlines() if l.startswith(("VIOLATION", "  bucket:", "HARNESS-ERROR"))]
        print(f"seed={seed} {pid} exit={p.returncode} wall={time.time() - t0:.0f}s " + (" | ".join(viol)[:600] if viol else ""), flush=True)
        bad += p.returncode != 0
print("runs with non-zero exit:", bad)
