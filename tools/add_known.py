#!/venv/bin/python
"""tools/add_known.py <finding-id> <property> <replay.json> <bucket_regex> <predicate> <what...>
Copies the replay under replays/<P>/known/ and appends an open entry to known_findings.json."""
import json, os, shutil, sys
HERE = os.path.dirname(os.path.dirname(os.path.abspath(__file__)))
fid, pid, src, rx, pred = sys.argv[1:6]
what = " ".join(sys.argv[6:])
d = os.path.join(HERE, "replays", pid, "known"); os.makedirs(d, exist_ok=True)
dst = os.path.join(d, fid.lower() + ".json")
if os.path.abspath(src) != dst:
    shutil.copy(src, dst)
p = os.path.join(HERE, "known_findings.json")
kf = json.load(open(p))
kf["findings"] = [e for e in kf["findings"] if not (e["id"] == fid and e["property"] == pid)]
kf["findings"].append({"id": fid, "property": pid, "status": "open", "what": what, "match": {"bucket_regex": rx, "predicate": pred}, "replay": os.path.relpath(dst, HERE)})
json.dump(kf, open(p, "w"), indent=1); open(p, "a").write("\n")
print("added", fid, pid, dst)
