#!/venv/bin/python
"""tools/seed_matrix.py register --stage DIR --logs LOG [LOG ...]   copy confirmed staged seeds into seeded/<id>/
tools/seed_matrix.py run [--only id,id] [--jobs N]                 run each seeded change against its checks
tools/seed_matrix.py table                                         markdown table for DESIGN.md

`run` applies seeded/<id>/patch.diff to a scratch copy of /repo (tools/mutation_run: never /repo itself), runs the
quick tier of every check listed for the seed in seeded/PLAN.json with VERIF_REPO pointed at the copy, and records
under meta.json["detection_final"] which checks exit 1 (with their buckets) and which stay quiet."""
import argparse
import glob
import json
import os
import re
import shutil
import subprocess
import sys
from concurrent.futures import ThreadPoolExecutor

HERE = os.path.dirname(os.path.dirname(os.path.abspath(__file__)))
PLAN = {k: v for k, v in json.load(open(os.path.join(HERE, "seeded", "PLAN.json"))).items() if not k.startswith("_")}


def git_head(path):
    return subprocess.run(["git", "-C", path, "rev-parse", "--short", "HEAD"], capture_output=True, text=True).stdout.strip()


def register(stage, logs):
    conf = {}
    for log in logs:
        for line in open(log):
            line = line.strip()
            if line.startswith("{"):
                d = json.loads(line)
                conf[d.get("name")] = d
    for sid, p in PLAN.items():
        dst = os.path.join(HERE, "seeded", sid)
        base, n = sid.split("-")
        src = os.path.join(stage, base)
        have = os.path.exists(os.path.join(dst, "meta.json"))
        if not have:
            c = conf.get(sid)
            if c is None or not os.path.exists(os.path.join(src, f"patch_{n}.diff")):
                print("skip (not confirmed / not staged):", sid)
                continue
            ok = c.get("demo_exit_clean") == 0 and c.get("demo_exit_patched") not in (0, None) and " passed" in c.get("suite_with_patch", "") and not re.search(r"\d+ (failed|error)", c["suite_with_patch"])
            if not ok:
                print("NOT CONFIRMED:", sid, c)
                continue
            os.makedirs(dst, exist_ok=True)
            shutil.copy(os.path.join(src, f"patch_{n}.diff"), os.path.join(dst, "patch.diff"))
            shutil.copy(os.path.join(src, f"demo_{n}.py"), os.path.join(dst, "demo.py"))
            if os.path.exists(os.path.join(src, f"notes_{n}.md")):
                shutil.copy(os.path.join(src, f"notes_{n}.md"), os.path.join(dst, "notes.md"))
            meta = {
                "seed_id": sid,
                "breaks_property": p["property"],
                "needs_to_manifest": p["needs"],
                "confirmed": {
                    "how": "tools/confirm_seed.sh in a scratch copy of /repo: demo on the clean tree, demo with the patch, full repository test suite with the patch",
                    "demo_exit_clean": c["demo_exit_clean"],
                    "demo_exit_patched": c["demo_exit_patched"],
                    "suite_with_patch": c["suite_with_patch"],
                },
                "detection": {},
                "detection_how": "tools/mutation_run <patch> <checks> (patch applied to a scratch copy, VERIF_REPO pointed at it); exit 1 = caught",
            }
            json.dump(meta, open(os.path.join(dst, "meta.json"), "w"), indent=1)
            print("registered", sid)


def run_one(sid):
    dst = os.path.join(HERE, "seeded", sid)
    meta_p = os.path.join(dst, "meta.json")
    if not os.path.exists(meta_p):
        return sid, None
    checks = PLAN[sid]["checks"]
    p = subprocess.run([os.path.join(HERE, "tools", "mutation_run"), os.path.join(dst, "patch.diff")] + checks, capture_output=True, text=True)
    res, cur = {}, None
    for line in p.stdout.splitlines():
        m = re.match(r"^(C\d\d) exit=(\d+) (\d+) violation", line)
        if m:
            cur = m.group(1)
            code = int(m.group(2))
            res[cur] = {"exit": code, "buckets": []}
        elif line.startswith("  bucket:") and cur:
            res[cur]["buckets"].append(line.split("bucket:", 1)[1].strip()[:160])
        elif "patch failed" in line:
            res["_error"] = "patch failed"
    meta = json.load(open(meta_p))
    final = {}
    for c in checks:
        r = res.get(c)
        if r is None:
            final[c + " quick"] = "not run: " + res.get("_error", "no output")
        elif r["exit"] == 1:
            final[c + " quick"] = "caught: " + "; ".join(r["buckets"][:3])
        elif r["exit"] == 0:
            final[c + " quick"] = "missed"
        else:
            final[c + " quick"] = f"harness error (exit {r['exit']})"
    meta["detection_final"] = final
    meta["detection_final_at"] = {"repo": git_head("/repo"), "verif": git_head(HERE), "seed": os.environ.get("VERIF_SEED", "1")}
    json.dump(meta, open(meta_p, "w"), indent=1)
    return sid, final


def table():
    print("| seeded change | breaks | needs | caught by (quick tier) | quiet |")
    print("|---|---|---|---|---|")
    for sid in sorted(PLAN):
        mp = os.path.join(HERE, "seeded", sid, "meta.json")
        if not os.path.exists(mp):
            continue
        m = json.load(open(mp))
        f = m.get("detection_final", {})
        caught = [k.split()[0] for k, v in f.items() if v.startswith("caught")]
        quiet = [k.split()[0] for k, v in f.items() if v == "missed"]
        needs = m["needs_to_manifest"]
        needs = (needs if len(needs) < 150 else needs[:147] + "...").replace("|", "\\|")
        print(f"| {sid} | {m['breaks_property']} | {needs} | {', '.join(caught) or '**none**'} | {', '.join(quiet)} |")


if __name__ == "__main__":
    ap = argparse.ArgumentParser()
    ap.add_argument("cmd", choices=["register", "run", "table"])
    ap.add_argument("--stage", default="/tmp/seedstage")
    ap.add_argument("--logs", nargs="*", default=sorted(glob.glob("/tmp/confirm*.log")))
    ap.add_argument("--only", default="")
    ap.add_argument("--jobs", type=int, default=1)
    a = ap.parse_args()
    if a.cmd == "register":
        register(a.stage, a.logs)
    elif a.cmd == "table":
        table()
    else:
        ids = [s for s in sorted(PLAN) if not a.only or s in a.only.split(",")]
        with ThreadPoolExecutor(max_workers=a.jobs) as ex:
            for sid, final in ex.map(run_one, ids):
                print(sid, json.dumps(final), flush=True)
