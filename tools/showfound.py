#!/venv/bin/python
import glob, json, sys
pid = sys.argv[1]
for p in sorted(glob.glob(f"/verif/replays/{pid}/found/*.json")):
    d = json.load(open(p))
    print("==", p.split("/")[-1], d["bucket"])
    print(json.dumps(d["case"]))
    print("  ", d["detail"][-int(sys.argv[2]) if len(sys.argv) > 2 else -300:].replace("\n", "\n   "))
