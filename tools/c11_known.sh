#!/bin/bash
# One-off registration of the C11 findings (input: replays/C11/candidates/*.json written by the engine's triage).
# Re-runnable: add_known.py replaces an entry with the same id/property.
cd "$(dirname "$0")/.."
C=replays/C11/candidates
fix() { /venv/bin/python - "$1" <<'EOF'
import json, sys
p = sys.argv[1]; d = json.load(open(p))
if d["bucket"].startswith("KF-"):
    d["bucket"] = d["bucket"].split("|", 1)[1]
json.dump(d, open(p, "w"), indent=1)
EOF
}
A() { id=$1; f=$2; rx=$3; shift 3; fix $C/$f.json; tools/add_known.py "$id" C11 $C/$f.json "$rx" "c11:$id" "$@"; }
A KF-setitem-int-before-int-array-index 05ff33621755d364 '^target-(wrong|raises)\|' "setitem with an integer index ahead of a negative-step slice or ahead of a 1-d array index: x[0, ::-1, :] = v reverses the wrong axis (silent), x[0, ::-1] = 1 raises IndexError 'tuple index out of range' at compute, x[1, [0,2]] = arr raises TypeError NoneType + NoneType or writes wrong values (setitem_array_expr uses array-dimension numbers as implied-shape positions; same root as the C01 entry KF-setitem-int-with-negstep)"
A KF-setitem-dask-mask-masked-value c9bfd1a474b95448 '^target-wrong\|dask-bool-(full|1d)\|.*\|mask' "x[x > k] = np.ma.masked writes uninitialised data and no mask; x[dask_mask] = 7 on an already-masked x drops the mask (silent)"
A KF-setitem-dask-mask-array-value 18a1349e1c5252e0 '^target-raises\|setitem\|(ValueError|TypeError)' "x[full-shape dask mask] = np.array([9]) is accepted at assignment and raises at compute ('Chunks are unknown or misaligned' / 'float object cannot be interpreted as an integer')"
A KF-setitem-newaxis-key 3495fb19afc4accd "AttributeError.*'NoneType' object has no attribute 'dtype'" "x[None, 0] = 1 raises AttributeError 'NoneType' object has no attribute 'dtype' (sometimes only at compute); NumPy accepts the assignment"
A KF-setitem-dask-bool-index-broadcast-value d7359947974f7f5e '^(target-wrong\|dask-bool-1d|setitem-raises-numpy-accepts\|ValueError\|slicing/_setitem)' "x[:, dask_bool_1d] = v with v of shape (6,1) writes only the blocks before the first True run (silent); x[dbool, 0] = arange(6) is refused with a spurious 'greater then corresponding boolean index size'"
A KF-setitem-dask-int-index-nd-value 89a10a975bb0fb27 'ArrayOffsetDep' "x[:, dask_int_1d] = ones((4,2)) on a multi-block x raises AttributeError 'ArrayOffsetDep' object has no attribute 'shape' at compute"
A KF-setitem-value-extra-leading-dim 2f5a290eb2cfc30c 'shape mismatch' "x[0] = v with v of shape (1,7) across two blocks raises ValueError 'shape mismatch' at compute; NumPy drops the extra leading unit dimension"
A KF-setitem-masked-0d 6ba02a80fd181f8c 'MaskError|\|mask$' "s = x.sum(); s[...] = np.ma.masked raises MaskError at compute; s[()] = np.ma.masked loses the mask"
A KF-ufunc-out-dtype 31ef0ed8dd5d0205 '^target-wrong\|ufunc-out\|.*dtype' "np.add(i8, i8, out=f8_array) turns the out array into int64; with where= the advertised dtype is the natural result dtype while the blocks keep out's dtype"
A KF-ufunc-where-0d-out 70b53b013fc4b62f 'return arrays must be of ArrayType' "np.sin(s, out=s, where=m) on a 0-d s raises TypeError 'return arrays must be of ArrayType' at compute; so does x[0] after np.add(x, 1, out=x, where=m) on 1-d x"
A KF-negstep-slice-zero-width-chunk 85ef65119b877ef8 '^pool-member-changed\|derive\|derived-after\|(shape|values)' "u = x[x > 0]; u.compute_chunk_sizes(); u[::-1] returns [] when a zero-width chunk precedes the last block (from_array(arange(5), chunks=((4,0,1),))[::-1] as well) - the C28 entry KF-zero-chunk-negstep reached through compute_chunk_sizes"
A KF-zero-width-chunk-layout-drift cb24b779ac5c5d18 'optimization changed the block structure|adjust_chunks specified with' "after u.compute_chunk_sizes() left zero-width blocks, u[u > 0] raises RuntimeError 'optimization changed the block structure' and (u > 0).compute_chunk_sizes() / u[mask] = v; u.compute_chunk_sizes() raise 'Dimension N has N blocks, adjust_chunks specified with N blocks'"
