#!/venv/bin/python
"""tools/register_seed.py <seed-id> <property> <stage-dir> <n> <confirm.log> '<caught_by json>' '<needs text>'
Copies a confirmed seeded change into /verif/seeded/<seed-id>/ (patch.diff, demo.py, notes.md, meta.json)."""
import json
import os
import shutil
import sys

HERE = os.path.dirname(os.path.dirname(os.path.abspath(__file__)))
sid, prop, stage, n, conflog, caught, needs = sys.argv[1:8]
conf = None
for line in open(conflog):
    line = line.strip()
    if line.startswith("{"):
        d = json.loads(line)
        if d.get("name") == sid:
            conf = d
assert conf is not None, f"{sid} not confirmed in {conflog}"
assert conf["demo_exit_clean"] == 0 and conf["demo_exit_patched"] != 0, conf
import re

assert " passed" in conf["suite_with_patch"] and not re.search(r"\d+ (failed|error)", conf["suite_with_patch"]), conf
dst = os.path.join(HERE, "seeded", sid)
os.makedirs(dst, exist_ok=True)
shutil.copy(os.path.join(stage, f"patch_{n}.diff"), os.path.join(dst, "patch.diff"))
shutil.copy(os.path.join(stage, f"demo_{n}.py"), os.path.join(dst, "demo.py"))
if os.path.exists(os.path.join(stage, f"notes_{n}.md")):
    shutil.copy(os.path.join(stage, f"notes_{n}.md"), os.path.join(dst, "notes.md"))
meta = {
    "seed_id": sid,
    "breaks_property": prop,
    "needs_to_manifest": needs,
    "confirmed": {
        "how": "tools/confirm_seed.sh in a scratch copy of /repo: demo on the clean tree, demo with the patch, full repository test suite with the patch",
        "demo_exit_clean": conf["demo_exit_clean"],
        "demo_exit_patched": conf["demo_exit_patched"],
        "suite_with_patch": conf["suite_with_patch"],
    },
    "detection": json.loads(caught),
    "detection_how": "tools/mutation_run <patch> <checks> (patch applied to a scratch copy, VERIF_REPO pointed at it); exit 1 = caught",
}
json.dump(meta, open(os.path.join(dst, "meta.json"), "w"), indent=1)
print("registered", dst)
