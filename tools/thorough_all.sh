#!/bin/bash
# tools/thorough_all.sh [ID ...]: run the thorough tier of every registered check (or the given ones) once,
# evidence into a scratch directory, one summary line per check.  Used to make sure the thorough commands are
# quiet on the unchanged tree before the quick-tier evidence is regenerated and committed.
cd "$(dirname "$0")/.."
ids=("$@")
if [ ${#ids[@]} -eq 0 ]; then
  ids=($(/venv/bin/python -c "import json; print(' '.join(c['property_id'] for c in json.load(open('MANIFEST.json'))['checks']))"))
fi
scratch=$(mktemp -d /tmp/vf-thorough-XXXXXX)
for id in "${ids[@]}"; do
  t0=$(date +%s)
  out=$(VERIF_EVIDENCE_DIR="$scratch" ./check "$id" --tier thorough 2>&1)
  code=$?
  t1=$(date +%s)
  echo "$id thorough exit=$code wall=$((t1 - t0))s $(echo "$out" | grep -E '^(VIOLATION|HARNESS-ERROR)' | head -3 | tr '\n' ' ' | cut -c1-300)"
  echo "$out" | grep '  bucket:' | head -5
done
echo "scratch evidence: $scratch"
