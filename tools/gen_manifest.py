#!/venv/bin/python
"""Regenerate /verif/MANIFEST.json from the table below and validate it."""
import json
import os
import sys

HERE = os.path.dirname(os.path.dirname(os.path.abspath(__file__)))
sys.path.insert(0, HERE)

from vf.manifest_data import CLAIMED, NOT_APPLICABLE  # noqa: E402

ALL = [f"C{i:02d}" for i in range(1, 30)]

BASELINE_OFF = (
    "cd /repo && env -u DASK_ARRAY_VERIF /venv/bin/python -m pytest -ra -q -p no:cacheprovider --timeout=900 "
    "--continue-on-collection-errors"
)


def main():
    checks = []
    for pid in ALL:
        if pid not in CLAIMED:
            continue
        c = CLAIMED[pid]
        checks.append(
            {
                "property_id": pid,
                "quick_cmd": f"./check {pid} --tier quick",
                "thorough_cmd": f"./check {pid} --tier thorough",
                "evidence_file": f"evidence/{pid}.json",
                "replay_cmd_template": f"./check {pid} --replay {{path}}",
                "engine": f"vf.props.{pid.lower()}",
                "level_claimed": {"category": "exploration", "text": c["text"], "design_ref": f"DESIGN.md section 4, {pid}"},
                "level_note": c["note"],
                "technique": c["technique"],
            }
        )
    na = []
    for pid in ALL:
        if pid in CLAIMED:
            continue
        na.append({"property_id": pid, "reason": NOT_APPLICABLE.get(pid, "check not built yet in this session; no claim is made")})
    man = {
        "version": 1,
        "setup_cmd": "/venv/bin/python -c 'import hypothesis' || /venv/bin/pip install --no-index --find-links /opt/veriftools/wheels hypothesis; /venv/bin/python -m vf.selftest",
        "hooks": {
            "guard": "DASK_ARRAY_VERIF",
            "enable": "no source hooks: all instrumentation is harness-side (wrapping rewrite hooks, own executor over __dask_graph__(), recording array-likes, spying block functions); checks import dask_array from /repo's working tree ($VERIF_REPO overrides)",
            "baseline_off_cmd": BASELINE_OFF,
            "source_commits": [],
            "add_only": True,
        },
        "engines": [
            {
                "name": "vf",
                "path": "vf/",
                "serves_properties": sorted(CLAIMED),
                "kind_free_text": "Hypothesis-driven generated-input search (programs as JSON data + NumPy twin interpreter, own graph executor, exhaustive enumeration of small finite domains), collect-then-shrink, JSON replays",
            }
        ],
        "checks": checks,
        "not_applicable": na,
        "notes": "Technique family: property-based testing / fuzzing. Exit 0 held, 1 VIOLATION, 2 harness error. known_findings.json lists recorded defects (KNOWN-FINDING lines) and fixed ones (regress replays).",
    }
    path = os.path.join(HERE, "MANIFEST.json")
    with open(path, "w") as f:
        json.dump(man, f, indent=1)
        f.write("\n")
    try:
        import jsonschema

        with open("/root/.vp/MANIFEST.schema.json") as f:
            jsonschema.validate(man, json.load(f))
        print("MANIFEST.json valid;", len(checks), "checks,", len(na), "not_applicable")
    except ImportError:
        print("MANIFEST.json written (jsonschema not available to validate);", len(checks), "checks")


if __name__ == "__main__":
    main()
