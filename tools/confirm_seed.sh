#!/bin/bash
# tools/confirm_seed.sh <name> <patch.diff> <demo.py> [--no-suite]
# Confirms a seeded change in a scratch copy of /repo (never /repo itself):
#   demo passes on the clean tree, fails with the patch, and (unless --no-suite)
#   the repository's test suite still passes with the patch.
# Prints one JSON line with the three results.
name=$1; patch=$(readlink -f "$2"); demo=$(readlink -f "$3"); suite=${4:-}
scratch=$(mktemp -d /tmp/vfconfirm-XXXXXX); trap 'rm -rf "$scratch"' EXIT
rsync -a --exclude .git --exclude target --exclude '__pycache__' /repo/ "$scratch/repo/"
cd "$scratch/repo"
clean=$(PYTHONPATH="$scratch/repo" /venv/bin/python "$demo" >/dev/null 2>&1; echo $?)
patch -p1 -s < "$patch" || { echo "{\"name\":\"$name\",\"error\":\"patch failed\"}"; exit 2; }
withp=$(PYTHONPATH="$scratch/repo" /venv/bin/python "$demo" >/dev/null 2>&1; echo $?)
if [ "$suite" = "--no-suite" ]; then tests="skipped"; else
tests=$(PYTHONPATH="$scratch/repo" /venv/bin/python -m pytest -q -p no:cacheprovider --timeout=900 -x 2>&1 | tail -1 | tr -d '\n' | sed 's/"/ /g'); fi
echo "{\"name\":\"$name\",\"demo_exit_clean\":$clean,\"demo_exit_patched\":$withp,\"suite_with_patch\":\"$tests\"}"
