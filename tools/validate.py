#!/usr/bin/env python3-vt
"""Validate MANIFEST.json and evidence/*.json against the schemas (needs jsonschema: python3-vt)."""
import glob, json, os, sys
import jsonschema
HERE = os.path.dirname(os.path.dirname(os.path.abspath(__file__)))
ms = json.load(open("/root/.vp/MANIFEST.schema.json")); es = json.load(open("/root/.vp/EVIDENCE.schema.json"))
jsonschema.validate(json.load(open(os.path.join(HERE, "MANIFEST.json"))), ms)
bad = 0
for p in sorted(glob.glob(os.path.join(HERE, "evidence", "*.json"))):
    try:
        jsonschema.validate(json.load(open(p)), es)
    except Exception as e:
        bad += 1; print("INVALID", p, str(e)[:300])
print("manifest ok; evidence files:", len(glob.glob(os.path.join(HERE, "evidence", "*.json"))), "invalid:", bad)
sys.exit(1 if bad else 0)
