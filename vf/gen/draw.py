"""Thin wrapper over a Hypothesis ``draw`` so generators read like plain code and
every random choice stays inside Hypothesis (replayable, seedable)."""

from __future__ import annotations

from hypothesis import strategies as st


class D:
    def __init__(self, draw):
        self._draw = draw

    def draw(self, strategy):
        return self._draw(strategy)

    def int(self, lo, hi):
        if hi < lo:
            raise ValueError((lo, hi))
        return self._draw(st.integers(lo, hi))

    def bool(self):
        return self._draw(st.booleans())

    def chance(self, num, den):
        """True with probability ~num/den."""
        return self._draw(st.integers(0, den - 1)) < num

    def choice(self, seq):
        seq = list(seq)
        return self._draw(st.sampled_from(seq))

    def weighted(self, pairs):
        """pairs: [(item, weight:int), ...]"""
        pairs = [(i, w) for i, w in pairs if w > 0]
        total = sum(w for _, w in pairs)
        k = self._draw(st.integers(0, total - 1))
        for item, w in pairs:
            if k < w:
                return item
            k -= w
        raise AssertionError

    def subset(self, seq, min_size=0, max_size=None):
        seq = list(seq)
        return self._draw(st.lists(st.sampled_from(seq), min_size=min_size, max_size=max_size if max_size is not None else len(seq), unique=True)) if seq else []

    def perm(self, n):
        return list(self._draw(st.permutations(list(range(n)))))

    def ints(self, lo, hi, min_size=0, max_size=5):
        return self._draw(st.lists(st.integers(lo, hi), min_size=min_size, max_size=max_size))
