"""Index generators and JSON encoding of indices."""

from __future__ import annotations

import numpy as np


def enc(i):
    if isinstance(i, slice):
        return {"slice": [_pi(i.start), _pi(i.stop), _pi(i.step)]}
    if isinstance(i, tuple):
        return {"tuple": [enc(j) for j in i]}
    if isinstance(i, list):
        return {"list": [enc(j) if isinstance(j, list) else (bool(j) if isinstance(j, (bool, np.bool_)) else int(j)) for j in i]}
    if isinstance(i, np.ndarray):
        if i.dtype == bool:
            return {"boolarr": i.astype(int).tolist(), "shape": list(i.shape)}
        return {"intarr": i.tolist(), "shape": list(i.shape)}
    if i is None:
        return None
    if i is Ellipsis:
        return "..."
    return int(i)


def _pi(v):
    return None if v is None else int(v)


def dec(o):
    if isinstance(o, dict):
        if "slice" in o:
            return slice(*o["slice"])
        if "tuple" in o:
            return tuple(dec(j) for j in o["tuple"])
        if "list" in o:
            return [dec(j) if isinstance(j, dict) else j for j in o["list"]]
        if "boolarr" in o:
            return np.array(o["boolarr"], dtype=bool).reshape(o["shape"])
        if "intarr" in o:
            return np.array(o["intarr"], dtype=np.intp).reshape(o["shape"])
    if o == "...":
        return Ellipsis
    return o


STEPS = [None, None, None, 1, 2, 3, -1, -1, -2, -3]


def gen_slice(D, n, plain_bias=True):
    """A slice over an axis of length n: bounds from [-n-2, n+2] U {None}."""
    if plain_bias and D.chance(1, 5):
        return slice(None)

    def bound():
        if D.chance(1, 4):
            return None
        return D.int(-n - 2, n + 2)

    return slice(bound(), bound(), D.choice(STEPS))


def gen_unit_slice(D, n):
    """A non-empty-biased unit-step slice."""
    if n == 0:
        return slice(None)
    a = D.int(0, n - 1)
    b = D.int(a + 1, n)
    return slice(a if a or D.bool() else None, b if b < n or D.bool() else None)


def gen_basic_index(D, shape, allow_none=True, allow_ellipsis=True, int_weight=2):
    """Basic index tuple valid for NumPy on ``shape`` (ints in bounds)."""
    ndim = len(shape)
    k = ndim if D.chance(3, 4) else D.int(0, ndim)
    elems = []
    for ax in range(k):
        n = shape[ax]
        kind = D.weighted([("slice", 6), ("int", int_weight if n > 0 else 0), ("full", 2)])
        if kind == "slice":
            elems.append(gen_slice(D, n))
        elif kind == "int":
            elems.append(D.int(-n, n - 1))
        else:
            elems.append(slice(None))
    if allow_ellipsis and k < ndim and D.chance(1, 3):
        # put an Ellipsis somewhere and move some trailing elems after it
        pos = D.int(0, len(elems))
        elems = elems[:pos] + [Ellipsis] + elems[pos:]
        # elements after the ellipsis address trailing axes; ints may now be out of bounds -> fix up
        after = elems[pos + 1 :]
        fixed = []
        for j, e in enumerate(after):
            ax = ndim - len(after) + j
            n = shape[ax]
            if isinstance(e, int):
                e = D.int(-n, n - 1) if n > 0 else slice(None)
            fixed.append(e)
        elems = elems[: pos + 1] + fixed
    if allow_none and D.chance(1, 5):
        for _ in range(D.int(1, 2)):
            pos = D.int(0, len(elems))
            elems.insert(pos, None)
    return tuple(elems)


def gen_int_list(D, n, min_size=0, max_size=6):
    """Int list over an axis of length n (n > 0): negatives, duplicates, unsorted."""
    return [int(v) for v in D.ints(-n, n - 1, min_size=min_size, max_size=max_size)]
