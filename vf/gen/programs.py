"""Programs as data + twin interpreter (NumPy / dask_array).

A program is JSON:
  {"leaves": [{"shape": [...], "dtype": "f8", "chunks": [[...], ...], "offset": k, "kind": "numpy"}],
   "stmts":  [{"op": name, "args": [var, ...], ...params}],
   "outputs": [var, ...]}
Variables are numbered: leaves first, then statements in order.

Generation evaluates the NumPy twin while drawing, so every drawn statement is
valid *for NumPy* by construction (shapes agree, indices in bounds, no error, no
warning); a statement NumPy rejects is discarded on the spot and counted.
"""

from __future__ import annotations

import json
import warnings

import numpy as np
from hypothesis import strategies as st

from vf.gen import chunks as gchunks
from vf.gen import indices as gidx
from vf.gen.draw import D

DTYPES = ["f8", "f8", "f8", "i8", "i8", "f4", "i4", "u1", "bool", "c16"]
EXACT_KINDS = "iub"


# ---------------------------------------------------------------------------
# leaves


def leaf_data(leaf):
    shape = tuple(leaf["shape"])
    size = int(np.prod(shape)) if shape else 1
    base = np.arange(size, dtype=np.int64).reshape(shape) + int(leaf.get("offset", 0))
    dt = np.dtype(leaf["dtype"])
    kind = leaf.get("kind", "numpy")
    if kind in ("ones", "zeros", "full"):
        fill = {"ones": 1, "zeros": 0}.get(kind, leaf.get("fill", 7))
        return np.full(shape, fill, dtype=dt)
    if kind.startswith("rand:"):
        # no NumPy twin: the reference value is what the seeded dask_array source computes the first time
        # (only engines that compare dask_array with itself draw these leaves)
        key = json.dumps(leaf, sort_keys=True)
        if key not in _RANDOM_VALUES:
            _RANDOM_VALUES[key] = np.asarray(random_leaf(leaf).compute(scheduler="sync"))
        return _RANDOM_VALUES[key].copy()
    if dt == np.bool_:
        a = (base % 3) == 0
    elif dt.kind == "u":
        a = (base % 251).astype(dt)
    elif dt.kind == "c":
        a = base.astype(dt) + 1j * (base % 5)
    else:
        a = base.astype(dt)
    if leaf.get("nan") and dt.kind == "f" and a.size:
        a = a.copy()
        flat = a.reshape(-1)
        m = int(leaf["nan"])
        flat[(np.arange(flat.size) % m) == (m // 2)] = np.nan
    return a


_RANDOM_VALUES = {}
RANDOM_KINDS = ("rand:rs-choice", "rand:rs-sample", "rand:gen-random", "rand:gen-integers")


def random_leaf(leaf):
    import dask_array as da

    shape = tuple(leaf["shape"])
    ch = tuple(tuple(c) for c in leaf["chunks"])
    seed = 1 + abs(int(leaf.get("offset", 0)))
    kind = leaf["kind"]
    if kind == "rand:rs-choice":
        return da.random.RandomState(seed).choice(17, size=shape, chunks=ch)
    if kind == "rand:rs-sample":
        return da.random.RandomState(seed).random_sample(size=shape, chunks=ch)
    if kind == "rand:gen-integers":
        return da.random.default_rng(seed).integers(0, 50, size=shape, chunks=ch)
    return da.random.default_rng(seed).random(size=shape, chunks=ch)


def gen_shape(D_, max_rank=3, max_len=6, min_rank=0):
    rank = D_.weighted([(r, w) for r, w in [(0, 1), (1, 5), (2, 8), (3, 5), (4, 3)] if min_rank <= r <= max_rank])
    out = []
    if rank >= 4:
        max_len = min(max_len, 4)  # keep 4-d leaves small
    for _ in range(rank):
        out.append(D_.weighted([(0, 1), (1, 2), (2, 2), (3, 3), (4, 3), (5, 3), (6, 2), (7, 2), (8, 1)] if max_len >= 8 else [(n, (1 if n == 0 else 2 if n == 1 else 3)) for n in range(0, max_len + 1)]))
    if rank >= 2 and D_.chance(1, 5):
        out[-1] = out[-2]  # square trailing axes: what x @ x, einsum('ij,ji') and symmetric transposes need
    return tuple(out)


def gen_leaf(D_, shape=None, dtype=None, max_rank=3, max_len=8, kinds=("numpy",)):
    if shape is None:
        shape = gen_shape(D_, max_rank=max_rank, max_len=max_len)
    dt = dtype or D_.choice(DTYPES)
    size = int(np.prod(shape)) if shape else 1
    offset = D_.choice([0, 1, -(size // 2), -3, 10])
    leaf = {"shape": list(shape), "dtype": dt, "chunks": [list(c) for c in gchunks.array_chunks(D_, shape)], "offset": offset, "kind": D_.choice(list(kinds))}
    if leaf["kind"].startswith("rand:"):
        if not shape or size == 0:
            leaf["kind"] = "numpy"
        else:
            leaf["dtype"] = "i8" if leaf["kind"] in ("rand:rs-choice", "rand:gen-integers") else "f8"
    return leaf


# ---------------------------------------------------------------------------
# op table

OPS = {}


class Op:
    def __init__(self, name, family, gen, np_impl, da_impl, exact=True):
        self.name, self.family, self.gen, self.np, self.da, self.exact = name, family, gen, np_impl, da_impl, exact


def op(name, family, exact=True):
    def deco(cls):
        OPS[name] = Op(name, family, cls.gen, cls.np, cls.da, exact)
        return cls

    return deco


def _numeric(v):
    return v.dtype != np.bool_


def _pick(D_, vals, pred=lambda v: True):
    idxs = [i for i, v in enumerate(vals) if pred(v)]
    if not idxs:
        return None
    # bias toward recent variables so chains form, but keep sharing possible
    if len(idxs) > 1 and D_.chance(3, 5):
        return idxs[-1]
    return D_.choice(idxs)


def _bcast_ok(a, b):
    try:
        np.broadcast_shapes(a.shape, b.shape)
        return True
    except ValueError:
        return False


SCAL = [-3, -2, -1, 0, 1, 2, 3, 0.5]


def _simple_unary(name, fn_np, fn_da=None, pred=_numeric, exact=True, family="elemwise"):
    fn_da = fn_da or fn_np

    @op(name, family, exact)
    class _U:
        @staticmethod
        def gen(D_, vals):
            i = _pick(D_, vals, pred)
            return None if i is None else {"op": name, "args": [i]}

        @staticmethod
        def np(s, a):
            return fn_np(a[0])

        @staticmethod
        def da(s, a):
            return fn_da(a[0])

    return _U


_simple_unary("neg", lambda x: -x)
_simple_unary("abs", lambda x: abs(x))
_simple_unary("square", lambda x: x * x)
_simple_unary("sqrt_abs", lambda x: np.sqrt(abs(x)), exact=False)
_simple_unary("logical_not", lambda x: ~x, pred=lambda v: v.dtype == np.bool_)
_simple_unary("isnan", lambda x: np.isnan(x), pred=lambda v: v.dtype.kind in "fc")
_simple_unary("real", lambda x: x.real, pred=lambda v: v.dtype.kind == "c")
_simple_unary("conj", lambda x: x.conj(), pred=lambda v: v.dtype.kind in "fc")
_simple_unary("T", lambda x: x.T, pred=lambda v: True, family="shape")
_simple_unary("ravel", lambda x: x.ravel(), pred=lambda v: True, family="shape")
_simple_unary("copy", lambda x: x.copy(), pred=lambda v: True, family="shape")


def _scalar_op(name, fn):
    @op(name, "elemwise", exact=(name != "div_s"))
    class _S:
        @staticmethod
        def gen(D_, vals):
            i = _pick(D_, vals, _numeric)
            if i is None:
                return None
            k = D_.choice(SCAL if vals[i].dtype.kind in "fc" else [x for x in SCAL if isinstance(x, int)])
            if name == "div_s" and k == 0:
                k = 2
            return {"op": name, "args": [i], "k": k}

        @staticmethod
        def np(s, a):
            return fn(a[0], s["k"])

        @staticmethod
        def da(s, a):
            return fn(a[0], s["k"])


_scalar_op("add_s", lambda x, k: x + k)
_scalar_op("mul_s", lambda x, k: x * k)
_scalar_op("rsub_s", lambda x, k: k - x)
_scalar_op("div_s", lambda x, k: x / k)
_scalar_op("gt_s", lambda x, k: x > k)
_scalar_op("le_s", lambda x, k: x <= k)


def _binary(name, fn_np, fn_da=None, pred=_numeric):
    fn_da = fn_da or fn_np

    @op(name, "elemwise2")
    class _B:
        @staticmethod
        def gen(D_, vals):
            i = _pick(D_, vals, pred)
            if i is None:
                return None
            cands = [j for j, v in enumerate(vals) if pred(v) and _bcast_ok(vals[i], v)]
            j = D_.choice(cands)
            return {"op": name, "args": [i, j]}

        @staticmethod
        def np(s, a):
            return fn_np(a[0], a[1])

        @staticmethod
        def da(s, a):
            return fn_da(a[0], a[1])


_binary("add", lambda x, y: x + y)
_binary("sub", lambda x, y: x - y)
_binary("mul", lambda x, y: x * y)
_binary("maximum", lambda x, y: np.maximum(x, y), pred=lambda v: v.dtype.kind in "iuf")
_binary("lt", lambda x, y: x < y, pred=lambda v: v.dtype.kind in "iufb")
_binary("logical_and", lambda x, y: x & y, pred=lambda v: v.dtype == np.bool_)


@op("where", "elemwise2")
class _Where:
    @staticmethod
    def gen(D_, vals):
        i = _pick(D_, vals, lambda v: v.dtype.kind in "iufb")
        if i is None:
            return None
        cands = [j for j, v in enumerate(vals) if _bcast_ok(vals[i], v)]
        j = D_.choice(cands)
        return {"op": "where", "args": [i, j], "k": D_.choice([0, 1, 2, 5]), "other": D_.choice([0, -1, 7])}

    @staticmethod
    def np(s, a):
        return np.where(a[0] > s["k"], a[1], s["other"])

    @staticmethod
    def da(s, a):
        import dask_array as da

        return da.where(a[0] > s["k"], a[1], s["other"])


@op("astype", "elemwise")
class _Astype:
    @staticmethod
    def gen(D_, vals):
        i = _pick(D_, vals, lambda v: v.dtype.kind != "c")
        if i is None:
            return None
        return {"op": "astype", "args": [i], "dtype": D_.choice(["f8", "f4", "i8", "i4", "bool", "c16"])}

    @staticmethod
    def np(s, a):
        return a[0].astype(s["dtype"])

    @staticmethod
    def da(s, a):
        return a[0].astype(s["dtype"])


@op("clip", "elemwise")
class _Clip:
    @staticmethod
    def gen(D_, vals):
        i = _pick(D_, vals, lambda v: v.dtype.kind in "if")
        if i is None:
            return None
        lo = D_.int(-3, 3)
        return {"op": "clip", "args": [i], "lo": lo, "hi": lo + D_.int(0, 6)}

    @staticmethod
    def np(s, a):
        return np.clip(a[0], s["lo"], s["hi"])

    @staticmethod
    def da(s, a):
        import dask_array as da

        return da.clip(a[0], s["lo"], s["hi"])


# ---- shape ops ------------------------------------------------------------


@op("transpose", "shape")
class _Transpose:
    @staticmethod
    def gen(D_, vals):
        i = _pick(D_, vals, lambda v: v.ndim >= 2)
        if i is None:
            return None
        return {"op": "transpose", "args": [i], "axes": D_.perm(vals[i].ndim)}

    @staticmethod
    def np(s, a):
        return np.transpose(a[0], s["axes"])

    @staticmethod
    def da(s, a):
        return a[0].transpose(tuple(s["axes"]))


@op("transpose_hi", "shape")
class _TransposeHi:
    """transpose of a rank >= 3 array (axis bookkeeping of pushdowns only goes wrong for
    permutations that are not their own inverse, which need >= 3 surviving axes)."""

    @staticmethod
    def gen(D_, vals):
        i = _pick(D_, vals, lambda v: v.ndim >= 3)
        if i is None:
            return None
        n = vals[i].ndim
        if n >= 4 and D_.chance(1, 2):
            # a rotation: whichever axis an integer index removes, the rest is still a 3-cycle
            k = D_.choice([1, n - 1])
            return {"op": "transpose_hi", "args": [i], "axes": [(j + k) % n for j in range(n)]}
        return {"op": "transpose_hi", "args": [i], "axes": D_.perm(n)}

    np = _Transpose.np
    da = _Transpose.da


@op("swapaxes", "shape")
class _Swap:
    @staticmethod
    def gen(D_, vals):
        i = _pick(D_, vals, lambda v: v.ndim >= 2)
        if i is None:
            return None
        n = vals[i].ndim
        return {"op": "swapaxes", "args": [i], "a1": D_.int(-n, n - 1), "a2": D_.int(-n, n - 1)}

    @staticmethod
    def np(s, a):
        return np.swapaxes(a[0], s["a1"], s["a2"])

    @staticmethod
    def da(s, a):
        import dask_array as da

        return da.swapaxes(a[0], s["a1"], s["a2"])


@op("moveaxis", "shape")
class _Move:
    @staticmethod
    def gen(D_, vals):
        i = _pick(D_, vals, lambda v: v.ndim >= 2)
        if i is None:
            return None
        n = vals[i].ndim
        return {"op": "moveaxis", "args": [i], "src": D_.int(-n, n - 1), "dst": D_.int(-n, n - 1)}

    @staticmethod
    def np(s, a):
        return np.moveaxis(a[0], s["src"], s["dst"])

    @staticmethod
    def da(s, a):
        import dask_array as da

        return da.moveaxis(a[0], s["src"], s["dst"])


def _factor_shapes(D_, size, max_rank=3):
    """A random shape with the given total size."""
    if size == 0:
        r = D_.int(1, max_rank)
        sh = [D_.int(0, 3) for _ in range(r)]
        sh[D_.int(0, r - 1)] = 0
        return sh
    r = D_.int(1, max_rank)
    sh = []
    rem = size
    for _ in range(r - 1):
        divs = [d for d in range(1, rem + 1) if rem % d == 0]
        d = D_.choice(divs)
        sh.append(d)
        rem //= d
    sh.append(rem)
    return sh


@op("reshape", "shape")
class _Reshape:
    @staticmethod
    def gen(D_, vals):
        i = _pick(D_, vals, lambda v: v.ndim >= 1)
        if i is None:
            return None
        sh = _factor_shapes(D_, vals[i].size)
        if len(sh) > 1 and D_.chance(1, 4):
            sh[D_.int(0, len(sh) - 1)] = -1
            if vals[i].size == 0 and sh.count(0):
                return None  # -1 with a 0 is ambiguous for NumPy
        return {"op": "reshape", "args": [i], "shape": sh}

    @staticmethod
    def np(s, a):
        return a[0].reshape(s["shape"])

    @staticmethod
    def da(s, a):
        return a[0].reshape(tuple(s["shape"]))


@op("expand_dims", "shape")
class _Expand:
    @staticmethod
    def gen(D_, vals):
        i = _pick(D_, vals, lambda v: v.ndim <= 3)
        if i is None:
            return None
        n = vals[i].ndim
        return {"op": "expand_dims", "args": [i], "axis": D_.int(-n - 1, n)}

    @staticmethod
    def np(s, a):
        return np.expand_dims(a[0], s["axis"])

    @staticmethod
    def da(s, a):
        import dask_array as da

        return da.expand_dims(a[0], s["axis"])


@op("squeeze", "shape")
class _Squeeze:
    @staticmethod
    def gen(D_, vals):
        i = _pick(D_, vals, lambda v: 1 in v.shape)
        if i is None:
            return None
        ones = [k for k, n in enumerate(vals[i].shape) if n == 1]
        axis = None if D_.chance(1, 3) else D_.choice(ones) - (vals[i].ndim if D_.bool() else 0)
        return {"op": "squeeze", "args": [i], "axis": axis}

    @staticmethod
    def np(s, a):
        return np.squeeze(a[0], axis=s["axis"])

    @staticmethod
    def da(s, a):
        return a[0].squeeze(axis=s["axis"])


@op("flip", "shape")
class _Flip:
    @staticmethod
    def gen(D_, vals):
        i = _pick(D_, vals, lambda v: v.ndim >= 1)
        if i is None:
            return None
        n = vals[i].ndim
        return {"op": "flip", "args": [i], "axis": D_.int(-n, n - 1)}

    @staticmethod
    def np(s, a):
        return np.flip(a[0], s["axis"])

    @staticmethod
    def da(s, a):
        import dask_array as da

        return da.flip(a[0], s["axis"])


@op("getitem_dask0d", "dask_index")
class _GetitemDask0d:
    """x[k] with k a lazily computed 0-d integer array (the argmax of another variable).  Own family, weight 0
    by default: indexing with dask arrays is C12's subject (its defects are listed there); C29 enables the
    family to audit WHEN such an index is computed."""

    @staticmethod
    def gen(D_, vals):
        i = _pick(D_, vals, lambda v: v.ndim >= 1 and v.shape[0] >= 1)
        if i is None:
            return None
        n = vals[i].shape[0]
        cands = [j for j, w in enumerate(vals) if w.ndim == 1 and 1 <= w.size <= n and w.dtype.kind in "iuf" and _exactly_comparable(w)]
        if not cands:
            return None
        return {"op": "getitem_dask0d", "args": [i, D_.choice(cands)]}

    @staticmethod
    def np(s, a):
        return np.asarray(a[0][int(np.argmax(a[1]))])

    @staticmethod
    def da(s, a):
        return a[0][a[1].argmax()]


@op("diagonal", "index")
class _Diagonal:
    """np.diagonal / np.trace: layers that address source blocks by computed (NumPy-integer) coordinates."""

    @staticmethod
    def gen(D_, vals):
        i = _pick(D_, vals, lambda v: v.ndim >= 2 and _numeric(v))
        if i is None:
            return None
        n = vals[i].ndim
        a1 = D_.int(0, n - 1)
        a2 = D_.choice([k for k in range(n) if k != a1])
        return {"op": "diagonal", "args": [i], "offset": D_.choice([0, 0, 1, -1, 2]), "axis1": a1, "axis2": a2, "trace": D_.chance(1, 3)}

    @staticmethod
    def np(s, a):
        f = np.trace if s["trace"] else np.diagonal
        return np.asarray(f(a[0], offset=s["offset"], axis1=s["axis1"], axis2=s["axis2"]))

    @staticmethod
    def da(s, a):
        import dask_array as da

        f = da.trace if s["trace"] else da.diagonal
        return f(a[0], offset=s["offset"], axis1=s["axis1"], axis2=s["axis2"])


@op("roll", "shape")
class _Roll:
    @staticmethod
    def gen(D_, vals):
        i = _pick(D_, vals, lambda v: v.ndim >= 1)
        if i is None:
            return None
        n = vals[i].ndim
        axis = None if D_.chance(1, 5) else D_.int(-n, n - 1)
        return {"op": "roll", "args": [i], "shift": D_.int(-9, 9), "axis": axis}

    @staticmethod
    def np(s, a):
        return np.roll(a[0], s["shift"], s["axis"])

    @staticmethod
    def da(s, a):
        import dask_array as da

        return da.roll(a[0], s["shift"], s["axis"])


@op("rot90", "shape")
class _Rot:
    @staticmethod
    def gen(D_, vals):
        i = _pick(D_, vals, lambda v: v.ndim >= 2)
        if i is None:
            return None
        n = vals[i].ndim
        ax = D_.perm(n)[:2]
        return {"op": "rot90", "args": [i], "k": D_.int(-2, 3), "axes": ax}

    @staticmethod
    def np(s, a):
        return np.rot90(a[0], s["k"], tuple(s["axes"]))

    @staticmethod
    def da(s, a):
        import dask_array as da

        return da.rot90(a[0], s["k"], tuple(s["axes"]))


@op("broadcast_to", "shape")
class _Bcast:
    @staticmethod
    def gen(D_, vals):
        i = _pick(D_, vals, lambda v: v.ndim <= 3)
        if i is None:
            return None
        sh = [n if n != 1 or D_.bool() else D_.int(0, 4) for n in vals[i].shape]
        extra = [D_.int(0, 3) for _ in range(D_.int(0, 1 if vals[i].ndim >= 3 else 2))]
        return {"op": "broadcast_to", "args": [i], "shape": extra + sh}

    @staticmethod
    def np(s, a):
        return np.broadcast_to(a[0], s["shape"])

    @staticmethod
    def da(s, a):
        import dask_array as da

        return da.broadcast_to(a[0], tuple(s["shape"]))


@op("repeat", "shape")
class _Repeat:
    @staticmethod
    def gen(D_, vals):
        i = _pick(D_, vals, lambda v: v.ndim >= 1)
        if i is None:
            return None
        n = vals[i].ndim
        return {"op": "repeat", "args": [i], "r": D_.int(0, 3), "axis": D_.int(-n, n - 1)}

    @staticmethod
    def np(s, a):
        return np.repeat(a[0], s["r"], axis=s["axis"])

    @staticmethod
    def da(s, a):
        import dask_array as da

        return da.repeat(a[0], s["r"], axis=s["axis"])


@op("tile", "shape")
class _Tile:
    @staticmethod
    def gen(D_, vals):
        i = _pick(D_, vals, lambda v: v.ndim >= 1 and v.size <= 60)
        if i is None:
            return None
        reps = [D_.int(0, 2) if D_.chance(1, 6) else D_.int(1, 2) for _ in range(D_.int(1, min(3, vals[i].ndim + 1)))]
        return {"op": "tile", "args": [i], "reps": reps}

    @staticmethod
    def np(s, a):
        return np.tile(a[0], s["reps"])

    @staticmethod
    def da(s, a):
        import dask_array as da

        return da.tile(a[0], s["reps"])


@op("pad", "shape")
class _Pad:
    @staticmethod
    def gen(D_, vals):
        i = _pick(D_, vals, lambda v: v.ndim >= 1 and v.dtype.kind in "iuf" and v.size <= 200)
        if i is None:
            return None
        v = vals[i]
        mode = D_.choice(["constant", "edge", "reflect", "symmetric", "wrap"])
        width = [[D_.int(0, 3), D_.int(0, 3)] for _ in range(v.ndim)]
        if mode != "constant" and 0 in v.shape:
            return None
        return {"op": "pad", "args": [i], "width": width, "mode": mode}

    @staticmethod
    def np(s, a):
        return np.pad(a[0], s["width"], mode=s["mode"])

    @staticmethod
    def da(s, a):
        import dask_array as da

        return da.pad(a[0], [tuple(w) for w in s["width"]], mode=s["mode"])


# ---- stacking -------------------------------------------------------------


@op("concatenate", "stack")
class _Concat:
    @staticmethod
    def gen(D_, vals):
        i = _pick(D_, vals, lambda v: v.ndim >= 1)
        if i is None:
            return None
        v = vals[i]
        axis = D_.int(0, v.ndim - 1)

        def ok(w):
            return w.ndim == v.ndim and all(a == b for k, (a, b) in enumerate(zip(w.shape, v.shape)) if k != axis)

        cands = [j for j, w in enumerate(vals) if ok(w)]
        args = [i] + [D_.choice(cands) for _ in range(D_.int(1, 2))]
        if D_.bool():
            args.reverse()
        return {"op": "concatenate", "args": args, "axis": axis - (v.ndim if D_.chance(1, 4) else 0)}

    @staticmethod
    def np(s, a):
        return np.concatenate(list(a), axis=s["axis"])

    @staticmethod
    def da(s, a):
        import dask_array as da

        return da.concatenate(list(a), axis=s["axis"])


@op("stack", "stack")
class _Stack:
    @staticmethod
    def gen(D_, vals):
        i = _pick(D_, vals, lambda v: v.ndim <= 3)
        if i is None:
            return None
        v = vals[i]
        cands = [j for j, w in enumerate(vals) if w.shape == v.shape]
        args = [i] + [D_.choice(cands) for _ in range(D_.int(1, 2))]
        return {"op": "stack", "args": args, "axis": D_.int(-v.ndim - 1, v.ndim)}

    @staticmethod
    def np(s, a):
        return np.stack(list(a), axis=s["axis"])

    @staticmethod
    def da(s, a):
        import dask_array as da

        return da.stack(list(a), axis=s["axis"])


# ---- indexing ---------------------------------------------------------------


@op("getitem", "index")
class _Getitem:
    @staticmethod
    def gen(D_, vals):
        i = _pick(D_, vals, lambda v: v.ndim >= 1)
        if i is None:
            return None
        idx = gidx.gen_basic_index(D_, vals[i].shape)
        return {"op": "getitem", "args": [i], "index": gidx.enc(idx)}

    @staticmethod
    def np(s, a):
        return a[0][gidx.dec(s["index"])]

    @staticmethod
    def da(s, a):
        return a[0][gidx.dec(s["index"])]


@op("getitem_list", "index")
class _GetitemList:
    """One integer list on one axis, plain slices elsewhere."""

    @staticmethod
    def gen(D_, vals):
        i = _pick(D_, vals, lambda v: v.ndim >= 1 and any(n > 0 for n in v.shape))
        if i is None:
            return None
        v = vals[i]
        ax = D_.choice([k for k, n in enumerate(v.shape) if n > 0])
        idx = []
        for k, n in enumerate(v.shape):
            if k == ax:
                idx.append(gidx.gen_int_list(D_, n, 0, 6))
            else:
                idx.append(gidx.gen_slice(D_, n) if D_.chance(1, 3) else slice(None))
        return {"op": "getitem_list", "args": [i], "index": gidx.enc(tuple(idx))}

    @staticmethod
    def np(s, a):
        idx = gidx.dec(s["index"])
        idx = tuple(np.asarray(e, dtype=np.intp) if isinstance(e, list) else e for e in idx)
        return a[0][idx]

    @staticmethod
    def da(s, a):
        return a[0][gidx.dec(s["index"])]


@op("take", "index")
class _Take:
    @staticmethod
    def gen(D_, vals):
        i = _pick(D_, vals, lambda v: v.ndim >= 1 and any(n > 0 for n in v.shape))
        if i is None:
            return None
        v = vals[i]
        ax = D_.choice([k for k, n in enumerate(v.shape) if n > 0])
        return {"op": "take", "args": [i], "indices": gidx.gen_int_list(D_, v.shape[ax], 1, 7), "axis": ax}

    @staticmethod
    def np(s, a):
        return np.take(a[0], s["indices"], axis=s["axis"])

    @staticmethod
    def da(s, a):
        import dask_array as da

        return da.take(a[0], s["indices"], axis=s["axis"])


@op("shuffle", "index")
class _Shuffle:
    @staticmethod
    def gen(D_, vals):
        i = _pick(D_, vals, lambda v: v.ndim >= 1 and any(n > 0 for n in v.shape))
        if i is None:
            return None
        v = vals[i]
        ax = D_.choice([k for k, n in enumerate(v.shape) if n > 0])
        n = v.shape[ax]
        groups = [[int(x) for x in D_.ints(0, n - 1, 1, 4)] for _ in range(D_.int(1, 3))]
        return {"op": "shuffle", "args": [i], "indexer": groups, "axis": ax}

    @staticmethod
    def np(s, a):
        flat = [j for g in s["indexer"] for j in g]
        return np.take(a[0], flat, axis=s["axis"])

    @staticmethod
    def da(s, a):
        import dask_array as da

        return da.shuffle(a[0], [list(g) for g in s["indexer"]], axis=s["axis"])


# ---- rechunk ---------------------------------------------------------------


@op("rechunk", "rechunk")
class _Rechunk:
    @staticmethod
    def gen(D_, vals):
        i = _pick(D_, vals, lambda v: v.ndim >= 1)
        if i is None:
            return None
        v = vals[i]
        form = D_.weighted([("explicit", 5), ("int", 3), ("dict", 2), ("minus1", 1)])
        if form == "explicit":
            spec = [list(c) for c in gchunks.array_chunks(D_, v.shape)]
        elif form == "int":
            spec = [D_.int(1, max(1, n)) for n in v.shape]
        elif form == "dict":
            axes = D_.subset(range(v.ndim), 1)
            spec = {"dict": {str(ax - (v.ndim if D_.chance(1, 4) else 0)): D_.choice([-1, D_.int(1, max(1, v.shape[ax]))]) for ax in axes}}
        else:
            spec = [-1 if D_.bool() else D_.int(1, max(1, n)) for n in v.shape]
        return {"op": "rechunk", "args": [i], "chunks": spec}

    @staticmethod
    def np(s, a):
        return a[0]

    @staticmethod
    def da(s, a):
        return a[0].rechunk(decode_chunks(s["chunks"]))


def decode_chunks(spec):
    if isinstance(spec, dict) and "dict" in spec:
        return {int(k): (tuple(v) if isinstance(v, list) else v) for k, v in spec["dict"].items()}
    if isinstance(spec, (str, int)):
        return spec
    return tuple(tuple(c) if isinstance(c, list) else c for c in spec)


@op("rechunk_auto", "rechunk")
class _RechunkAuto:
    """Spec forms that go through auto-chunking: 'auto', byte strings, per-axis
    mixtures with None/-1/ints, block_size_limit, balance=True."""

    @staticmethod
    def gen(D_, vals):
        i = _pick(D_, vals, lambda v: v.ndim >= 1 and v.size > 0)
        if i is None:
            return None
        v = vals[i]
        form = D_.weighted([("auto", 3), ("bytes", 2), ("mixed", 4), ("dict", 2), ("balance", 2)])
        s = {"op": "rechunk_auto", "args": [i]}
        if form == "auto":
            s["chunks"] = "auto"
        elif form == "bytes":
            s["chunks"] = D_.choice(["16B", "64B", "256B", "1kiB"])
        elif form == "mixed":
            s["chunks"] = [D_.weighted([("auto", 4), (-1, 2), (None, 2), (D_.int(1, max(1, n)), 2)]) for n in v.shape]
        elif form == "dict":
            axes = D_.subset(range(v.ndim), 1)
            s["chunks"] = {"dict": {str(ax): D_.weighted([("auto", 3), (-1, 1), (None, 1), (D_.int(1, max(1, v.shape[ax])), 2)]) for ax in axes}}
        else:
            s["chunks"] = [D_.int(1, max(1, n)) for n in v.shape]
            s["balance"] = True
        if form != "balance" and D_.chance(3, 4):
            s["limit"] = D_.choice([16, 64, 256, 1024])
        return s

    @staticmethod
    def np(s, a):
        return a[0]

    @staticmethod
    def da(s, a):
        kw = {}
        if s.get("limit") is not None:
            kw["block_size_limit"] = s["limit"]
        if s.get("balance"):
            kw["balance"] = True
        return a[0].rechunk(decode_chunks(s["chunks"]), **kw)


# ---- reductions -------------------------------------------------------------

REDUCTIONS = {
    "sum": (True, "any"),
    "prod": (True, "any"),
    "min": (True, "real"),
    "max": (True, "real"),
    "any": (True, "any"),
    "all": (True, "any"),
    "mean": (False, "num"),
    "var": (False, "num"),
    "std": (False, "num"),
    "argmin": (True, "real"),
    "argmax": (True, "real"),
}


def _gen_axis(D_, ndim, single=False):
    if ndim == 0:
        return None
    k = D_.weighted([("none", 2), ("int", 5), ("tuple", 0 if single else 3)])
    if k == "none":
        return None
    if k == "int":
        return D_.int(-ndim, ndim - 1)
    axes = D_.subset(range(ndim), 1)
    return sorted(axes)


def _product_safe(v):
    """Product of the non-zero magnitudes stays far from overflow, so every
    association order gives a finite (hence comparable) result."""
    if v.dtype.kind not in "fc" or v.size == 0:
        return True
    with np.errstate(all="ignore"):
        m = np.abs(v.astype(np.complex128 if v.dtype.kind == "c" else np.float64))
        m = m[np.isfinite(m) & (m > 0)]
        if m.size == 0:
            return True
        lg = float(np.sum(np.abs(np.log10(m))))
    single = v.dtype in (np.dtype("f4"), np.dtype("c8"), np.dtype("f2"))
    return lg < (30 if single else 250) and bool(np.isfinite(v).all())


def _exactly_comparable(v):
    """Integer-valued data: ordering is not at the mercy of floating rounding."""
    if v.dtype.kind in "iub":
        return True
    if v.dtype.kind != "f":
        return False
    with np.errstate(all="ignore"):
        # floats: integer-valued AND pairwise distinct - equal floats (var of a constant lane: 650.0 everywhere)
        # are ties for NumPy but need not be bitwise equal after a chunked/tree evaluation
        return bool(np.isfinite(v).all() and np.all(v == np.round(v)) and np.unique(v).size == v.size)


def _red(name):
    exact, dom = REDUCTIONS[name]

    @op(name, "reduction", exact)
    class _R:
        @staticmethod
        def gen(D_, vals):
            def pred(v):
                if name == "prod" and not _product_safe(v):
                    return False  # partial products could overflow in SOME association order (inf*0)
                if name in ("argmin", "argmax") and not _exactly_comparable(v):
                    return False  # ties/near-ties of inexact floats make the arg ill-defined
                if dom == "real":
                    return v.dtype.kind in "iufb"
                if dom == "num":
                    return v.dtype.kind in "iufc"
                return True

            i = _pick(D_, vals, pred)
            if i is None:
                return None
            v = vals[i]
            single = name in ("argmin", "argmax")
            axis = _gen_axis(D_, v.ndim, single=single)
            s = {"op": name, "args": [i], "axis": axis, "keepdims": D_.chance(1, 3)}
            se = D_.choice([None, None, 2, 3, 4])
            if se is not None:
                s["split_every"] = se
            if name in ("var", "std") and D_.chance(1, 4):
                s["ddof"] = 1
            return s

        @staticmethod
        def np(s, a):
            kw = {"axis": tuple(s["axis"]) if isinstance(s["axis"], list) else s["axis"], "keepdims": s["keepdims"]}
            if "ddof" in s:
                kw["ddof"] = s["ddof"]
            return getattr(np, name)(a[0], **kw)

        @staticmethod
        def da(s, a):
            kw = {"axis": tuple(s["axis"]) if isinstance(s["axis"], list) else s["axis"], "keepdims": s["keepdims"]}
            if "ddof" in s:
                kw["ddof"] = s["ddof"]
            if "split_every" in s:
                kw["split_every"] = s["split_every"]
            return getattr(a[0], name)(**kw)


for _n in REDUCTIONS:
    _red(_n)


def _scan(name):
    @op(name, "scan")
    class _C:
        @staticmethod
        def gen(D_, vals):
            i = _pick(D_, vals, lambda v: v.ndim >= 1 and (name == "cumsum" or (v.size <= 24 and _product_safe(v))))
            if i is None:
                return None
            n = vals[i].ndim
            s = {"op": name, "args": [i], "axis": D_.int(-n, n - 1)}
            if D_.chance(1, 3):
                s["method"] = "blelloch"
            return s

        @staticmethod
        def np(s, a):
            return getattr(np, name)(a[0], axis=s["axis"])

        @staticmethod
        def da(s, a):
            import dask_array as da

            kw = {"method": s["method"]} if "method" in s else {}
            return getattr(da, name)(a[0], axis=s["axis"], **kw)


_scan("cumsum")
_scan("cumprod")


@op("diff", "scan")
class _Diff:
    @staticmethod
    def gen(D_, vals):
        i = _pick(D_, vals, lambda v: v.ndim >= 1 and v.dtype != np.bool_)
        if i is None:
            return None
        n = vals[i].ndim
        return {"op": "diff", "args": [i], "n": D_.int(0, 2), "axis": D_.int(-n, n - 1)}

    @staticmethod
    def np(s, a):
        return np.diff(a[0], n=s["n"], axis=s["axis"])

    @staticmethod
    def da(s, a):
        import dask_array as da

        return da.diff(a[0], n=s["n"], axis=s["axis"])


@op("sliding_window_view", "window")
class _SWV:
    @staticmethod
    def gen(D_, vals):
        i = _pick(D_, vals, lambda v: 1 <= v.ndim <= 3 and any(n > 0 for n in v.shape))
        if i is None:
            return None
        v = vals[i]
        ax = D_.choice([k for k, n in enumerate(v.shape) if n > 0])
        n = v.shape[ax]
        # windows at and around the leaves' block sizes: kernel-selection guards compare exactly these
        near = sorted({w for c in getattr(D_, "hints", ()) for w in (c - 1, c, c + 1, c + 2) if 1 <= w <= n})
        w = D_.choice(near) if near and D_.chance(1, 2) else D_.int(1, n)
        layouts = getattr(D_, "leaf_layouts", ())
        if i < len(layouts) and tuple(layouts[i][0]) == v.shape:
            # directly over a source: a thin block (exactly window-1 long) right after a block of at least two
            # windows is where the native kernels keep the block count but move the block boundaries
            spots = [(k, c[j + 1] + 1) for k, c in enumerate(layouts[i][1]) for j in range(len(c) - 1) if c[j + 1] >= 1 and c[j] >= 2 * (c[j + 1] + 1)]
            if spots and D_.chance(2, 3):
                ax, w = D_.choice(spots)
        return {"op": "sliding_window_view", "args": [i], "w": w, "axis": ax - (v.ndim if D_.chance(1, 4) else 0)}

    @staticmethod
    def np(s, a):
        return np.lib.stride_tricks.sliding_window_view(a[0], s["w"], axis=s["axis"])

    @staticmethod
    def da(s, a):
        import dask_array as da

        return da.sliding_window_view(a[0], s["w"], axis=s["axis"])


@op("map_blocks", "map_blocks")
class _MapBlocks:
    @staticmethod
    def gen(D_, vals):
        i = _pick(D_, vals, _numeric)
        if i is None:
            return None
        return {"op": "map_blocks", "args": [i], "fn": D_.choice(["times_two", "plus_one", "negate"])}

    @staticmethod
    def np(s, a):
        from vf import funcs

        return getattr(funcs, s["fn"])(a[0])

    @staticmethod
    def da(s, a):
        from vf import funcs

        return a[0].map_blocks(getattr(funcs, s["fn"]), dtype=a[0].dtype)


@op("map_blocks_kw", "map_blocks", exact=False)
class _MapBlocksKw:
    """A whole dask array (any variable: a source, a fused chain, a reduction) handed to every block call as a
    keyword argument of map_blocks."""

    @staticmethod
    def gen(D_, vals):
        i = _pick(D_, vals, lambda v: v.dtype.kind in "iuf" and v.size > 0)
        if i is None:
            return None
        cands = [j for j, w in enumerate(vals) if w.dtype.kind in "iuf" and 0 < w.size <= 64 and np.all(np.isfinite(w))]
        if not cands:
            return None
        # prefer the newest variable as the keyword operand: a computed chain rather than a source
        j = cands[-1] if D_.chance(1, 2) else D_.choice(cands)
        return {"op": "map_blocks_kw", "args": [i, j]}

    @staticmethod
    def np(s, a):
        from vf import funcs

        return funcs.plus_total(a[0], m=a[1])

    @staticmethod
    def da(s, a):
        import dask_array as da

        from vf import funcs

        return da.map_blocks(funcs.plus_total, a[0], m=a[1], dtype="f8")


@op("matmul", "linalg")
class _Matmul:
    @staticmethod
    def gen(D_, vals):
        i = _pick(D_, vals, lambda v: v.ndim == 2 and _numeric(v))
        if i is None:
            return None
        v = vals[i]
        cands = [j for j, w in enumerate(vals) if _numeric(w) and w.ndim in (1, 2) and w.shape[0] == v.shape[1]]
        if not cands:
            return {"op": "matmul", "args": [i, i], "tb": True}
        return {"op": "matmul", "args": [i, D_.choice(cands)], "tb": False}

    @staticmethod
    def np(s, a):
        return a[0] @ (a[1].T if s["tb"] else a[1])

    @staticmethod
    def da(s, a):
        return a[0] @ (a[1].T if s["tb"] else a[1])


@op("outer", "linalg")
class _Outer:
    """np.outer / einsum('i,j->ij') / subtract.outer of 1-d operands: one operand may feed the SAME
    blockwise twice under different output indices (fusion must keep both block mappings apart)."""

    @staticmethod
    def gen(D_, vals):
        i = _pick(D_, vals, lambda v: v.ndim == 1 and _numeric(v) and v.size <= 12)
        if i is None:
            return None
        cands = [j for j, w in enumerate(vals) if w.ndim == 1 and _numeric(w) and w.size <= 12]
        j = i if D_.chance(1, 2) else D_.choice(cands)
        return {"op": "outer", "args": [i, j], "via": D_.choice(["outer", "einsum", "subtract.outer"])}

    @staticmethod
    def np(s, a):
        if s["via"] == "subtract.outer":
            return np.subtract.outer(a[0], a[1])
        return np.outer(a[0], a[1])

    @staticmethod
    def da(s, a):
        import dask_array as da

        if s["via"] == "einsum":
            return da.einsum("i,j->ij", a[0], a[1])
        if s["via"] == "subtract.outer":
            return da.subtract.outer(a[0], a[1])
        return da.outer(a[0], a[1])


@op("einsum_perm", "linalg")
class _EinsumPerm:
    """An operand used twice with permuted index labels in one blockwise: einsum('ij,ji->ij', m, m) etc."""

    @staticmethod
    def gen(D_, vals):
        i = _pick(D_, vals, lambda v: v.ndim == 2 and v.shape[0] == v.shape[1] and _numeric(v) and v.dtype.kind in "if" and v.size > 0)
        if i is None:
            return None
        return {"op": "einsum_perm", "args": [i], "spec": D_.choice(["ij,ji->ij", "ij,ji->", "ij,ji->i"])}

    @staticmethod
    def np(s, a):
        return np.einsum(s["spec"], a[0], a[0])

    @staticmethod
    def da(s, a):
        import dask_array as da

        return da.einsum(s["spec"], a[0], a[0])


@op("tensordot", "linalg")
class _Tensordot:
    @staticmethod
    def gen(D_, vals):
        i = _pick(D_, vals, lambda v: 1 <= v.ndim <= 3 and _numeric(v))
        if i is None:
            return None
        v = vals[i]
        ax = D_.int(0, v.ndim - 1)
        cands = [(j, k) for j, w in enumerate(vals) if _numeric(w) and 1 <= w.ndim <= 3 for k in range(w.ndim) if w.shape[k] == v.shape[ax]]
        j, k = D_.choice(cands)
        return {"op": "tensordot", "args": [i, j], "axes": [[ax], [k]]}

    @staticmethod
    def np(s, a):
        return np.tensordot(a[0], a[1], axes=(tuple(s["axes"][0]), tuple(s["axes"][1])))

    @staticmethod
    def da(s, a):
        import dask_array as da

        return da.tensordot(a[0], a[1], axes=(tuple(s["axes"][0]), tuple(s["axes"][1])))


@op("expand_dims_multi", "shape")
class _ExpandMulti:
    """Several inserted axes at once (one ExpandDims node carrying >= 2 new axes), via np.expand_dims
    with a tuple or via an index with several None entries."""

    @staticmethod
    def gen(D_, vals):
        i = _pick(D_, vals, lambda v: 1 <= v.ndim <= 2)
        if i is None:
            return None
        n = vals[i].ndim
        k = D_.int(2, 3)
        axes = sorted(D_.subset(range(n + k), k, k))
        return {"op": "expand_dims_multi", "args": [i], "axes": axes, "via": D_.choice(["expand_dims", "index"])}

    @staticmethod
    def _index(s, ndim):
        out, src = [], 0
        for pos in range(ndim + len(s["axes"])):
            if pos in s["axes"]:
                out.append(None)
            else:
                out.append(slice(None))
                src += 1
        return tuple(out)

    @staticmethod
    def np(s, a):
        return np.expand_dims(a[0], tuple(s["axes"]))

    @staticmethod
    def da(s, a):
        import dask_array as da

        if s["via"] == "index":
            return a[0][_ExpandMulti._index(s, a[0].ndim)]
        return da.expand_dims(a[0], tuple(s["axes"]))


def _wsum_chunk(x, weights=None, axis=None, keepdims=False, **kw):
    return np.sum(x * weights, axis=axis, keepdims=keepdims)


def _wsum_agg(x, axis=None, keepdims=False, **kw):
    return np.sum(x, axis=axis, keepdims=keepdims)


@op("wsum", "reduction")
class _WSum:
    """da.reduction with the public `weights=` keyword (weights are sliced alongside the data by pushdowns)."""

    @staticmethod
    def gen(D_, vals):
        i = _pick(D_, vals, lambda v: 1 <= v.ndim <= 3 and v.dtype.kind in "if" and v.size > 0)
        if i is None:
            return None
        v = vals[i]
        axis = D_.int(0, v.ndim - 1)
        return {"op": "wsum", "args": [i], "axis": axis, "keepdims": D_.chance(1, 2), "wshape": D_.choice(["full", "axis"])}

    @staticmethod
    def _weights(s, shape):
        if s["wshape"] == "full":
            return (np.arange(int(np.prod(shape))).reshape(shape) % 5 + 1).astype("f8")
        sh = [1] * len(shape)
        sh[s["axis"]] = shape[s["axis"]]
        return (np.arange(shape[s["axis"]]) % 3 + 1).astype("f8").reshape(sh) * np.ones(shape)

    @staticmethod
    def np(s, a):
        w = _WSum._weights(s, a[0].shape)
        return np.sum(a[0] * w, axis=s["axis"], keepdims=s["keepdims"])

    @staticmethod
    def da(s, a):
        import dask_array as da

        w = _WSum._weights(s, a[0].shape)
        return da.reduction(a[0], _wsum_chunk, _wsum_agg, axis=s["axis"], keepdims=s["keepdims"], dtype=np.result_type(a[0].dtype, "f8"), weights=w)


@op("add_where_out", "setitem")
class _AddWhereOut:
    """Functional form of `da.add(p, q, where=mask, out=o)`: o is a copy of an existing variable (sharing
    its blocks), the ufunc fills it in place where the mask holds; result is o.  Other consumers of the
    copied variable must keep seeing their own values."""

    @staticmethod
    def gen(D_, vals):
        i = _pick(D_, vals, lambda v: v.ndim >= 1 and v.dtype.kind == "f" and v.size > 0)
        if i is None:
            return None
        v = vals[i]
        from vf import exclusions

        cands = [j for j, w in enumerate(vals) if w.shape == v.shape and w.dtype.kind in "if"]
        if "KF-ufunc-out-dtype" in exclusions._open_ids():
            # listed finding (C11): out= of another dtype than the ufunc's natural result mis-advertises the dtype
            cands = [j for j in cands if vals[j].dtype == v.dtype]
        st_ = {"op": "add_where_out", "args": [i, D_.choice(cands)], "k": D_.choice([0, 1, 3]), "mod": D_.choice([2, 3])}
        if v.ndim >= 2 and D_.chance(1, 3):
            st_["bmask"] = True  # a mask that is BROADCAST against out= along the leading axes (one row of blocks)
        return st_

    @staticmethod
    def _mask(s, shape):
        if s.get("bmask"):
            shape = (1,) * (len(shape) - 1) + (shape[-1],)
        return (np.arange(int(np.prod(shape))).reshape(shape) % s["mod"]) == 0

    @staticmethod
    def np(s, a):
        o = a[0].copy()
        np.add(a[1], s["k"], out=o, where=_AddWhereOut._mask(s, o.shape))
        return o

    @staticmethod
    def da(s, a):
        import dask_array as da

        o = a[0].copy()
        m = _AddWhereOut._mask(s, o.shape)
        chunks = o.chunks if not s.get("bmask") else ((1,),) * (o.ndim - 1) + (o.chunks[-1],)
        da.add(a[1], s["k"], out=o, where=da.from_array(m, chunks=chunks))
        return o


@op("setitem", "setitem")
class _Setitem:
    """Functional form of an in-place assignment: y = copy(x); y[index] = value; result y."""

    @staticmethod
    def gen(D_, vals):
        i = _pick(D_, vals, lambda v: v.ndim >= 1 and v.dtype.kind in "iuf" and v.size > 0)
        if i is None:
            return None
        v = vals[i]
        idx = gidx.gen_basic_index(D_, v.shape, allow_none=False, allow_ellipsis=True)
        if v.shape[-1] >= 3 and D_.chance(1, 3):
            # a strided window along the last axis (where an array value is laid out element by element
            # across block boundaries), any sign
            step = D_.choice([2, 3, -2, -3, 2])
            start = D_.int(0, 2) if step > 0 else D_.choice([None, -1, -2])
            idx = (Ellipsis, slice(start, None, step)) if v.ndim == 1 or D_.bool() else (D_.int(0, v.shape[0] - 1), Ellipsis, slice(start, None, step))
        kind = D_.weighted([("scalar", 3), ("row", 3)])
        s = {"op": "setitem", "args": [i], "index": gidx.enc(idx)}
        if kind == "scalar":
            s["value"] = D_.choice([-5, 0, 7])
        else:
            sel = v[idx]
            s["value"] = {"arange": list(sel.shape[-1:])}  # broadcast along the leading selected axes
        return s

    @staticmethod
    def _value(s, dtype):
        v = s["value"]
        if isinstance(v, dict):
            return (np.arange(int(np.prod(v["arange"])) if v["arange"] else 1).reshape(v["arange"]) + 100).astype(dtype)
        return v

    @staticmethod
    def np(s, a):
        out = a[0].copy()
        out[gidx.dec(s["index"])] = _Setitem._value(s, a[0].dtype)
        return out

    @staticmethod
    def da(s, a):
        out = a[0].copy()
        out[gidx.dec(s["index"])] = _Setitem._value(s, a[0].dtype)
        return out


FAMILY_WEIGHTS = {
    "setitem": 5,
    "elemwise": 10,
    "elemwise2": 8,
    "shape": 12,
    "stack": 5,
    "index": 12,
    "rechunk": 6,
    "reduction": 10,
    "scan": 3,
    "window": 2,
    "map_blocks": 2,
    "linalg": 3,
    "dask_index": 0,
}


_IDX = ["getitem", "getitem", "getitem_list", "take", "rechunk"]
FOLLOWUPS = {
    "transpose": _IDX,
    "transpose_hi": _IDX,
    "moveaxis": _IDX,
    "swapaxes": _IDX,
    "T": _IDX,
    "expand_dims": ["rechunk", "rechunk_auto", "getitem", "take"],
    "expand_dims_multi": ["rechunk", "rechunk", "rechunk_auto", "getitem", "take"],
    "sliding_window_view": ["sum", "min", "max", "mean", "getitem", "prod", "any"],
    "take": ["getitem", "rechunk", "sliding_window_view", "repeat"],
    "getitem_list": ["getitem", "rechunk", "sliding_window_view"],
    "shuffle": ["getitem", "rechunk"],
    "concatenate": _IDX,
    "stack": _IDX,
    "wsum": ["getitem"],
    "sum": ["getitem", "broadcast_to", "concatenate", "stack"],
    "mean": ["getitem", "concatenate"],
    "max": ["getitem", "concatenate"],
    "min": ["getitem", "concatenate"],
    "broadcast_to": ["take", "getitem", "shuffle"],
    "reshape": ["getitem", "rechunk"],
    "rechunk": ["rechunk", "getitem", "sliding_window_view", "concatenate"],
    "rechunk_auto": ["rechunk", "getitem", "sliding_window_view"],
    "repeat": ["getitem"],
    "pad": ["getitem"],
    "map_blocks": ["getitem", "rechunk"],
    "add": ["getitem", "rechunk", "take"],
    "where": ["getitem", "rechunk", "take"],
    "mul_s": ["map_blocks_kw", "getitem", "neg"],
    "add_s": ["map_blocks_kw", "getitem", "mul_s"],
    "neg": ["map_blocks_kw", "add_s"],
}


def ops_by_family():
    out = {}
    for o in OPS.values():
        out.setdefault(o.family, []).append(o.name)
    return out


# ---------------------------------------------------------------------------
# interpreters


class NumpyUndefined(Exception):
    """NumPy raised or warned: the statement is not a defined computation."""


def np_apply(stmt, vals):
    o = OPS[stmt["op"]]
    args = [vals[j] for j in stmt["args"]]
    with warnings.catch_warnings():
        warnings.simplefilter("error")
        try:
            with np.errstate(all="raise"):
                r = o.np(stmt, args)
        except (Exception, Warning) as e:
            raise NumpyUndefined(f"{stmt['op']}: {type(e).__name__}: {e}") from e
    return r if isinstance(r, np.ndarray) else np.asarray(r)


def eval_np(prog):
    vals = [leaf_data(leaf) for leaf in prog["leaves"]]
    for s in prog["stmts"]:
        vals.append(np_apply(s, vals))
    return vals


def default_leaf_factory(leaf, data):
    import dask_array as da

    kind = leaf.get("kind", "numpy")
    ch = tuple(tuple(c) for c in leaf["chunks"])
    if kind == "ones":
        return da.ones(tuple(leaf["shape"]), dtype=leaf["dtype"], chunks=ch)
    if kind == "zeros":
        return da.zeros(tuple(leaf["shape"]), dtype=leaf["dtype"], chunks=ch)
    if kind == "full":
        return da.full(tuple(leaf["shape"]), leaf.get("fill", 7), dtype=leaf["dtype"], chunks=ch)
    if kind.startswith("rand:"):
        return random_leaf(leaf)
    return da.from_array(data.copy(), chunks=ch)


def build_da(prog, leaf_factory=None, upto=None):
    """Build the dask_array collections of every variable. Exceptions propagate."""
    lf = leaf_factory or default_leaf_factory
    vars_ = [lf(leaf, leaf_data(leaf)) for leaf in prog["leaves"]]
    for k, s in enumerate(prog["stmts"]):
        if upto is not None and k >= upto:
            break
        o = OPS[s["op"]]
        vars_.append(o.da(s, [vars_[j] for j in s["args"]]))
    return vars_


def is_exact(prog):
    return all(OPS[s["op"]].exact for s in prog["stmts"])


def families(prog):
    return {OPS[s["op"]].family for s in prog["stmts"]}


def n_blocks_max(prog):
    return max((gchunks.nblocks(l["chunks"]) for l in prog["leaves"]), default=1)


def shares_variable(prog):
    used = {}
    for s in prog["stmts"]:
        for j in set(s["args"]):
            used[j] = used.get(j, 0) + 1
        if len(s["args"]) != len(set(s["args"])):
            return True
    for j in prog["outputs"]:
        used[j] = used.get(j, 0) + 1
    return any(c >= 2 for c in used.values())


def has_zero_axis(prog):
    return any(0 in l["shape"] for l in prog["leaves"])


# ---------------------------------------------------------------------------
# generation


def program_strategy(min_stmts=1, max_stmts=6, max_leaves=2, family_weights=None, op_filter=None, leaf_kinds=("numpy",), max_rank=4, max_len=8, dtypes=None, n_outputs=(1, 2), max_size=400, first_ops=None, ensure_ops=None):
    """Hypothesis strategy yielding (program, stats) with stats = {"discarded": n}."""
    fw = dict(FAMILY_WEIGHTS if family_weights is None else family_weights)
    fams = {f: [n for n in names if op_filter is None or op_filter(n)] for f, names in ops_by_family().items()}
    fams = {f: v for f, v in fams.items() if v and fw.get(f, 0) > 0}

    @st.composite
    def strat(draw):
        D_ = D(draw)
        nleaves = D_.int(1, max_leaves)
        leaves = []
        for k in range(nleaves):
            if k > 0 and D_.chance(2, 3):
                # a leaf related to the first one: same shape, broadcastable, or sharing one axis length
                base = leaves[0]["shape"]
                mode = D_.choice(["same", "bcast", "suffix"])
                if mode == "same" or not base:
                    shape = tuple(base)
                elif mode == "bcast":
                    shape = tuple(1 if D_.bool() else n for n in base)
                else:
                    shape = tuple(base[D_.int(0, len(base) - 1) :])
                leaves.append(gen_leaf(D_, shape=shape, dtype=D_.choice(dtypes) if dtypes else None, kinds=leaf_kinds))
            else:
                leaves.append(gen_leaf(D_, max_rank=max_rank, max_len=max_len, dtype=D_.choice(dtypes) if dtypes else None, kinds=leaf_kinds))
        template = []
        ok_ops = {n for v in fams.values() for n in v}
        if "sliding_window_view" in ok_ops and "sum" in ok_ops and leaf_kinds == ("numpy",) and max_rank >= 2 and not first_ops and D_.chance(1, 12):
            # TEMPLATE (one program in twelve): a window reduction directly over a source whose chunking has a
            # thin block (exactly window-1 long) right after a block of at least two windows - the layout under
            # which the native window kernels keep the number of blocks but move their boundaries.  The rest
            # of the program is drawn as usual on top of it.
            thin = D_.choice([1, 1, 2])
            w = thin + 1
            ch = [D_.int(2 * w, 2 * w + 3), thin, D_.int(1, 4)]
            if D_.bool():
                ch = [D_.int(1, 3)] + ch
            n = sum(ch)
            if D_.chance(1, 2):
                shape, chunks, ax = [n], [ch], 0
            else:
                m = D_.int(1, 4)
                other = list(gchunks.axis_chunks(D_, m))
                shape, chunks, ax = ([n, m], [ch, other], 0) if D_.bool() else ([m, n], [other, ch], 1)
            leaves[0] = {"shape": shape, "dtype": D_.choice(["f8", "i8", "f8"]), "chunks": chunks, "offset": D_.choice([0, 1, -3]), "kind": "numpy"}
            partner = None
            if len(shape) == 2 and "concatenate" in ok_ops and D_.chance(1, 2):
                # a second source that really IS chunked the way the window reduction advertises, to be joined
                # with it along the other axis (the advertised layout is asked from the library: it only
                # shapes an input)
                try:
                    import dask_array as _da

                    adv = _da.sliding_window_view(_da.from_array(np.zeros(shape), chunks=tuple(tuple(c) for c in chunks)), w, axis=ax).sum(axis=-1).chunks
                    k = D_.int(1, 3)
                    pchunks = [list(c) for c in adv]
                    pchunks[1 - ax] = [k]
                    pshape = [sum(c) for c in pchunks]
                    partner = {"shape": pshape, "dtype": leaves[0]["dtype"], "chunks": pchunks, "offset": 10, "kind": "numpy"}
                except Exception:
                    partner = None
            if partner is not None:
                leaves = [leaves[0], partner]
                nleaves = 2
            template = [
                {"op": "sliding_window_view", "args": [0], "w": w, "axis": ax},
                {"op": D_.choice(["sum", "sum", "max", "min", "mean"]), "args": [nleaves], "axis": -1, "keepdims": False},
            ]
            if partner is not None:
                template.append({"op": "concatenate", "args": [1, nleaves + 1] if D_.chance(2, 3) else [nleaves + 1, 1], "axis": 1 - ax})
        vals = [leaf_data(l) for l in leaves]
        D_.hints = sorted({c for l in leaves for ax in l["chunks"] for c in ax if c > 0})
        D_.leaf_layouts = [(l["shape"], l["chunks"]) for l in leaves]
        stmts = []
        for s in template:
            stmts.append(s)
            vals.append(np_apply(s, vals))
        discarded = 0
        target = max(D_.int(min_stmts, max_stmts), len(stmts))
        attempts = 0
        forced_at = D_.int(0, target - 1) if ensure_ops else None
        while len(stmts) < target and attempts < target * 4:
            attempts += 1
            if first_ops and not stmts:
                name = D_.choice(first_ops)
            elif forced_at is not None and len(stmts) == forced_at and not any(t["op"] in ensure_ops for t in stmts):
                name = D_.choice(list(ensure_ops))
            elif stmts and vals[-1].ndim == 2 and vals[-1].shape[0] == vals[-1].shape[1] and vals[-1].size > 1 and vals[-1].dtype.kind in "if" and "einsum_perm" in fams.get("linalg", ()) and D_.chance(1, 4):
                # a freshly produced square matrix: use it twice in one contraction (x @ x, einsum('ij,ji'))
                name = D_.choice(["einsum_perm", "einsum_perm", "matmul"])
            elif stmts and stmts[-1]["op"] in FOLLOWUPS and D_.chance(2, 5):
                # producer/consumer pairs whose rewrites interact (pushdowns through the producer)
                cands = [n for n in FOLLOWUPS[stmts[-1]["op"]] if any(n in v for v in fams.values())]
                name = D_.choice(cands) if cands else D_.choice(fams[D_.weighted([(f, fw[f]) for f in sorted(fams)])])
            else:
                fam = D_.weighted([(f, fw[f]) for f in sorted(fams)])
                name = D_.choice(fams[fam])
            s = OPS[name].gen(D_, vals)
            if stmts and stmts[-1]["op"] == "transpose_hi" and vals[-1].ndim >= 4 and vals[-1].size > 0 and "getitem" in ok_ops and D_.chance(1, 2):
                # an integer index directly on a rank >= 4 transpose: the axes that survive must keep the
                # permutation the transpose gave them (a 3-cycle is not its own inverse)
                ax = D_.int(0, vals[-1].ndim - 1)
                idx = tuple([slice(None)] * ax + [D_.int(0, vals[-1].shape[ax] - 1)])
                s = {"op": "getitem", "args": [len(vals) - 1], "index": gidx.enc(idx)}
            if s is None:
                discarded += 1
                continue
            try:
                v = np_apply(s, vals)
            except NumpyUndefined:
                discarded += 1
                continue
            if v.size > max_size or v.ndim > 5:
                discarded += 1
                continue
            stmts.append(s)
            vals.append(v)
        nvars = len(vals)
        outs = [nvars - 1]
        if n_outputs[1] >= 2 and nvars >= 2 and D_.chance(1, 4):
            o2 = D_.int(len(leaves) if nvars > len(leaves) + 1 else 0, nvars - 2)
            if o2 not in outs:
                outs.append(o2)
        prog = {"leaves": leaves, "stmts": stmts, "outputs": outs}
        return prog, {"discarded": discarded}

    return strat()


# ---------------------------------------------------------------------------
# shrinking (structure-aware candidates; each candidate is a complete program)


def _copy(prog):
    import json

    return json.loads(json.dumps(prog))


def _drop_stmt(prog, k):
    """Remove statement k (variable id L+k); consumers are rewired to its first argument."""
    L = len(prog["leaves"])
    vid = L + k
    s = prog["stmts"][k]
    repl = s["args"][0]
    new = _copy(prog)
    del new["stmts"][k]

    def remap(j):
        if j == vid:
            return repl
        return j - 1 if j > vid else j

    for t in new["stmts"]:
        t["args"] = [remap(j) for j in t["args"]]
    new["outputs"] = sorted({remap(j) for j in new["outputs"]})
    return new


def _gc_leaves(prog):
    """Drop unused leaves."""
    L = len(prog["leaves"])
    used = set(prog["outputs"])
    for s in prog["stmts"]:
        used.update(s["args"])
    keep = [i for i in range(L) if i in used]
    if len(keep) == L or not keep:
        return None
    new = _copy(prog)
    new["leaves"] = [new["leaves"][i] for i in keep]
    m = {old: k for k, old in enumerate(keep)}
    d = L - len(keep)

    def remap(j):
        return m[j] if j < L else j - d

    for t in new["stmts"]:
        t["args"] = [remap(j) for j in t["args"]]
    new["outputs"] = [remap(j) for j in new["outputs"]]
    return new


def shrink_program(prog):
    L = len(prog["leaves"])
    # fewer outputs
    if len(prog["outputs"]) > 1:
        for o in prog["outputs"]:
            new = _copy(prog)
            new["outputs"] = [o]
            yield new
    # truncate after the last needed statement
    last = max(prog["outputs"])
    if last < L + len(prog["stmts"]) - 1:
        new = _copy(prog)
        new["stmts"] = new["stmts"][: max(0, last - L + 1)]
        yield new
    # output an earlier variable
    for o in prog["outputs"]:
        if o >= L:
            for a in prog["stmts"][o - L]["args"]:
                new = _copy(prog)
                new["outputs"] = [a if x == o else x for x in new["outputs"]]
                yield new
    for k in reversed(range(len(prog["stmts"]))):
        yield _drop_stmt(prog, k)
    g = _gc_leaves(prog)
    if g is not None:
        yield g
    # simplify leaves
    for i, leaf in enumerate(prog["leaves"]):
        if leaf["dtype"] != "f8":
            new = _copy(prog)
            new["leaves"][i]["dtype"] = "f8"
            yield new
        if leaf.get("offset"):
            new = _copy(prog)
            new["leaves"][i]["offset"] = 0
            yield new
        for ax, c in enumerate(leaf["chunks"]):
            if len(c) > 1:
                new = _copy(prog)
                new["leaves"][i]["chunks"][ax] = [sum(c)]
                yield new
                new = _copy(prog)
                new["leaves"][i]["chunks"][ax] = [c[0] + c[1]] + list(c[2:])
                yield new
        for ax, n in enumerate(leaf["shape"]):
            if n > 0:
                new = _copy(prog)
                new["leaves"][i]["shape"][ax] = n - 1
                c = list(leaf["chunks"][ax])
                if c[-1] > 1 or len(c) == 1:
                    c[-1] -= 1
                else:
                    c = c[:-1]
                new["leaves"][i]["chunks"][ax] = c if c else [0]
                yield new
    # simplify statement parameters
    for k, s in enumerate(prog["stmts"]):
        for key in ("split_every", "method", "ddof"):
            if key in s:
                new = _copy(prog)
                del new["stmts"][k][key]
                yield new
        if s.get("keepdims"):
            new = _copy(prog)
            new["stmts"][k]["keepdims"] = False
            yield new
        if "index" in s and isinstance(s["index"], dict) and "tuple" in s["index"]:
            tup = s["index"]["tuple"]
            for p, e in enumerate(tup):
                if isinstance(e, dict) and "slice" in e and e["slice"] != [None, None, None]:
                    for q in range(3):
                        if e["slice"][q] is not None:
                            new = _copy(prog)
                            new["stmts"][k]["index"]["tuple"][p]["slice"][q] = None
                            yield new
                if e is None or e == "...":
                    new = _copy(prog)
                    del new["stmts"][k]["index"]["tuple"][p]
                    yield new
                if isinstance(e, dict) and "list" in e and len(e["list"]) > 1:
                    for q in range(len(e["list"])):
                        new = _copy(prog)
                        del new["stmts"][k]["index"]["tuple"][p]["list"][q]
                        yield new
        for key in ("indices",):
            if key in s and len(s[key]) > 1:
                for q in range(len(s[key])):
                    new = _copy(prog)
                    del new["stmts"][k][key][q]
                    yield new
