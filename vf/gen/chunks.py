"""Chunking generators.  Five families because the rewrites branch on exactly
these relations: single block, one element per block, uniform, irregular
composition, jittered (uniform shifted by a sliver)."""

from __future__ import annotations

FAMILIES = ("single", "ones", "uniform", "irregular", "jitter")


def axis_chunks(D, n, family=None, max_blocks=8):
    """Chunks (tuple of positive ints summing to n) for one axis; (0,) for n == 0."""
    if n == 0:
        return (0,)
    if n == 1 or max_blocks <= 1:
        return (n,)
    fam = family or D.weighted([("single", 3), ("ones", 2), ("uniform", 4), ("irregular", 4), ("jitter", 2), ("sliver", 2 if n >= 6 and max_blocks >= 3 else 0)])
    if fam == "single":
        return (n,)
    if fam == "sliver":
        # a thin block (1-2 elements) right after a block at least twice as long as a window that just
        # exceeds it, then the rest: the shape under which window kernels keep the block count but move the
        # block boundaries
        s = D.choice([1, 1, 2]) if n >= 9 else 1
        a = D.int(2 * (s + 1), n - s - 1)
        rest = n - a - s
        out = (a, s)
        if a - 2 * (s + 1) >= 1 and max_blocks >= 4 and D.bool():
            p = D.int(1, a - 2 * (s + 1))
            out = (p, a - p, s)
        if rest >= 2 and len(out) + 2 <= max_blocks and D.bool():
            q = D.int(1, rest - 1)
            return out + (q, rest - q)
        return out + (rest,)
    if fam == "ones":
        if n <= max_blocks:
            return (1,) * n
        fam = "uniform"
    if fam == "uniform":
        lo = max(1, -(-n // max_blocks))
        c = D.int(lo, max(lo, n - 1))
        out = (c,) * (n // c)
        if n % c:
            out += (n % c,)
        return out
    if fam == "jitter":
        lo = max(1, -(-n // max_blocks))
        c = D.int(lo, max(lo, n - 1))
        first = D.int(1, c)
        rest = n - first
        out = (first,) + (c,) * (rest // c)
        if rest % c:
            out += (rest % c,)
        return tuple(x for x in out if x > 0)
    # irregular composition with k blocks
    k = D.int(2, min(max_blocks, n))
    cuts = _cuts(D, n, k)
    b = [0] + cuts + [n]
    return tuple(b[i + 1] - b[i] for i in range(len(b) - 1))


def _cuts(D, n, k):
    from hypothesis import strategies as st

    return sorted(D.draw(st.lists(st.integers(1, n - 1), min_size=k - 1, max_size=k - 1, unique=True)))


def array_chunks(D, shape, max_blocks_total=48):
    """Chunks for a whole shape, keeping the total number of blocks bounded."""
    out = []
    budget = max_blocks_total
    for n in shape:
        mb = max(1, min(8, budget))
        c = axis_chunks(D, n, max_blocks=mb)
        out.append(c)
        budget = max(1, budget // len(c))
    return tuple(out)


def nblocks(chunks):
    t = 1
    for c in chunks:
        t *= len(c)
    return t
