"""Module-level (pickleable, tokenizable) block functions used by generated programs."""
import numpy as np


def times_two(x):
    return x * 2


def plus_one(x):
    return x + 1


def negate(x):
    return -x


def identity(x):
    return x


def contract_blocks(a, b):
    """kernel of blockwise(..., 'ij', x, 'ik', y, 'kj', concatenate=True)"""
    return np.matmul(a, b)


def plus_total(block, m=None):
    """block + (sum of the whole array handed in as a keyword argument).  The function must be given the
    finalized NumPy value, never the lazy collection (which would compute inside a task)."""
    if not isinstance(m, (np.ndarray, np.generic)):
        raise TypeError(f"keyword operand arrived as {type(m).__module__}.{type(m).__name__}, not as its computed value")
    return block + np.asarray(m, dtype="f8").sum()


def local_sum(block, radii=()):
    """Shape-preserving stencil: sum over a (2r+1) window along each axis in
    ``radii`` ([[axis, r], ...]) with edge replication at the block's own edges.
    Output at i depends only on inputs within r of i (so any overlap depth >= r
    makes the trimmed result independent of the block structure)."""
    out = block
    for ax, r in radii:
        if r == 0 or block.shape[ax] == 0:
            continue
        n = out.shape[ax]
        acc = np.zeros_like(out)
        idx = np.arange(n)
        for k in range(-r, r + 1):
            acc = acc + np.take(out, np.clip(idx + k, 0, n - 1), axis=ax)
        out = acc
    return out


def forward_diff(block, axis=0):
    """x[i+1] - x[i] with the last element repeated (radius-1 stencil)."""
    n = block.shape[axis]
    if n == 0:
        return block
    idx = np.arange(n)
    return np.take(block, np.clip(idx + 1, 0, n - 1), axis=axis) - block


# ---- spies (C29): same values as the plain functions above, but every call is
# logged as (block.size, phase, caller) in vf.sources.SPY_LOG ---------------------


def _spy(block):
    from vf import sources

    sources.spy_record(block)


def spy_times_two(x):
    _spy(x)
    return x * 2


def spy_plus_one(x):
    _spy(x)
    return x + 1


def spy_negate(x):
    _spy(x)
    return -x


def spy_identity(x):
    _spy(x)
    return x
