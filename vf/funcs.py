"""Module-level (pickleable, tokenizable) block functions used by generated programs."""
import numpy as np


def times_two(x):
    return x * 2


def plus_one(x):
    return x + 1


def negate(x):
    return -x


def identity(x):
    return x
