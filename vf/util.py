"""Small shared helpers: canonical JSON, hashing, value comparison, buckets."""

from __future__ import annotations

import hashlib
import json
import os
import re
import traceback

import numpy as np


def jsonable(o):
    """Convert numpy scalars / tuples / slices into plain JSON data."""
    if isinstance(o, dict):
        return {str(k): jsonable(v) for k, v in o.items()}
    if isinstance(o, (list, tuple)):
        return [jsonable(v) for v in o]
    if isinstance(o, (np.integer,)):
        return int(o)
    if isinstance(o, (np.floating,)):
        f = float(o)
        return f if f == f and abs(f) != float("inf") else repr(f)
    if isinstance(o, float):
        return o if o == o and abs(o) != float("inf") else repr(o)
    if isinstance(o, (np.bool_,)):
        return bool(o)
    if isinstance(o, np.ndarray):
        return jsonable(o.tolist())
    if isinstance(o, slice):
        return {"slice": [jsonable(o.start), jsonable(o.stop), jsonable(o.step)]}
    if isinstance(o, complex):
        return {"complex": [o.real, o.imag]}
    if o is Ellipsis:
        return "..."
    if isinstance(o, (str, int, bool)) or o is None:
        return o
    return repr(o)


def canon(o) -> str:
    return json.dumps(jsonable(o), sort_keys=True, separators=(",", ":"))


def h64(o) -> str:
    s = o if isinstance(o, str) else canon(o)
    return hashlib.blake2b(s.encode(), digest_size=8).hexdigest()


def shard_seed(seed: int, pid: str, i: int) -> int:
    d = hashlib.blake2b(f"{seed}:{pid}:{i}".encode(), digest_size=4).digest()
    return int.from_bytes(d, "big")


_NUM = re.compile(r"0x[0-9a-fA-F]+|\d+(\.\d+)?([eE][-+]?\d+)?")
_TOK = re.compile(r"[0-9a-f]{16,}")


def norm_msg(msg: str, limit: int = 90) -> str:
    msg = _TOK.sub("#", str(msg))
    msg = _NUM.sub("N", msg)
    msg = re.sub(r"\s+", " ", msg)
    return msg[:limit]


def innermost_repo_frame(exc: BaseException) -> str:
    """file:function of the innermost traceback frame that lives in dask_array."""
    tb = traceback.extract_tb(exc.__traceback__)
    hit = "?"
    for fr in tb:
        fn = fr.filename
        if "/dask_array/" in fn and "/vf/" not in fn:
            hit = f"{fn.split('/dask_array/', 1)[1]}:{fr.name}"
    return hit


def exc_bucket(kind: str, exc: BaseException) -> str:
    return f"{kind}|{type(exc).__name__}|{innermost_repo_frame(exc)}|{norm_msg(exc)}"


def exc_detail(exc: BaseException, limit: int = 2500) -> str:
    s = "".join(traceback.format_exception(type(exc), exc, exc.__traceback__))
    return s[-limit:]


# ---------------------------------------------------------------------------
# value comparison


def _tol(dtype) -> float:
    dt = np.dtype(dtype)
    if dt.kind in "fc":
        eps = np.finfo(dt).eps
        return float(eps) * 4096  # f8: ~9e-13, f4: ~4.9e-4
    return 0.0


def same(got, exp, *, check_dtype=True, rtol=None, atol=None) -> str | None:
    """Return None when ``got`` equals the reference ``exp``, else a short reason.

    Shapes equal; dtypes equal; bool/int values equal exactly; floats equal
    exactly or within ``rtol * max|exp|`` (rtol defaults to 4096 eps of the
    dtype), NaNs in the same places, infinities equal.
    """
    g = np.asarray(got)
    e = np.asarray(exp)
    if g.shape != e.shape:
        return f"shape {g.shape} != {e.shape}"
    if check_dtype and g.dtype != e.dtype:
        return f"dtype {g.dtype} != {e.dtype}"
    if g.size == 0:
        return None
    if np.ma.isMaskedArray(got) or np.ma.isMaskedArray(exp):
        gm = np.ma.getmaskarray(got)
        em = np.ma.getmaskarray(exp)
        if not np.array_equal(gm, em):
            return "mask differs"
        g = np.ma.filled(got, 0)
        e = np.ma.filled(exp, 0)
    if e.dtype.kind in "fc" or g.dtype.kind in "fc":
        with np.errstate(all="ignore"):
            if np.array_equal(g, e, equal_nan=True):
                return None
            gn, en = np.isnan(g), np.isnan(e)
            if not np.array_equal(gn, en):
                return "nan placement differs"
            fin = np.isfinite(e) & np.isfinite(g)
            if not np.array_equal(g[~fin & ~en], e[~fin & ~en]):
                return "infinities differ"
            if not fin.any():
                return None
            r = rtol if rtol is not None else max(_tol(e.dtype), _tol(g.dtype))
            scale = float(np.max(np.abs(e[fin])))
            err = float(np.max(np.abs(g[fin].astype(np.complex128) - e[fin].astype(np.complex128))))
            bound = max(r * max(scale, 1e-300), atol or 0.0)
            if err <= bound:
                return None
            return f"values differ: max abs err {err:.3g} (scale {scale:.3g}, allowed {bound:.3g})"
    if g.dtype.kind == "O" or e.dtype.kind == "O":
        return None if np.array_equal(g, e) else "object values differ"
    if np.array_equal(g, e):
        return None
    bad = int(np.sum(g != e))
    return f"values differ in {bad}/{g.size} positions"


def short(a, limit=12):
    a = np.asarray(a)
    return {"shape": list(a.shape), "dtype": str(a.dtype), "head": jsonable(a.ravel()[:limit])}


def verif_dir() -> str:
    return os.path.dirname(os.path.dirname(os.path.abspath(__file__)))


def float_tolerance(vals, ops=()):
    """Absolute tolerance for comparing a float result of a program whose
    variables are ``vals``: 256 eps of the coarsest float dtype in the program,
    relative to the largest finite magnitude of any variable (squared when a
    variance is taken: cancellation error is eps*M^2; for std additionally
    sqrt of that).  Returns None when no variable is floating (exact compare)."""
    eps = 0.0
    mag = 1.0
    for v in vals:
        v = np.asarray(v)
        if v.dtype.kind in "fc":
            eps = max(eps, float(np.finfo(v.dtype).eps))
        if v.size and v.dtype.kind in "iufc":
            with np.errstate(all="ignore"):
                a = np.abs(v)
                a = a[np.isfinite(a)]
                if a.size:
                    mag = max(mag, float(a.max()))
    if eps == 0.0:
        return None
    tol = 256 * eps * mag
    if any(o in ("var", "std", "nanvar", "nanstd", "moment") for o in ops):
        tol = 256 * eps * mag * mag
        if any(o in ("std", "nanstd") for o in ops):
            tol = max(tol, (256 * eps) ** 0.5 * mag)
    return tol
