"""Record every fired rewrite as (rule, before_expr, after_expr) objects.

Same technique as the repository's ``trace_rewrites`` (wrap ``_simplify_down``,
``_simplify_up``, ``_lower`` on every ArrayExpr subclass for the duration of a
context) but keeping the expression objects so both sides can be computed.
For ``_simplify_up`` *before* is the parent that gets replaced."""

from __future__ import annotations

import functools
from contextlib import contextmanager

HOOKS = ("_simplify_down", "_simplify_up", "_lower")


def _classes():
    from dask_array._expr import ArrayExpr

    seen, stack = set(), [ArrayExpr]
    while stack:
        c = stack.pop()
        if c in seen:
            continue
        seen.add(c)
        stack.extend(c.__subclasses__())
    return seen


def _wrap(orig, hook, records, limit):
    @functools.wraps(orig)
    def wrapper(self, *args, **kwargs):
        out = orig(self, *args, **kwargs)
        if out is None:
            return out
        before = args[0] if hook == "_simplify_up" else self
        try:
            if getattr(out, "_name", None) != before._name and len(records) < limit:
                records.append((f"{type(self).__name__}.{hook}", before, out))
        except Exception:
            pass
        return out

    return wrapper


@contextmanager
def recording(limit=400):
    records = []
    patched = []
    for cls in _classes():
        for hook in HOOKS:
            if hook in cls.__dict__:
                orig = cls.__dict__[hook]
                setattr(cls, hook, _wrap(orig, hook, records, limit))
                patched.append((cls, hook, orig))
    try:
        yield records
    finally:
        for cls, hook, orig in reversed(patched):
            setattr(cls, hook, orig)
