"""setup-time self test: engines import, known_findings/MANIFEST are well-formed."""
import importlib
import json
import os
import sys

HERE = os.path.dirname(os.path.dirname(os.path.abspath(__file__)))
sys.path.insert(0, os.environ.get("VERIF_REPO", "/repo"))


def main():
    with open(os.path.join(HERE, "MANIFEST.json")) as f:
        man = json.load(f)
    with open(os.path.join(HERE, "known_findings.json")) as f:
        kf = json.load(f)
    for e in kf["findings"]:
        assert {"id", "property", "what", "match", "replay"} <= set(e), e
        assert os.path.exists(os.path.join(HERE, e["replay"])), e["replay"]
    for c in man["checks"]:
        importlib.import_module(f"vf.props.{c['property_id'].lower()}")
    try:
        import jsonschema

        with open("/root/.vp/MANIFEST.schema.json") as f:
            jsonschema.validate(man, json.load(f))
    except (ImportError, FileNotFoundError):
        pass
    print("selftest ok:", len(man["checks"]), "checks")


if __name__ == "__main__":
    main()
