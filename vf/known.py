"""Known findings: committed list of genuine defects that are recorded, not
repaired.  A failure is *listed* only when BOTH its bucket matches the entry's
regex AND the entry's structural predicate holds on the failing case.  Nothing
here is ever written at run time.
"""

from __future__ import annotations

import json
import os
import re

PREDICATES = {}


def predicate(name):
    def deco(fn):
        PREDICATES[name] = fn
        return fn

    return deco


def load(here):
    path = os.path.join(here, "known_findings.json")
    if not os.path.exists(path):
        return {"findings": [], "fixed": []}
    with open(path) as f:
        return json.load(f)


def open_for(kf, pid):
    return [e for e in kf.get("findings", []) if e["property"] == pid and e.get("status", "open") == "open"]


def is_open(kf_or_here, finding_id):
    kf = load(kf_or_here) if isinstance(kf_or_here, str) else kf_or_here
    return any(e["id"] == finding_id and e.get("status", "open") == "open" for e in kf.get("findings", []))


def match(kf, pid, bucket, case):
    for e in open_for(kf, pid):
        m = e["match"]
        if not re.search(m["bucket_regex"], bucket):
            continue
        pname = m.get("predicate", "always")
        if pname.startswith("region:"):
            pred = _region_pred(pname.split(":", 1)[1])
        else:
            pred = PREDICATES.get(pname)
        if pred is None:
            continue
        try:
            if pred(case):
                return e["id"]
        except Exception:
            continue
    return None


@predicate("always")
def _always(case):
    return True


# ---- program-structure predicates (cases produced by vf.gen.programs) --------


def _ops(case):
    prog = case.get("program", case)
    return [s["op"] for s in prog.get("stmts", [])]


@predicate("has_op")
def _has_op_factory(case):  # placeholder; concrete ones below
    return False


def _mk_has(*names):
    def pred(case):
        ops = _ops(case)
        return all(any(o == n or o.startswith(n) for o in ops) for n in names)

    return pred


PREDICATES["has_swv"] = _mk_has("sliding_window_view")
PREDICATES["has_take_and_broadcast"] = lambda case: any(o in ("take", "shuffle") for o in _ops(case)) and any(
    o in ("broadcast_to", "add", "sub", "mul", "maximum", "where") for o in _ops(case)
)
PREDICATES["has_repeat"] = _mk_has("repeat")
PREDICATES["has_vindex"] = lambda case: "vindex" in json.dumps(case)


def _region_pred(fid):
    """Predicate = the exclusion region of finding ``fid`` (needs the NumPy values)."""

    def pred(case):
        from vf import exclusions
        from vf.gen import programs as P

        prog = case.get("program", case)
        return bool(exclusions.region(fid)(prog, P.eval_np(prog)))

    return pred
