"""Recording array-like sources and spy block functions (C24, C29).

``RecordingSource`` is a NON-NumPy array-like (shape/dtype/ndim/__getitem__, no
``copy``, no ``__array_function__``) wrapping an ndarray.  Every ``__getitem__``
is logged as ``(index, result_shape, phase)`` in the instance list ``log`` and,
with the source id in front, in the module-level ``REQUESTS`` (so copies made by
pickling keep reporting to the same place).  ``__array__`` is logged as a full
read with index ``"__array__"``.

``PHASE`` is a module-level variable set by the harness through ``phase(name)``:
"build" | "inspect" | "optimize" | "graph" | "execute" (anything else is the
harness' own business, e.g. "numpy" while the NumPy twin runs).

Storage grid: ``from_array`` recognises ``.shards`` or ``.chunks`` holding ONE
int per axis (zarr/h5py form; ``_source_storage_chunks`` does ``int(c)`` on each
entry) and looks through wrapper objects linked by ``.array`` / ``._array``
(xarray's lazy-indexing adapters), see ``wrap_adapter``.
"""

from __future__ import annotations

import hashlib
import itertools
import sys
import threading
from contextlib import contextmanager

import numpy as np

PHASE = "idle"
EAGER_PHASES = ("build", "inspect", "optimize", "graph")  # everything before execution
# (sid, index, result_shape, phase, via, source_shape).  The source shape rides along
# because expressions are cached by token: a from_array over a *new* source with the
# same content may resolve to an earlier FromArray holding an *earlier*, equal source,
# so requests cannot be attributed through the object the harness constructed last.
REQUESTS = []
SPY_LOG = []  # (block.size, phase, via, block.ndim)
GETTER_LOG = []  # (name, phase)
_ids = itertools.count(1)


@contextmanager
def phase(name):
    global PHASE
    old = PHASE
    PHASE = name
    try:
        yield
    finally:
        PHASE = old


def set_phase(name):
    global PHASE
    PHASE = name


def reset():
    """Forget everything recorded so far (module-level logs only)."""
    del REQUESTS[:]
    del SPY_LOG[:]
    del GETTER_LOG[:]


def _plain_index(index):
    """A loggable copy of an index (tuples/slices/ints kept, arrays -> lists)."""
    if isinstance(index, tuple):
        return tuple(_plain_index(i) for i in index)
    if isinstance(index, np.ndarray):
        return index.tolist()
    if isinstance(index, np.integer):
        return int(index)
    return index


class RecordingSource:
    """Non-NumPy array-like over ``array`` that records what is requested of it."""

    def __init__(self, array, storage_chunks=None, shards=None, tokenizable=True, sid=None):
        array = np.asarray(array)  # 0-d arithmetic hands out NumPy scalars
        assert type(array) is np.ndarray
        self._data = array
        self.shape = tuple(array.shape)
        self.dtype = array.dtype
        self.ndim = array.ndim
        self.log = []
        self.sid = next(_ids) if sid is None else sid
        self._tokenizable = bool(tokenizable)
        # instance attributes only when given: hasattr(src, "chunks") is False otherwise
        if storage_chunks is not None:
            self.chunks = tuple(int(c) for c in storage_chunks)
        if shards is not None:
            self.shards = tuple(int(c) for c in shards)

    def __getitem__(self, index):
        out = self._data[index]
        rec = (_plain_index(index), tuple(np.shape(out)), PHASE)
        self.log.append(rec)
        # who asked: only worth a stack walk for non-empty reads outside execution
        via = _via(1) if PHASE in EAGER_PHASES and np.size(out) > 0 else ""
        REQUESTS.append((self.sid,) + rec + (via, self.shape))
        return out

    def __array__(self, dtype=None, copy=None):
        rec = ("__array__", self.shape, PHASE)
        self.log.append(rec)
        REQUESTS.append((self.sid,) + rec + (_via(1) if PHASE in EAGER_PHASES else "", self.shape))
        out = self._data
        if dtype is not None:
            out = out.astype(dtype)
        return np.array(out) if copy else out

    def __len__(self):
        if not self.shape:
            raise TypeError("len() of unsized object")
        return self.shape[0]

    def __repr__(self):
        grid = getattr(self, "shards", None) or getattr(self, "chunks", None)
        return f"RecordingSource<{self.sid} shape={self.shape} dtype={self.dtype} grid={grid}>"

    def __reduce__(self):
        return (_rebuild, (self._data, getattr(self, "chunks", None), getattr(self, "shards", None), self._tokenizable, self.sid))

    def __getattr__(self, name):
        # __dask_tokenize__ exists only for tokenizable sources (others go through
        # dask's generic pickle-based normalisation, which is deterministic too)
        if name == "__dask_tokenize__" and self.__dict__.get("_tokenizable"):
            return self._token
        raise AttributeError(name)

    def _token(self):
        h = hashlib.blake2b(digest_size=12)
        h.update(np.ascontiguousarray(self._data).tobytes())
        return ("RecordingSource", self.shape, str(self.dtype), getattr(self, "chunks", None), getattr(self, "shards", None), h.hexdigest())

    # ---- harness-side helpers (never used by the code under test)

    def requests(self, phases=None):
        return [r for r in self.log if phases is None or r[2] in phases]


def _rebuild(data, chunks, shards, tokenizable, sid):
    return RecordingSource(data, chunks, shards, tokenizable, sid)


class Adapter:
    """A lazy-indexing style wrapper: array-like, hides ``.chunks``/``.shards``,
    links to what it wraps through ``.array`` (outer links) or ``._array``
    (the innermost link), like xarray's adapter chain over a zarr store."""

    def __init__(self, inner, attr="array"):
        assert attr in ("array", "_array")
        setattr(self, attr, inner)
        self._attr = attr
        self.shape = inner.shape
        self.dtype = inner.dtype
        self.ndim = inner.ndim

    def _inner(self):
        return getattr(self, self._attr)

    def __getitem__(self, index):
        return self._inner()[index]

    def __dask_tokenize__(self):
        from dask.base import normalize_token

        return ("vf.sources.Adapter", self._attr, normalize_token(self._inner()))

    def __repr__(self):
        return f"Adapter({self._attr}={self._inner()!r})"


def wrap_adapter(src, depth):
    """``src`` behind ``depth`` (0-2) adapters; the innermost one holds it in ``._array``."""
    out = src
    for k in range(int(depth)):
        out = Adapter(out, "_array" if k == 0 else "array")
    return out


def unwrap(obj):
    """The RecordingSource at the bottom of an adapter chain (or obj itself)."""
    for _ in range(8):
        if isinstance(obj, Adapter):
            obj = obj._inner()
        else:
            break
    return obj


# ---------------------------------------------------------------------------
# custom getters (module-level: pickleable, tokenizable)


def custom_getitem4(a, index, asarray=True, lock=None):
    """User getter with the full (a, index, asarray, lock) signature."""
    GETTER_LOG.append(("custom_getitem4", PHASE))
    if lock:
        lock.acquire()
    try:
        out = a[index]
        if asarray:
            out = np.asarray(out)
    finally:
        if lock:
            lock.release()
    return out


def custom_getitem2(a, index):
    """User getter with the documented two-argument signature (a, index) -> value."""
    GETTER_LOG.append(("custom_getitem2", PHASE))
    return np.asarray(a[index])


GETTERS = {"custom4": custom_getitem4, "custom2": custom_getitem2}


def make_lock(kind):
    """lock argument of from_array from its JSON encoding."""
    if kind in (None, "false"):
        return False
    if kind == "true":
        return True
    if kind == "threading":
        return threading.Lock()
    raise AssertionError(f"unknown lock kind {kind!r}")


# ---------------------------------------------------------------------------
# program leaves (vf.gen.programs leaf JSON + a "src" dict of from_array options)


def leaf_from_json(leaf, data, registry=None):
    """da.from_array over the source described by ``leaf["src"]``:
    {"kind": "recording" | "numpy", "storage": [int per axis] | absent,
     "storage_attr": "chunks" | "shards" | "both", "adapter": 0-2, "tokenizable": bool,
     "lock": "false" | "true" | "threading", "fancy", "inline_array": bool,
     "asarray": None | bool, "getitem": None | "custom4" | "custom2"}.
    Recording sources built are appended to ``registry``."""
    import dask_array as da

    src = leaf.get("src") or {}
    kw = dict(
        chunks=tuple(tuple(c) for c in leaf["chunks"]),
        lock=make_lock(src.get("lock", "false")),
        fancy=bool(src.get("fancy", True)),
        inline_array=bool(src.get("inline_array", False)),
        asarray=src.get("asarray"),
        getitem=GETTERS.get(src.get("getitem")),
    )
    data = np.asarray(data)
    if src.get("kind", "recording") == "numpy":
        return da.from_array(data.copy(), **kw)
    storage = src.get("storage")
    attr = src.get("storage_attr", "chunks")
    chunks_attr = shards_attr = None
    if storage is not None:
        if attr == "chunks":
            chunks_attr = storage
        elif attr == "shards":
            shards_attr = storage
        else:  # zarr v3 sharding: .shards is the read unit, .chunks the inner chunks
            shards_attr = storage
            chunks_attr = [1] * len(storage)
    rs = RecordingSource(data.copy(), storage_chunks=chunks_attr, shards=shards_attr, tokenizable=src.get("tokenizable", True))
    if registry is not None:
        registry.append(rs)
    via = src.get("via", "from_array")
    if via in ("asarray", "asanyarray"):
        # the raw array-like handed to da.asarray / da.asanyarray (what `x * 2 + src` does implicitly);
        # the requested chunking is applied on top
        y = getattr(da, via)(wrap_adapter(rs, src.get("adapter", 0)))
        return y if y.chunks == kw["chunks"] else y.rechunk(kw["chunks"])
    return da.from_array(wrap_adapter(rs, src.get("adapter", 0)), **kw)


# ---------------------------------------------------------------------------
# spies


def _via(depth=2):
    """file:function of the innermost dask_array frame on the stack (who asked).

    For ``compute_meta`` the tag says whether one of the array arguments it was
    given already advertises a NON-EMPTY ``_meta`` of rank >= 1 (then the root
    cause sits upstream, in the node that owns that meta, not in compute_meta)."""
    f = sys._getframe(depth)
    while f is not None:
        fn = f.f_code.co_filename
        if "/dask_array/" in fn and "/vf/" not in fn:
            tag = f"{fn.rsplit('/', 1)[1]}:{f.f_code.co_name}"
            if f.f_code.co_name == "compute_meta":
                try:
                    metas = [getattr(a, "_meta", None) for a in f.f_locals.get("args", ())]
                    bad = sorted({type(a).__name__ for a, m in zip(f.f_locals.get("args", ()), metas) if m is not None and getattr(m, "ndim", 0) > 0 and getattr(m, "size", 0) > 0})
                    if bad:
                        tag += "[nonempty-arg-meta:" + ",".join(bad) + "]"
                except Exception:
                    pass
            return tag
        f = f.f_back
    return "?"


def spy_record(block):
    """Log one call of a spy block function: (block.size, PHASE, caller, block.ndim)."""
    size = getattr(block, "size", 1)
    SPY_LOG.append((int(size), PHASE, _via() if PHASE in EAGER_PHASES else "", int(getattr(block, "ndim", 0))))


def spy_identity(block, *args, **kwargs):
    spy_record(block)
    return block


def spy_plus_one(block, *args, **kwargs):
    spy_record(block)
    return block + 1


# ---------------------------------------------------------------------------
# request analysis (independent of the code under test)


def check_request(index, shape):
    """None when ``index`` (as logged) is a within-bounds request on ``shape``;
    otherwise a short reason.  Slices: 0 <= start <= stop <= n after replacing
    None by the full extent, step None or >= 1.  Ints: 0 <= i < n."""
    if index == "__array__":
        return None
    idx = index if isinstance(index, tuple) else (index,)
    if any(i is Ellipsis or i is None for i in idx):
        return None  # not produced by the read path; nothing to assert
    if len(idx) > len(shape):
        return f"too-many-indices: {len(idx)} for ndim {len(shape)}"
    for ax, (i, n) in enumerate(zip(idx, shape)):
        if isinstance(i, slice):
            step = i.step
            if step is not None and (not isinstance(step, (int, np.integer)) or step < 1):
                return f"slice-step: axis {ax} {i}"
            start = 0 if i.start is None else i.start
            stop = n if i.stop is None else i.stop
            if start < 0 or stop < 0:
                return f"slice-negative: axis {ax} {i} (n={n})"
            if stop > n or start > n:
                return f"slice-beyond-extent: axis {ax} {i} (n={n})"
            if start > stop:
                return f"slice-start-after-stop: axis {ax} {i} (n={n})"
        elif isinstance(i, (int, np.integer)) and not isinstance(i, bool):
            if not 0 <= i < n:
                return f"int-out-of-range: axis {ax} {i} (n={n})"
        elif isinstance(i, list):
            flat = np.asarray(i)
            if flat.dtype == bool:
                continue
            if flat.size and (flat.min() < -n or flat.max() >= n):
                return f"list-out-of-range: axis {ax} (n={n})"
        else:
            return f"unexpected-index-element: axis {ax} {type(i).__name__}"
    return None


def requested_elements(requests, shape):
    """Set of flat element ids of a source of ``shape`` covered by ``requests``
    (iterable of logged (index, result_shape, phase))."""
    size = int(np.prod(shape)) if shape else 1
    ids = np.arange(size).reshape(shape)
    seen = np.zeros(size, dtype=bool)
    for index, _, _ in requests:
        if index == "__array__":
            seen[:] = True
            continue
        idx = tuple(np.asarray(i) if isinstance(i, list) else i for i in index) if isinstance(index, tuple) else index
        seen[np.asarray(ids[idx]).ravel()] = True
    return seen
