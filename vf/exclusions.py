"""Exclusion by construction: regions of the program space where a *listed,
open* known finding lives.  The search steers around exactly these regions (and
counts what it skipped) so that campaigns continue past known defects; an
exclusion is active only while its finding is open in known_findings.json.
Each predicate takes (program, numpy values of all variables)."""

from __future__ import annotations

import functools
import os

import numpy as np

from vf import known, util

EXCL = {}

# Program-level finding ids by how they manifest.  Engines pick the groups that can
# affect their oracle; a new finding added here reaches every engine at once.
# KF-pad-wide advertises a larger shape than it produces: whatever is stacked on it (a contraction, a
# concatenate) fails to unify chunks or produces blocks of other shapes than advertised
RAISES = ("KF-layout-drift-over-shuffle", "KF-minmax-empty", "KF-setitem-int-with-negstep", "KF-layout-drift-over-window-reduction", "KF-pad-wide", "KF-swv-over-higher-order-diff", "KF-reshape-zero-size", "KF-ufunc-where-0d-out", "KF-roll-flat-trailing-unit-axes", "KF-zero-width-block-reductions", "KF-zero-width-block-broadcast")  # graph build / compute raises, graph not closed, or wrong block shapes
VALUES = ("KF-tensordot-int-dtype", "KF-argext-ties-axis-none")  # computes, but differs from NumPy
ALL = RAISES + VALUES


def excl(fid):
    def deco(fn):
        EXCL[fid] = fn
        return fn

    return deco


def _stmts(prog, vals):
    L = len(prog["leaves"])
    for k, s in enumerate(prog["stmts"]):
        yield s, [vals[j] for j in s["args"]], vals[L + k]


@excl("KF-minmax-empty")
def _minmax_empty(prog, vals):
    """min/max (NumPy-defined) over an input with a zero-length non-reduced axis."""
    return any(s["op"] in ("min", "max", "argmin", "argmax") and a[0].size == 0 for s, a, r in _stmts(prog, vals))


@excl("KF-tensordot-int-dtype")
def _tensordot_small_int(prog, vals):
    """tensordot/matmul/contracting einsum whose NumPy result dtype is an integer narrower than 8 bytes."""
    return any(s["op"] in ("tensordot", "matmul", "einsum_perm") and r.dtype.kind in "iub" and r.dtype.itemsize < 8 for s, a, r in _stmts(prog, vals))


@excl("KF-argext-ties-axis-none")
def _arg_ties(prog, vals):
    """argmin/argmax with axis=None over a >=2-d input whose extreme value occurs more than once."""
    for s, a, r in _stmts(prog, vals):
        if s["op"] in ("argmin", "argmax") and s.get("axis") is None and a[0].ndim >= 2 and a[0].size:
            v = a[0]
            ext = v.min() if s["op"] == "argmin" else v.max()
            if int(np.sum(v == ext)) > 1:
                return True
    return False


@excl("KF-layout-drift-over-window-reduction")
def _frozen_layout_over_window_reduction(prog, vals):
    """broadcast_to / reshape / ravel / sliding_window_view / repeat (nodes that fix chunk metadata at
    construction) downstream of a reduction over a sliding_window_view (whose native kernel re-chunks)."""
    L = len(prog["leaves"])
    red_over_swv = set()
    for k, s in enumerate(prog["stmts"]):
        if s["op"] == "swv_reduce":  # C20's combined statement
            red_over_swv.add(L + k)
        if s["op"] in ("sum", "prod", "min", "max", "any", "all", "mean", "var", "std"):
            src = s["args"][0]
            if src >= L and prog["stmts"][src - L]["op"] == "sliding_window_view":
                red_over_swv.add(L + k)
    if not red_over_swv:
        return False

    def depends(v, seen=None):
        seen = seen or set()
        if v in red_over_swv:
            return True
        if v < L or v in seen:
            return False
        seen.add(v)
        return any(depends(a, seen) for a in prog["stmts"][v - L]["args"])

    for k, s in enumerate(prog["stmts"]):
        if s["op"] in ("broadcast_to", "reshape", "ravel", "sliding_window_view", "swv_reduce", "repeat", "pad") and any(depends(a) for a in s["args"]):
            return True
        # a reduction tree whose depth is fixed from the advertised block count (explicit split_every)
        if "split_every" in s and (L + k) not in red_over_swv and any(depends(a) for a in s["args"]):
            return True
    return False


@excl("KF-roll-flat-trailing-unit-axes")
def _roll_flat_unit_axes(prog, vals):
    """roll with axis=None (flatten, roll, reshape back) of an array of rank >= 3 whose last two axes have
    length 1."""
    for s, a, r in _stmts(prog, vals):
        if s["op"] == "roll" and s.get("axis") is None and a[0].ndim >= 3 and a[0].shape[-1] == 1 and a[0].shape[-2] == 1 and a[0].size > 1:
            return True
        # the reshape-back half on its own: x.reshape(n, 1, 1) of a multi-element x
        if s["op"] == "reshape" and r.ndim >= 3 and r.shape[-1] == 1 and r.shape[-2] == 1 and r.size > 1 and r.ndim > a[0].ndim:
            return True
    return False


@excl("KF-zero-width-block-broadcast")
def _zero_width_block_broadcast(prog, vals):
    """roll along a length-1 axis (its two pieces leave chunks (1, 0) on that axis) feeding a broadcasting
    elementwise op: a length-1 axis that carries a zero-width block is not recognised as broadcastable."""
    L = len(prog["leaves"])
    src = set()
    for k, (s, a, r) in enumerate(_stmts(prog, vals)):
        if s["op"] == "roll" and s.get("axis") is not None and a[0].ndim and a[0].shape[s["axis"]] == 1 and s.get("shift", 0) != 0:
            src.add(L + k)
    if not src:
        return False

    def reaches(v, seen):
        if v in src:
            return True
        if v < L or v in seen:
            return False
        seen.add(v)
        return any(reaches(a, seen) for a in prog["stmts"][v - L]["args"])

    return any(len(set(s["args"])) >= 2 and any(reaches(a, set()) for a in s["args"]) for s in prog["stmts"])


@excl("KF-zero-width-block-reductions")
def _zero_width_block_reductions(prog, vals):
    """min/max/argmin/argmax/var/std downstream of a statement that builds a non-empty array out of zero-size
    pieces (pad of a zero-size array, concatenate/stack with empty inputs): such arrays carry zero-width blocks."""
    L = len(prog["leaves"])
    src = {L + k for k, (s, a, r) in enumerate(_stmts(prog, vals)) if r.size > 0 and any(x.size == 0 for x in a)}
    if not src:
        return False

    def reaches(v, seen):
        if v in src:
            return True
        if v < L or v in seen:
            return False
        seen.add(v)
        return any(reaches(a, seen) for a in prog["stmts"][v - L]["args"])

    return any(s["op"] in ("min", "max", "argmin", "argmax", "var", "std") and any(reaches(a, set()) for a in s["args"]) for s in prog["stmts"])


@excl("KF-swv-over-higher-order-diff")
def _swv_over_diff(prog, vals):
    """sliding_window_view (which re-chunks its input when a chunk is shorter than the window) downstream of
    diff(n >= 2): the internal rechunk is pushed through the difference's elemwise, whose operand layout then
    drifts under slice pushdown."""
    L = len(prog["leaves"])
    src = {L + k for k, s in enumerate(prog["stmts"]) if s["op"] == "diff" and int(s.get("n", 1)) >= 2}
    # the same mechanism written out by the program: a basic slice of an elementwise combination of two
    # DIFFERENT operands (whose chunkings are unified, and re-unified after the slice is pushed through)
    from vf.gen import programs as P

    def fam(name):
        o = P.OPS.get(name)
        return o.family if o is not None else None

    binary = {L + k for k, s in enumerate(prog["stmts"]) if len(set(s["args"])) >= 2 and fam(s["op"]) in ("elemwise2", "setitem")}
    # contractions unify their operands as well - one operand under two index orders included
    # (einsum('ij,ji->i', x, x) with x chunked (2,1),(1,2)): there the layout drifts without any slice
    src |= {L + k for k, s in enumerate(prog["stmts"]) if fam(s["op"]) == "linalg"}
    def reaches(v, targets, seen):
        if v in targets:
            return True
        if v < L or v in seen:
            return False
        seen.add(v)
        return any(reaches(a, targets, seen) for a in prog["stmts"][v - L]["args"])

    for k, s in enumerate(prog["stmts"]):
        if s["op"] in ("getitem", "getitem_list", "take") and binary and reaches(s["args"][0], binary, set()):
            src.add(L + k)
    # and a balancing rechunk over any elementwise result (the rechunk is pushed through the elemwise and
    # re-balanced against the operand): (y <= 0).rechunk((2, 2), balance=True) under a window
    elem = {L + k for k, s in enumerate(prog["stmts"]) if fam(s["op"]) in ("elemwise", "elemwise2")}
    for k, s in enumerate(prog["stmts"]):
        if s["op"] in ("rechunk", "rechunk_auto") and s.get("balance") and elem and reaches(s["args"][0], elem, set()):
            src.add(L + k)
    if not src:
        return False

    def depends(v, seen):
        return reaches(v, src, seen)

    # consumers that freeze per-block chunk metadata at construction
    # ... and matmul, whose contraction tree is sized from the advertised block count of the contracted axis
    # (r @ r.T for r = diff(x, n=2).rechunk((3, 2)) silently drops a block's contribution)
    return any(s["op"] in ("sliding_window_view", "swv_reduce", "repeat", "broadcast_to", "matmul") and any(depends(a, set()) for a in s["args"]) for s in prog["stmts"])


@excl("KF-ufunc-where-0d-out")
def _where_out_0d(prog, vals):
    """An index that reduces the result of ufunc(..., out=, where=) to 0-d (listed for C11: the pushed-down
    0-d out= makes the ufunc return a scalar)."""
    L = len(prog["leaves"])
    for k, s in enumerate(prog["stmts"]):
        if s["op"] == "getitem" and "add_where_out" in ancestors_ops(prog, s["args"][0]):
            # 0-d result, or an integer that makes the pushed-down operand 0-d while None keeps the rank (x[-5, None])
            t = s["index"].get("tuple", []) if isinstance(s.get("index"), dict) else []
            if vals[L + k].ndim == 0 or (any(isinstance(e, int) and not isinstance(e, bool) for e in t) and vals[s["args"][0]].ndim == sum(1 for e in t if isinstance(e, int) and not isinstance(e, bool))):
                return True
    return False


@excl("KF-reshape-zero-size")
def _reshape_zero_size(prog, vals):
    """ravel / reshape / roll(axis=None) (which flattens and reshapes back) of a zero-size array with >= 2
    dimensions: raises while building, or builds a graph whose reshape blocks are missing."""
    for s, a, r in _stmts(prog, vals):
        if s["op"] in ("ravel", "reshape") or (s["op"] == "roll" and s.get("axis") is None):
            if a[0].size == 0 and (a[0].ndim >= 2 or r.ndim >= 2):
                return True
    return False


@excl("KF-setitem-int-with-negstep")
def _setitem_int_negstep(prog, vals):
    """x[..] = v where the index mixes an integer with a negative-step slice."""
    for s, a, r in _stmts(prog, vals):
        if s["op"] == "setitem":
            t = s["index"]["tuple"]
            has_int = any(isinstance(e, int) and not isinstance(e, bool) for e in t)
            has_neg = any(isinstance(e, dict) and "slice" in e and (e["slice"][2] or 1) < 0 for e in t)
            if has_int and has_neg:
                return True
    return False


@excl("KF-pad-wide")
def _pad_wide(prog, vals):
    """pad with mode reflect/symmetric/wrap and a width beyond what one reflection/copy of the axis provides."""
    for s, a, r in _stmts(prog, vals):
        if s["op"] == "pad" and s["mode"] in ("reflect", "symmetric", "wrap"):
            for (w0, w1), n in zip(s["width"], a[0].shape):
                lim = n - 1 if s["mode"] == "reflect" else n
                if max(w0, w1) > lim:
                    return True
    return False


def ancestors_ops(prog, var):
    """Ops of all statements ``var`` transitively depends on (including its own)."""
    L = len(prog["leaves"])
    seen, stack, ops = set(), [var], []
    while stack:
        v = stack.pop()
        if v in seen or v < L:
            continue
        seen.add(v)
        st_ = prog["stmts"][v - L]
        ops.append(st_["op"])
        stack.extend(st_["args"])
    return ops


@excl("KF-layout-drift-over-shuffle")
def _swv_over_shuffle(prog, vals):
    """A sliding window, repeat (blockwise with per-block adjust_chunks frozen at construction) or broadcast_to
    (its own chunks frozen at construction) downstream of a shuffle/take/int-list index."""
    L = len(prog["leaves"])
    for k, s in enumerate(prog["stmts"]):
        if s["op"] in ("sliding_window_view", "repeat", "broadcast_to", "swv_reduce"):
            up = [o for a in s["args"] for o in ancestors_ops(prog, a)]
            if any(o in ("shuffle", "take", "getitem_list") for o in up):
                return True
        # the other way round: the shuffle is pushed THROUGH a broadcast_to onto an elementwise combination
        if s["op"] in ("shuffle", "take", "getitem_list"):
            up = [o for a in s["args"] for o in ancestors_ops(prog, a)]
            if "broadcast_to" in up:
                return True
    return False


@functools.lru_cache(maxsize=1)
def _open_ids():
    kf = known.load(util.verif_dir())
    return frozenset(e["id"] for e in kf.get("findings", []) if e.get("status", "open") == "open")


def excluded(prog, vals, only=None):
    """Id of the first open finding whose region contains ``prog``, else None."""
    open_ids = _open_ids()
    for fid, fn in EXCL.items():
        if fid in open_ids and (only is None or fid in only):
            try:
                if fn(prog, vals):
                    return fid
            except Exception:
                continue
    return None


def region(fid):
    """The predicate itself (used by vf.known to recognise listed failures)."""
    return EXCL[fid]
