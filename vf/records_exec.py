"""Executor for Frisky task records ``(key, func, args, kwargs, deps)``.

Resolves ``TaskRef`` inside args/kwargs the way the protocol docstrings say
Frisky does (recursing lists, tuples and dict *values*), detects duplicate keys,
dangling dependencies and cycles."""

from __future__ import annotations

from vf.executor import fingerprint


class RecordsError(Exception):
    def __init__(self, kind, msg):
        super().__init__(f"{kind}: {msg}")
        self.kind = kind


def _resolve(arg, values):
    from dask._task_spec import TaskRef

    if isinstance(arg, TaskRef):
        return values[str(arg.key)]
    if isinstance(arg, list):
        return [_resolve(a, values) for a in arg]
    if isinstance(arg, tuple):
        return tuple(_resolve(a, values) for a in arg)
    if isinstance(arg, dict):
        return {k: _resolve(v, values) for k, v in arg.items()}
    return arg


def _refs(arg, out):
    from dask._task_spec import TaskRef

    if isinstance(arg, TaskRef):
        out.add(str(arg.key))
    elif isinstance(arg, (list, tuple)):
        for a in arg:
            _refs(a, out)
    elif isinstance(arg, dict):
        for v in arg.values():
            _refs(v, out)


def validate(records, external=()):
    """Structural checks. Returns (by_key, duplicates) or raises RecordsError."""
    by_key = {}
    dups = []
    for rec in records:
        if not (isinstance(rec, tuple) and len(rec) == 5):
            raise RecordsError("malformed", f"record is not a 5-tuple: {rec!r:.200}")
        key, func, args, kwargs, deps = rec
        if not isinstance(key, str):
            raise RecordsError("key-not-str", f"{key!r} ({type(key).__name__})")
        if not callable(func):
            raise RecordsError("func-not-callable", f"{key}: {func!r}")
        if not all(isinstance(d, str) for d in deps):
            raise RecordsError("dep-not-str", f"{key}: {deps!r:.200}")
        refs = set()
        _refs(args, refs)
        _refs(kwargs, refs)
        if not refs <= set(deps):
            raise RecordsError("ref-not-in-deps", f"{key}: embedded refs {sorted(refs - set(deps))[:3]} not listed in deps")
        if key in by_key:
            dups.append(key)
            continue
        by_key[key] = rec
    produced = set(by_key) | set(external)
    for key, rec in by_key.items():
        missing = [d for d in rec[4] if d not in produced]
        if missing:
            raise RecordsError("dangling", f"{key} depends on unproduced {missing[:3]}")
    return by_key, dups


def execute(records, external_values=None):
    """Run all records; returns {key: value}. Duplicate keys are executed too and
    must agree (else RecordsError('duplicate-differs'))."""
    external_values = dict(external_values or {})
    by_key, dups = validate(records, external=external_values)
    indeg = {k: len([d for d in set(r[4]) if d in by_key]) for k, r in by_key.items()}
    dependents = {k: [] for k in by_key}
    for k, r in by_key.items():
        for d in set(r[4]):
            if d in by_key:
                dependents[d].append(k)
    ready = sorted(k for k, n in indeg.items() if n == 0)
    values = dict(external_values)
    done = 0
    while ready:
        k = ready.pop()
        key, func, args, kwargs, deps = by_key[k]
        values[k] = func(*_resolve(args, values), **_resolve(kwargs or {}, values))
        done += 1
        for p in dependents[k]:
            indeg[p] -= 1
            if indeg[p] == 0:
                ready.append(p)
    if done != len(by_key):
        raise RecordsError("cycle", f"{len(by_key) - done} records are on a dependency cycle")
    if dups:
        seen = set()
        for rec in records:
            key, func, args, kwargs, deps = rec
            if key in dups:
                if key not in seen:
                    seen.add(key)
                    continue
                v = func(*_resolve(args, values), **_resolve(kwargs or {}, values))
                if fingerprint(v) != fingerprint(values[key]):
                    raise RecordsError("duplicate-differs", f"two records for {key} compute different values")
    return values
