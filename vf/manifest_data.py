"""Per-property manifest text. CLAIMED: properties with a registered check."""

EXPL = "Generated-input search: held on every generated case of this run (counts, class histogram and samples in the evidence file); no claim beyond the explored bounds."

PROG = "Hypothesis-generated DAG programs (programs as JSON data, ~60 ops, shapes incl. 0/1-length axes, 7 dtypes, 5 chunking families)"

CLAIMED = {
    "C01": {
        "text": PROG + " evaluated by a NumPy twin interpreter and by dask_array; values, shape and dtype compared. " + EXPL,
        "note": "NumPy is the reference model; statements NumPy rejects or warns about are not generated; regions of listed open known findings are excluded by construction and counted; float comparison within 256 eps of the coarsest float dtype times the largest magnitude in the program.",
        "technique": "property-based testing: random programs vs NumPy reference model (differential)",
    },
    "C02": {
        "text": PROG + ", rewrite-dense weighting; raw/simplified/lowered/fused forms each computed with optimisation off and compared; every fired rewrite recorded (hooks wrapped harness-side) and both sides computed and compared; fused tasks' external input keys and block values compared with the un-fused group. " + EXPL,
        "note": "An expression 'denotes' what it computes with array.optimize-graph=False; sides that cannot be computed un-optimised are skipped and counted.",
        "technique": "property-based testing: differential (phase vs raw, rewrite before vs after, fused vs unfused block inputs)",
    },
    "C08": {
        "text": PROG + "; simplify/lower/fuse/optimize must return (120 s watchdog), be idempotent by name, and a program computable without optimisation must compute with it. " + EXPL,
        "note": "Non-termination is only detected by a watchdog 3 orders of magnitude above the median case time.",
        "technique": "property-based testing: idempotence + metamorphic (raw computes => optimised computes)",
    },
    "C03": {
        "text": PROG + "; every variable's graph is executed by the harness' own executor and every block of the advertised grid is compared with .chunks, result shape/dtype with the advertised ones, optimize-graph on and off. " + EXPL,
        "note": "Trusts the harness executor (dask._task_spec tasks called with their dependency values); unknown (NaN) sizes only checked for block count.",
        "technique": "property-based testing: random programs, validity predicate over every produced block",
    },
    "C04": {
        "text": PROG + "; for every variable (and its .optimize()/.persist() results) the key grid, key presence, dependency closure, acyclicity (Kahn) and name stability are checked, optimize-graph on and off. " + EXPL,
        "note": "Dependencies are those dask._task_spec reports after convert_legacy_graph. Every output object is afterwards updated in place (setitem, ufunc out=, +=) and the same closure checks are repeated on the same object under its new name.",
        "technique": "property-based testing: random programs, validity predicate over the task graph",
    },
    "C12": {
        "text": "Hypothesis-generated (array, chunking, index) cases covering every listed index form incl. dask-array indices, .vindex, .blocks and unknown-chunk sources, compared with NumPy indexing of the same data; 'raises' classification: NumPy IndexError => dask_array must raise. " + EXPL,
        "note": "NumPy indexing is the reference; two fancy indices, dask-array indices combined with other elements and arrays with unknown chunk sizes may be refused with an IndexError/ValueError/TypeError/NotImplementedError (a value that is returned must still be NumPy's; an internal AttributeError/AssertionError/KeyError/RuntimeError is a failure, not a refusal); regions of the listed open findings are excluded or matched and counted.",
        "technique": "property-based testing: random indices vs NumPy reference (differential) with a raises-classification rule",
    },
    "C13": {
        "text": "Exhaustive enumeration of all slices/ints/chunk compositions for n<=5 (quick) / n<=7 (thorough) plus Hypothesis-drawn larger axes, each helper compared with brute force on range(n). " + EXPL,
        "note": "Trusts Python's own slice semantics on list(range(n)) as the reference; helper input domains are those of the callers (normalised indices; unit-step slices for _compose_slices/_compute_sliced_chunks).",
        "technique": "exhaustive small-domain enumeration + Hypothesis random inputs vs brute-force oracle",
    },
}

CLAIMED["C18"] = {
    "text": "Hypothesis-generated (data incl. NaN placements, chunking with up to 17 blocks on a reduced axis, reduction, axis set, keepdims, split_every int/dict, ddof/order/k, optional index on top, 1-3 chunkings of the same data) for all 25 listed reductions, compared with NumPy. " + EXPL,
    "note": "NumPy is the reference (moment: mean((x-mean)^k) on real data; topk: sorted extremes); tolerance 256 eps*M^p + 1024 eps relative; cases where NumPy's own evaluation overflows or raises ZeroDivisionError are rejected and counted; three listed open findings excluded and counted.",
    "technique": "property-based testing: random reductions vs NumPy reference, metamorphic over chunkings and tree fan-in",
}

CLAIMED["C19"] = {
    "text": "Hypothesis-generated sliding windows (alone and under 12 reductions, every window size), map_overlap stencils with int/dict/asymmetric depths and all boundary kinds, bottleneck moving-window reductions, overlap/trim_overlap, diff, gradient and cumulative scans (sequential and blelloch) over chunkings with blocks smaller than the window/depth, compared with the NumPy definitions (np.pad-based block-loop reference for overlaps). " + EXPL,
    "note": "Boundary kinds mapped to np.pad modes as the implementation documents; untrimmed overlaps only inspected when dask does not re-chunk first; map_overlap(trim=False) is a listed open finding (always raises) and excluded; explicit build-time rejections (depth larger than the array, chunks too small for gradient) are counted.",
    "technique": "property-based testing: random windows/depths/chunkings vs NumPy reference definitions",
}

CLAIMED["C14"] = {
    "text": PROG + " with a rechunk statement (all spec forms incl. auto/bytes/block_size_limit/balance) forced at a random position; every rechunk's advertised chunks compared with an independent normalisation of its spec (own reference for explicit forms, direct normalize_chunks call + byte bound for auto forms), block shapes of the optimised graph checked, outputs compared with NumPy; second generator for unknown sizes along unchanged axes. " + EXPL,
    "note": "Explicit-spec semantics as documented for rechunk; auto forms may exceed the limit by array.chunk-size-tolerance because rechunk always passes previous_chunks; per-axis byte strings and balance=True: validity only.",
    "technique": "property-based testing: random programs with forced rechunks vs reference normalisation + NumPy values",
}

CLAIMED["C05"] = {
    "text": PROG + " (single output) crossed with nine entry points (x.compute, dask.compute alone / with another array / with another array and a Delayed, x.persist, dask.persist, dask.optimize, x.optimize, x.to_delayed) and a follow-on operation on the returned collection; all values compared with the NumPy twin, name/chunks/dtype preservation checked for persist/optimize results. " + EXPL,
    "note": "NumPy twin is the reference; for a third of the cases the materialised object is then assigned in place through a dask boolean key and x.compute() and dask.compute(x) must both see the update; three listed open findings (dask.optimize over un-lowered trees, dask.persist/optimize of sliding-window reductions, mixed array+Delayed compute with unculled tasks) are excluded by structural predicates and counted.",
    "technique": "property-based testing: differential across entry points vs NumPy reference",
}
CLAIMED["C25"] = {
    "text": "Hypothesis-generated da.store calls (1-3 source/target pairs, all region forms, shared/twin/previously-lazily-stored targets, lock/compute/return_stored/load_stored/scheduler variants, NumPy and write-recording targets) and npy-stack round trips; every target compared bitwise with its pre-image with pre[region]=source applied by NumPy, nothing written before a lazy store is computed, returned arrays equal the source. " + EXPL,
    "note": "NumPy assignment on a copy of the target is the reference; NotImplementedError for negative-bound regions is a counted refusal; two listed open findings are matched at failure time by their scenario buckets.",
    "technique": "property-based testing: random store calls vs NumPy assignment model, round-trip for npy stacks",
}

CLAIMED["C17"] = {
    "text": "Hypothesis-generated operand sets (2-4 operands, rank 1-3, broadcast and rank-deficient axes, nested/interleaved/roll-shifted layouts, dtype byte ratios up to 1:16) under every policy x limit, through unify_chunks_expr, da.unify_chunks and real elemwise/where/blockwise programs; asserts one common layout per index, splits-only under refine, no block growth beyond max(limit, own largest) whenever the limit is enabled, NumPy-equal results and advertised block shapes. " + EXPL,
    "note": "With the limit disabled (None/0 = 'unguarded' per the repository's own bench/docs) the growth bound is asserted only under refine; which layout 'auto' picks is not asserted.",
    "technique": "property-based testing: validity predicates over unified layouts + NumPy reference for values",
}

CLAIMED["C15"] = {
    "text": "Exhaustive enumeration of all rank-1 composition pairs (n<=6 quick / 7 thorough) and small rank-2 shapes crossed with a parameter grid, plus Hypothesis-drawn rank 1-4 pairs (axis lengths <=300) across item sizes, thresholds, block-size limits and degree limits; plan_rechunk must return valid chunkings ending in the target within the block budget, old_to_new/intersect_chunks must tile every new block exactly once with in-bounds pieces, and a sample of small rechunks executed through TasksRechunk must reproduce the NumPy array block by block. " + EXPL,
    "note": "Predicates written from the property text; plan_rechunk is called as TasksRechunk._layer calls it; budget overruns introduced by _bound_degree (listed open finding) are separated from planner overruns by re-planning with degree bounding disabled.",
    "technique": "exhaustive small-domain enumeration + Hypothesis random inputs vs validity predicates; executed sample vs NumPy",
}
CLAIMED["C21"] = {
    "text": PROG + "; __frisky_graph__ / __frisky_records_chunks__ records are structurally validated (string keys, refs listed in deps, closure, acyclicity, agreeing duplicates, every output key defined) and executed by the harness' own records executor; every output block is compared bitwise with the block the dask graph produces; outputs of one program plus a persisted-input variant are walked with one shared `seen` set; masked arrays must decline. " + EXPL,
    "note": "The native extension is absent here, so every node goes through the generic records adapter (the path the property calls faithful by construction); TaskRef resolution follows the protocol docstring.",
    "technique": "property-based testing: differential (records executor vs dask graph executor) + validity predicate over records",
}
CLAIMED["C26"] = {
    "text": "Generated import orders of dask_array submodules and xarray (exhaustive single-module orders in the thorough tier, sampled in quick; Hypothesis permutations of 5-40 modules with xarray and register() at drawn positions), each run in a fresh interpreter with xarray's chunk manager, isactive() and DataArray.chunk() backend observed after every import; entry-point declarations re-read from pyproject.toml and installed metadata; generated xarray programs compared NumPy-backed vs dask_array-backed after register(). " + EXPL,
    "note": "State is observed by reading xarray's cached manager table without clearing it (active and passive observation policies both exercised); a third of the permutation cases run with DASK_ARRAY__QUERY_PLANNING=True and import dask.array along the way (the shared dispatch-slot path); 27 wrapper modules that need the absent native extension raise ImportError, which is swallowed like a user's try/import.",
    "technique": "property-based testing over import histories in fresh interpreters + differential xarray programs",
}
CLAIMED["C27"] = {
    "text": PROG + " incl. unknown-chunk producers: transfer_bytes evaluated on every node of the raw/simplified/lowered/fused/materialised trees (real pair, 0<=min<=max, NaN only beside unknown chunks, (0,0) for alias nodes and same-chunks rechunks); moved_fraction exhaustively on all composition pairs n<=7 (thorough n<=10) and random layouts up to n=500 against range, zero-for-split/identical and a brute-force model of its docstring; per-stage rechunk transfer on random layout pairs. " + EXPL,
    "note": "Alias node types are those the code's docstrings describe as pure alias layers (RootAlias, ChunksOverride, ChunksFreeze, Concatenate, Blocks); a raw blockwise contraction (concatenate=True, contracted index absent from the output) is constructed over every 2-d output; no magnitudes or monotonicity asserted.",
    "technique": "property-based testing + exhaustive layout pairs vs validity predicates and a brute-force model",
}

CLAIMED["C16"] = {
    "text": "Exhaustive enumeration of small int / explicit / auto specs (every composition of n as previous_chunks at every limit and three tolerances) plus Hypothesis-built specs of rank 0-4 in all documented forms under drawn array.chunk-size / chunk-size-tolerance; every accepted normalize_chunks call must return one non-empty tuple of non-negative integral sizes per axis summing to the axis length, uniform ints give (c,...,c,r), explicit tuples unchanged, -1/None one chunk, auto axes within the byte limit unless the fixed axes alone exceed it. " + EXPL,
    "note": "Exceptions mean 'not accepted' and are counted by type; the limit may be exceeded by array.chunk-size-tolerance only when previous_chunks is given; negative sizes other than -1 are outside the property's spec forms (observed and counted, not judged); one listed open finding (zero-size chunk in previous_chunks).",
    "technique": "exhaustive small-domain enumeration + Hypothesis random inputs vs validity predicate",
}

CLAIMED["C10"] = {
    "text": PROG + " weighted toward fused chains, rechunk views, sliding-window kernels, setitem and shared subgraphs; each output's graph is executed by the harness' own executor under 6 owned schedules (DFS, BFS, reverse, 3 Hypothesis-drawn random topological orders) plus dask's threaded (x2) and sync schedulers; all results bitwise identical and equal to NumPy; around every task the fingerprints of its dependencies are unchanged and at the end every produced value still has its creation fingerprint; every task re-executed gives the same bits; from_array sources unchanged. " + EXPL,
    "note": "Thread interleavings are not controlled (smoke test only); schedule independence is argued from the per-task premises (no mutation of any other value, determinism) checked under all generated orders.",
    "technique": "property-based testing with harness-owned schedules: invariant over task executions + differential across schedules",
}

CLAIMED["C11"] = {
    "text": "Hypothesis RuleBasedStateMachine HISTORIES (<= 25 steps quick, up to 40 thorough) over a pool of dask collections each mirrored by a NumPy copy: new (from_array, pristine source copy kept) / derive (slices incl. negative steps, arithmetic, reductions, transpose, rechunk, copy, persist, asarray, comparisons, boolean-mask selections with unknown chunks) / x[key] = value (ints, slices of all signs and steps, Ellipsis, None, int lists, NumPy and dask int/bool index arrays, full-shape NumPy and dask masks incl. masks derived from the target; scalar, broadcast NumPy, dask, slice-of-pool-member and np.ma.masked values; deliberately invalid assignments) / ufuncs with out= and where= / compute_chunk_sizes / compute / joint compute / drop. After every mutating step and at the end: the target equals NumPy's result of the same assignment (values, shape, dtype, mask), EVERY other live collection (derived before or after, ancestors, unrelated, persisted) still equals its mirror, and every source array equals its pristine copy; one third of the checks compute all members jointly through one merged graph. " + EXPL,
    "note": "Assignment forms dask_array refuses loudly at assignment time are classes, not failures (the pool must still be unchanged afterwards); when NumPy rejects the mirror assignment dask_array must raise at assignment or at the next compute of the target. A generator cap bounds nested x[k] = x[j] depth (graph construction cost grows as blocks**depth).",
    "technique": "stateful property-based testing (Hypothesis rule-based state machine): NumPy reference model + pool-wide invariant after every in-place step",
}

CLAIMED["C06"] = {
    "text": "Process-long HISTORIES of small programs from a deliberately collision-prone family (12 re-created source arrays, few chunkings, seeded random arrays, slice chains reaching one region by different routes, rechunks to one target from different parents, persisted results); a per-process registry maps every node name (raw/simplified/lowered/fused/materialised forms) to (shape, chunks, dtype) and every array-valued graph key (optimised and un-fused graphs, own executor) to a value digest; any re-mint with other metadata or digest is a violation, replayed as the pair of programs. " + EXPL,
    "note": "Only array-valued task results enter the key registry; user-pinned names are not generated (their uniqueness is the caller's duty); conflicts needing three or more programs would be reported but not shrunk below the pair.",
    "technique": "property-based testing over histories: invariant (name/key -> metadata/value) over the whole history",
}
CLAIMED["C07"] = {
    "text": PROG + " over tokenizable inputs: built twice in-process (equal name and optimised key set), rebuilt in a fresh interpreter with another PYTHONHASHSEED (per-shard batches), and cloudpickled at four stages (fresh, after .chunks, after optimize, after compute) then unpickled in-process and in the fresh interpreter: name, keys, chunks, dtype, Frisky output keys and bitwise values must survive; an untokenizable (unpicklable) source must keep one name per instance. " + EXPL,
    "note": "Fresh-interpreter comparisons cover a batch of 12 (quick) / 80 (thorough) programs per shard; values compared bitwise against the original collection.",
    "technique": "property-based testing: round-trip (pickle) and differential across processes / rebuilds",
}

CLAIMED["C09"] = {
    "text": "HISTORIES: Hypothesis-generated sequences (<= 25 quick / 45 thorough steps) of build / compute / compute_many / optimize / graph / persist / rebuild / drop+gc steps over a pool of variables sharing leaves and subtrees, every step under a freshly drawn setting of the eight listed configuration keys, in one process whose lowering cache and singleton registry persist across the shard; every compute must equal the NumPy value fixed at build time. " + EXPL,
    "note": "NumPy twin fixed at build time is the reference; configuration applied with dask.config.set around each step so construction-time and graph-build-time reads are drawn independently; statements in regions of listed findings are not generated.",
    "technique": "stateful property-based testing (history interpreter driven by Hypothesis draws) with a NumPy model invariant",
}

CLAIMED["C24"] = {
    "text": "Hypothesis-generated slice/rechunk chains (unit, stepped, negative steps, ints, nested through rechunk / simplify() / transposes) over from_array of a recording non-NumPy source with drawn storage grid (.chunks/.shards/adapter chains), lock, getter (default, 4-argument, documented 2-argument), fancy, asarray, inline_array; plus small ndarrays and (thorough) a 72 MB ndarray kept above the eager-copy limit. Outputs must equal NumPy indexing of the source, every logged read must lie within the source's bounds, requested elements must cover what the output needs, and for pushable slice chains be a subset of what the unsliced prefix requests. " + EXPL,
    "note": "Requests are observed through the source's own __getitem__ log; over-reads (a slice of y requesting more than y) are counted as a class, not judged - the property asks for NumPy's elements and in-bounds requests, not minimal reads. The family numpy-scaled-limit lowers the module constant _NUMPY_SLICE_PUSHDOWN_NBYTES_LIMIT in-process to 2 kB so that deferred-region, eager-copy and the transition inside one chain of 1-4 windows are reached with 40x40 arrays (the thorough tier also runs 72 MB arrays against the real limit).",
    "technique": "property-based testing with recording sources: NumPy reference + invariant over logged reads (bounds, needed elements requested)",
}
CLAIMED["C28"] = {
    "text": "Hypothesis-generated data-dependent selections (13 producers: dask/NumPy masks, row masks, nonzero, argwhere, flatnonzero, unique variants, compress, extract, one-argument where) over small chunked arrays with empty and fully selected blocks; compute_chunk_sizes() must yield exactly the executed block shapes (own executor and the harness' per-block selection counts) and NumPy's values; one of 35 follow-on operations is applied before resolving (must raise or equal NumPy; raise/succeed split reported per operation) and after (must equal NumPy). " + EXPL,
    "note": "NumPy is the reference; ten listed open findings (wrong results on still-unknown sizes; zero-length chunks mishandled after resolving) are excluded by case-level predicates and counted.",
    "technique": "property-based testing: NumPy reference + 'raises or equals' classification",
}
CLAIMED["C29"] = {
    "text": PROG + " over recording non-NumPy sources with spying map_blocks/blockwise functions; after building, a Hypothesis-drawn sequence of metadata accessors (every node's metadata incl. _meta and transfer_bytes), repr/html, tokenize, pickle, simplify, optimize, lower, graph construction and explain is applied; until execution starts no source may be asked for a non-empty selection or converted with __array__, and no user block function may be called on a non-empty block; afterwards compute equals NumPy. " + EXPL,
    "note": "NumPy sources are exempt (the property says non-NumPy); sources enter through from_array, da.asarray or da.asanyarray; lazily computed 0-d dask indices (x[v.argmax()]) are generated here to audit WHEN they are computed (what they return is C12's business); a user function called by meta inference on a 0-d meta is a class, not a failure (no empty 0-d array exists); listed open findings excluded by predicates.",
    "technique": "property-based testing with recording sources and spy functions: invariant over the pre-execution history",
}

CLAIMED["C20"] = {
    "text": PROG + " that always contain a map_blocks call with a spy function taking block_info, block_id or both (keep / drop_axis / new_axis / explicit-chunks variants, one or two broadcasting inputs), placed above leaves, sliding-window reductions, slices, rechunks, unifying elemwise, concatenates and reductions and below slices, rechunks, reductions and transposes; inputs[i].chunks and out.chunks are snapshotted when the call is made, and every invocation's chunk-location, array-location, chunk-shape, num-chunks, shape, block_id and every input block's shape and CONTENT must match that snapshot; outputs equal a grid-independent NumPy twin. " + EXPL,
    "note": "The spy's return value encodes the received location, so a wrong location changes values; a grid location computed twice (fusion re-computing a broadcast block) is a class, not a failure; the mb statement and a window-reduction statement are registered into the op table by the engine.",
    "technique": "property-based testing with spying block functions: invariant over logged invocations + NumPy reference",
}

CLAIMED["C23"] = {
    "text": "Hypothesis-generated seeded random arrays (every generator kind and distribution the API offers, incl. array-valued parameters, draw positions 0-2) with derived programs (slices, rechunks, transposes, r-r, self combinations, where, reductions, concatenations, fused consumers, cloudpickle round trips, persist), compute orders, gc and both optimize-graph settings: the first computed realisation R must be reproduced bitwise by every recompute, in-process rebuild and fresh-interpreter rebuild (other PYTHONHASHSEED), every derived program in every optimisation form must equal its NumPy twin applied to R, equal names must imply equal values and consecutive draws must differ. " + EXPL,
    "note": "Metamorphic oracle (no comparison with NumPy's own RNG streams); harness-side counters detect re-instantiated Random nodes and fusion with consumers; five listed open findings (array-valued parameters, draw aliasing in parent tokens, choice instability, generic array operands, choice meta rank) are matched at failure time by bucket and predicate.",
    "technique": "property-based testing: metamorphic relation against the first realisation + differential across processes",
}

NOT_APPLICABLE = {
    "C22": "native Rust extension cannot be built offline (pyo3 0.29 and other crates are absent from the offline cargo registry; no prebuilt .so), so no native layer can be instantiated to generate inputs against; see DESIGN.md section 4 C22",
}
