"""Per-property manifest text. CLAIMED: properties with a registered check."""

EXPL = "Generated-input search: held on every generated case of this run (counts, class histogram and samples in the evidence file); no claim beyond the explored bounds."

CLAIMED = {
    "C13": {
        "text": "Exhaustive enumeration of all slices/ints/chunk compositions for n<=5 (quick) / n<=7 (thorough) plus Hypothesis-drawn larger axes, each helper compared with brute force on range(n). " + EXPL,
        "note": "Trusts Python's own slice semantics on list(range(n)) as the reference; helper input domains are those of the callers (normalised indices; unit-step slices for _compose_slices/_compute_sliced_chunks).",
        "technique": "exhaustive small-domain enumeration + Hypothesis random inputs vs brute-force oracle",
    },
}

NOT_APPLICABLE = {
    "C22": "native Rust extension cannot be built offline (pyo3 0.29 and other crates are absent from the offline cargo registry; no prebuilt .so), so no native layer can be instantiated to generate inputs against; see DESIGN.md section 4 C22",
}
