"""Runner: shards an engine over worker processes, merges results, handles
known findings / regress replays, minimises new failures, writes evidence.

Engine protocol (module ``vf.props.<id>``):

    PROPERTY, RULE, ASSUMPTIONS
    plan(tier) -> [spec, ...]             # JSON-able shard specs
    run_shard(spec, seed) -> Collector.result()
    replay(case) -> [(bucket, detail), ...]   # deterministic re-execution of ONE case
    shrink(case) -> iterator of smaller candidate cases   (optional)
    REQUIRED_CLASSES = {"quick": [...], "thorough": [...]}  (optional)
"""

from __future__ import annotations

import argparse
import glob
import importlib
import json
import multiprocessing as mp
import os
import re
import sys
import time
import traceback
from collections import Counter

from vf import known as known_mod
from vf import util

MAX_FAIL_PER_BUCKET = 3


class Collector:
    """Accumulates what one shard explored."""

    def __init__(self, max_samples=6):
        self.evaluations = 0
        self.nontrivial = set()
        self.classes = Counter()
        self.samples = []
        self.rare_samples = {}
        self.failures = {}
        self.rejected = Counter()
        self.excluded_known = Counter()
        self.extra = {}
        self.max_samples = max_samples
        self.exhaustive = None

    def case(self, case, nontrivial: bool, labels=(), key=None):
        self.evaluations += 1
        for lab in labels:
            self.classes[lab] += 1
        if nontrivial:
            k = key if key is not None else util.h64(case)
            n0 = len(self.nontrivial)
            self.nontrivial.add(k)
            if len(self.nontrivial) != n0:
                n = len(self.nontrivial)
                # reservoir-free cheap sampling: keep early + power-of-two spaced ones
                if len(self.samples) < self.max_samples and (n <= 2 or (n & (n - 1)) == 0):
                    self.samples.append(util.jsonable(case() if callable(case) else case))

    def count(self, n=1, labels=()):
        self.evaluations += n
        for lab in labels:
            self.classes[lab] += n

    def label(self, lab, n=1):
        self.classes[lab] += n

    def reject(self, why="rejected"):
        self.rejected[why] += 1

    def exclude(self, why):
        self.excluded_known[why] += 1

    def fail(self, bucket: str, case, detail: str = ""):
        lst = self.failures.setdefault(bucket, [])
        case = util.jsonable(case)
        size = len(util.canon(case))
        lst.append((size, case, detail))
        lst.sort(key=lambda t: t[0])
        del lst[MAX_FAIL_PER_BUCKET:]

    def result(self):
        return {
            "evaluations": self.evaluations,
            "nontrivial": sorted(self.nontrivial),
            "classes": dict(self.classes),
            "samples": self.samples,
            "failures": {b: [(c, d) for _, c, d in v] for b, v in self.failures.items()},
            "rejected": dict(self.rejected),
            "excluded_known": dict(self.excluded_known),
            "extra": self.extra,
            "exhaustive": self.exhaustive,
        }


# ---------------------------------------------------------------------------


def _load_engine(pid):
    return importlib.import_module(f"vf.props.{pid.lower()}")


def _worker(args):
    pid, spec, seed, idx = args
    t0 = time.time()
    try:
        eng = _load_engine(pid)
        res = eng.run_shard(spec, seed)
        res["wall_s"] = time.time() - t0
        res["shard"] = idx
        return ("ok", res)
    except BaseException as e:  # harness error, never a verdict
        return ("error", f"shard {idx} spec={spec!r}\n" + "".join(traceback.format_exception(type(e), e, e.__traceback__)))


def _replay_safe(eng, case):
    """Run engine.replay; harness exceptions become a pseudo-bucket."""
    try:
        return list(eng.replay(case))
    except BaseException as e:
        return [("HARNESS|" + util.exc_bucket("replay", e), util.exc_detail(e))]


def _generic_shrink(case):
    """Structure-agnostic candidates: drop list elements, shrink ints toward 0."""

    def walk(o, path):
        if isinstance(o, dict):
            for k, v in o.items():
                yield from walk(v, path + [k])
        elif isinstance(o, list):
            yield (path, o)
            for i, v in enumerate(o):
                yield from walk(v, path + [i])
        elif isinstance(o, int) and not isinstance(o, bool):
            yield (path, o)

    def setp(root, path, val, delete=False):
        new = json.loads(json.dumps(root))
        cur = new
        for p in path[:-1]:
            cur = cur[p]
        if delete:
            del cur[path[-1]]
        else:
            cur[path[-1]] = val
        return new

    for path, o in list(walk(case, [])):
        if not path:
            continue
        if isinstance(o, list):
            for i in range(len(o)):
                yield setp(case, path + [i], None, delete=True)
        else:
            for v in (0, o // 2, o - 1 if o > 0 else o + 1):
                if v != o:
                    yield setp(case, path, v)


def minimise(eng, case, bucket, budget):
    """Greedy descent over engine.shrink candidates, staying in ``bucket``."""
    shrink = getattr(eng, "shrink", None) or _generic_shrink
    best = case
    best_size = len(util.canon(best))
    tried = 0
    improved = True
    seen = {util.h64(best)}
    while improved and tried < budget:
        improved = False
        for cand in shrink(best):
            if tried >= budget:
                break
            try:
                size = len(util.canon(cand))
            except Exception:
                continue
            hk = util.h64(cand)
            if hk in seen or size > best_size:
                continue
            seen.add(hk)
            tried += 1
            fails = _replay_safe(eng, cand)
            if any(b == bucket for b, _ in fails):
                best, best_size = cand, size
                improved = True
                break
    return best, tried


def _write_replay(here, pid, bucket, case, detail, seed, tier, sub="found"):
    alt = os.environ.get("VERIF_EVIDENCE_DIR")  # mutation runs write outside /verif
    d = os.path.join(alt, "replays", pid, sub) if alt else os.path.join(here, "replays", pid, sub)
    os.makedirs(d, exist_ok=True)
    path = os.path.join(d, util.h64(bucket) + ".json")
    with open(path, "w") as f:
        json.dump(
            {"property": pid, "bucket": bucket, "case": case, "detail": detail, "seed": seed, "tier": tier},
            f,
            indent=1,
            sort_keys=True,
        )
    return os.path.relpath(path, here)


def main(argv, here, repo):
    ap = argparse.ArgumentParser(prog="check")
    ap.add_argument("property")
    ap.add_argument("--tier", default=os.environ.get("VERIF_TIER") or "quick", choices=["quick", "thorough"])
    ap.add_argument("--replay")
    ap.add_argument("--jobs", type=int, default=int(os.environ.get("VERIF_JOBS", "0")) or min(16, os.cpu_count() or 1))
    ap.add_argument("--scale", type=float, default=float(os.environ.get("VERIF_SCALE", "1")))
    args = ap.parse_args(argv)
    pid = args.property.upper()
    try:
        seed = int(os.environ.get("VERIF_SEED", "1") or "1")
    except ValueError:
        seed = 1
    t0 = time.time()

    try:
        import dask_array

        if not os.path.abspath(dask_array.__file__).startswith(os.path.abspath(repo) + os.sep):
            print(f"HARNESS-ERROR: dask_array imported from {dask_array.__file__}, not {repo}")
            return 2
        import dask

        dask.config.set(scheduler="sync")
        eng = _load_engine(pid)
    except BaseException as e:
        print("HARNESS-ERROR: import failed\n" + util.exc_detail(e))
        return 2

    kf = known_mod.load(here)

    if args.replay:
        with open(args.replay) as f:
            doc = json.load(f)
        case = doc["case"] if "case" in doc and "property" in doc else doc
        fails = _replay_safe(eng, case)
        if any(b.startswith("HARNESS|") for b, _ in fails):
            print("HARNESS-ERROR:", fails[0][0], "\n", fails[0][1])
            return 2
        if fails:
            for b, d in fails:
                print(f"replay failure bucket={b}\n{d}")
            print(f"VIOLATION property={pid} replay={args.replay}")
            return 1
        print(f"replay passed: property={pid} {args.replay}")
        return 0

    os.environ["VERIF_SCALE"] = str(args.scale)
    specs = eng.plan(args.tier)
    jobs = [(pid, spec, util.shard_seed(seed, pid, i), i) for i, spec in enumerate(specs)]
    results = []
    errors = []
    if args.jobs <= 1 or len(jobs) == 1:
        outs = map(_worker, jobs)
    else:
        ctx = mp.get_context("fork")
        pool = ctx.Pool(min(args.jobs, len(jobs)), maxtasksperchild=1)
        outs = pool.imap_unordered(_worker, jobs)
    try:
        for status, payload in outs:
            (results if status == "ok" else errors).append(payload)
    except BaseException as e:
        errors.append("pool failure: " + util.exc_detail(e))
    finally:
        if args.jobs > 1 and len(jobs) > 1:
            pool.terminate()
            pool.join()
    if errors:
        print("HARNESS-ERROR: worker(s) failed\n" + "\n".join(errors[:3]))
        return 2

    # ---- merge
    evaluations = sum(r["evaluations"] for r in results)
    nontrivial = set()
    classes = Counter()
    rejected = Counter()
    excluded = Counter()
    samples = []
    failures = {}
    extra = {}
    for r in sorted(results, key=lambda r: r["shard"]):
        nontrivial.update(r["nontrivial"])
        classes.update(r["classes"])
        rejected.update(r["rejected"])
        excluded.update(r["excluded_known"])
        for s in r["samples"]:
            if len(samples) < 10:
                samples.append(s)
        for b, lst in r["failures"].items():
            failures.setdefault(b, []).extend(lst)
        for k, v in (r.get("extra") or {}).items():
            if isinstance(v, (int, float)) and not isinstance(v, bool):
                extra[k] = extra.get(k, 0) + v
            else:
                extra.setdefault(k, v)
    exhaustive = all(r.get("exhaustive") for r in results) if results and all(r.get("exhaustive") is not None for r in results) else None

    violations = []  # (bucket, replay path)
    known_lines = []
    notes = []

    # ---- regress replays (fixed findings and earlier violations): plain regressions
    for path in sorted(glob.glob(os.path.join(here, "replays", pid, "regress", "*.json"))):
        with open(path) as f:
            doc = json.load(f)
        fails = _replay_safe(eng, doc["case"])
        classes["regress_replays"] += 1
        for b, d in fails:
            if b.startswith("HARNESS|"):
                print(f"HARNESS-ERROR: regress replay {path}: {b}\n{d}")
                return 2
            rel = os.path.relpath(path, here)
            if known_mod.match(kf, pid, b, doc["case"]) is None:
                violations.append((b, rel))

    # ---- known findings: replay each open one
    for entry in known_mod.open_for(kf, pid):
        rp = os.path.join(here, entry["replay"])
        with open(rp) as f:
            doc = json.load(f)
        fails = _replay_safe(eng, doc["case"])
        hit = [b for b, _ in fails if known_mod.match(kf, pid, b, doc["case"]) == entry["id"]]
        if hit:
            known_lines.append(f"KNOWN-FINDING: property={pid} {entry['id']} {entry['what']}")
        else:
            notes.append(f"known_finding_not_reproduced:{entry['id']}")
        for b, d in fails:
            if b.startswith("HARNESS|"):
                print(f"HARNESS-ERROR: known replay {rp}: {b}\n{d}")
                return 2

    # ---- new failures: classify, minimise, write replay
    budget = 150 if args.tier == "quick" else 1500
    known_hits = Counter()
    for bucket in sorted(failures):
        lst = failures[bucket]
        if bucket.startswith("HARNESS|"):
            print(f"HARNESS-ERROR: {bucket}\n{lst[0][1]}")
            return 2
        unlisted = [(c, d) for c, d in lst if known_mod.match(kf, pid, bucket, c) is None]
        for c, d in lst:
            m = known_mod.match(kf, pid, bucket, c)
            if m is not None:
                known_hits[m] += 1
        if not unlisted:
            continue
        case, detail = min(unlisted, key=lambda t: len(util.canon(t[0])))
        # confirm it reproduces outside the generator before reporting
        fails = _replay_safe(eng, case)
        if not any(b == bucket for b, _ in fails):
            notes.append(f"not_reproduced_on_replay:{bucket}")
            # still a violation: it was observed; report the original case unshrunk
            small, tried = case, 0
        else:
            small, tried = minimise(eng, case, bucket, budget)
            if known_mod.match(kf, pid, bucket, small) is not None:
                small = case  # do not shrink an unlisted failure into a listed one
            for b, d in _replay_safe(eng, small):
                if b == bucket:
                    detail = d
                    break
        rel = _write_replay(here, pid, bucket, small, detail, seed, args.tier)
        violations.append((bucket, rel))

    req = getattr(eng, "REQUIRED_CLASSES", {}).get(args.tier, [])
    missing = [c for c in req if classes.get(c, 0) == 0]

    wall = time.time() - t0
    coverage = {
        "evaluations": int(evaluations),
        "distinct_nontrivial": len(nontrivial),
        "rule": eng.RULE,
        "samples": samples[:8],
        "class_histogram": dict(sorted(classes.items())),
        "rejected": dict(rejected),
        "excluded_known": dict(excluded),
        "known_findings_hit_in_search": dict(known_hits),
        "known_findings_reported": known_lines,
        "buckets": {b: r for b, r in violations},
        "shards": len(specs),
        "notes": notes,
        "repo": repo,
    }
    coverage.update({k: v for k, v in extra.items() if k not in coverage})
    if exhaustive is not None:
        coverage["exhaustive"] = bool(exhaustive)
    ev = {
        "property_id": pid,
        "tier": args.tier,
        "seed": seed,
        "level": "exploration",
        "coverage": coverage,
        "assumptions": list(getattr(eng, "ASSUMPTIONS", [])),
        "wall_s": round(wall, 2),
        "violations": len(violations),
    }
    if evaluations < 1 or len(nontrivial) < 2 or not samples:
        print(f"HARNESS-ERROR: vacuous run (evaluations={evaluations}, nontrivial={len(nontrivial)})")
        return 2
    evdir = os.environ.get("VERIF_EVIDENCE_DIR") or os.path.join(here, "evidence")
    os.makedirs(evdir, exist_ok=True)
    with open(os.path.join(evdir, f"{pid}.json"), "w") as f:
        json.dump(ev, f, indent=1, sort_keys=True)
        f.write("\n")

    for line in known_lines:
        print(line)
    print(
        f"{pid} tier={args.tier} seed={seed} evaluations={evaluations} nontrivial={len(nontrivial)} "
        f"rejected={sum(rejected.values())} excluded_known={sum(excluded.values())} wall={wall:.1f}s"
    )
    if missing:
        print(f"HARNESS-ERROR: generator does not reach required classes: {missing}")
        return 2
    if violations:
        for b, rel in violations:
            print(f"  bucket: {b}")
            print(f"VIOLATION property={pid} replay={rel}")
        return 1
    return 0
