"""Own executor over ``dict(x.__dask_graph__())``: owns the schedule, keeps every
key's value, checks closure/acyclicity, can fingerprint dependencies before and
after each task."""

from __future__ import annotations

import hashlib

import numpy as np


class GraphError(Exception):
    def __init__(self, kind, msg):
        super().__init__(f"{kind}: {msg}")
        self.kind = kind


def convert(graph):
    from dask._task_spec import convert_legacy_graph

    return convert_legacy_graph(dict(graph))


def structure(graph):
    """(nodes, deps) with deps[key] = set of keys it depends on. Raises GraphError
    for dangling dependencies or cycles."""
    nodes = convert(graph)
    deps = {k: set(n.dependencies) for k, n in nodes.items()}
    for k, ds in deps.items():
        missing = [d for d in ds if d not in nodes]
        if missing:
            raise GraphError("dangling", f"task {k!r} depends on undefined key(s) {missing[:3]!r}")
    # Kahn
    indeg = {k: len(ds) for k, ds in deps.items()}
    dependents = {k: [] for k in nodes}
    for k, ds in deps.items():
        for d in ds:
            dependents[d].append(k)
    ready = [k for k, n in indeg.items() if n == 0]
    seen = 0
    while ready:
        k = ready.pop()
        seen += 1
        for p in dependents[k]:
            indeg[p] -= 1
            if indeg[p] == 0:
                ready.append(p)
    if seen != len(nodes):
        cyc = [k for k, n in indeg.items() if n > 0][:3]
        raise GraphError("cycle", f"dependency cycle through {cyc!r}")
    return nodes, deps, dependents


def _keysort(k):
    return repr(k)


def topo_order(deps, dependents, mode="dfs", chooser=None):
    """A topological order. mode: 'dfs' (finish-first), 'bfs', 'reverse' (among
    ready tasks pick the lexicographically last), 'random' (chooser(n) -> index)."""
    indeg = {k: len(ds) for k, ds in deps.items()}
    ready = sorted([k for k, n in indeg.items() if n == 0], key=_keysort)
    order = []
    while ready:
        if mode == "bfs":
            i = 0
        elif mode == "dfs":
            i = len(ready) - 1
        elif mode == "reverse":
            i = max(range(len(ready)), key=lambda j: _keysort(ready[j]))
        else:
            i = chooser(len(ready))
        k = ready.pop(i)
        order.append(k)
        new = []
        for p in dependents[k]:
            indeg[p] -= 1
            if indeg[p] == 0:
                new.append(p)
        new.sort(key=_keysort)
        ready.extend(new)
    return order


def fingerprint(v):
    """Stable digest of a task value (arrays by bytes+shape+dtype, others by repr/pickle)."""
    if isinstance(v, np.generic):
        v = np.asarray(v)  # a NumPy scalar and a 0-d array of the same dtype/bytes are the same block value
    if isinstance(v, np.ndarray):
        if np.ma.isMaskedArray(v):
            return ("ma", fingerprint(np.ma.getdata(v)), fingerprint(np.ma.getmaskarray(v)))
        a = np.ascontiguousarray(v)
        if a.dtype.kind == "O":
            return ("obj", a.shape, repr(a.tolist()))
        return ("nd", a.shape, str(a.dtype), hashlib.blake2b(a.tobytes(), digest_size=12).hexdigest())
    if isinstance(v, (np.generic,)):
        return ("sc", str(v.dtype), v.tobytes().hex())
    if isinstance(v, (list, tuple)):
        return (type(v).__name__,) + tuple(fingerprint(x) for x in v)
    if isinstance(v, dict):
        return ("dict",) + tuple((repr(k), fingerprint(x)) for k, x in sorted(v.items(), key=lambda t: repr(t[0])))
    try:
        return ("repr", repr(v)[:200])
    except Exception:
        return ("id", type(v).__name__)


def execute(graph, order=None, mode="dfs", chooser=None, watch=False, rerun=False, check_final=False):
    """Run all tasks. Returns (values, report). With ``watch`` every task's
    dependencies (and every other live value sharing memory with them) are
    fingerprinted before and after: report['mutations'] lists offenders. With
    ``rerun`` each task is executed twice on the same inputs and results compared:
    report['nondeterministic']."""
    nodes, deps, dependents = structure(graph)
    if order is None:
        order = topo_order(deps, dependents, mode=mode, chooser=chooser)
    values = {}
    created = {}
    report = {"mutations": [], "nondeterministic": [], "order_len": len(order)}
    for k in order:
        node = nodes[k]
        dvals = {d: values[d] for d in deps[k]}
        if watch:
            before = {d: fingerprint(v) for d, v in dvals.items()}
        out = node(dvals)
        if watch:
            for d, v in dvals.items():
                if fingerprint(v) != before[d]:
                    report["mutations"].append((k, d))
        if rerun:
            out2 = node(dvals)
            if fingerprint(out) != fingerprint(out2):
                report["nondeterministic"].append(k)
        values[k] = out
        if check_final:
            created[k] = fingerprint(out)
    if check_final:
        # every value must still be what it was when its task produced it
        report["mutated_later"] = [k for k in order if fingerprint(values[k]) != created[k]]
    return values, report


def flatten_keys(keys):
    if isinstance(keys, list):
        for k in keys:
            yield from flatten_keys(k)
    else:
        yield keys


def assemble(x, values):
    """Concatenate the blocks of collection ``x`` from executor values."""
    keys = x.__dask_keys__()

    def rec(ks):
        if isinstance(ks, list):
            return [rec(k) for k in ks]
        return values[ks]

    finalize, args = x.__dask_postcompute__()
    return finalize(rec(keys), *args)
