"""C23 subprocess driver: executed in a FRESH interpreter, one JSON job on stdin.

    python -P _c23_driver.py < job.json     (PYTHONPATH = repo under test : verif dir,
                                             PYTHONHASHSEED different from the parent's)

Job: ``{"cases": [case, ...]}``.  For every case the base random array is rebuilt
with the same history (generator kind, seed, draw position, parameters, shape,
chunks) by ``vf.props.c23.build_base`` and computed once; the reply carries its
``.name`` and a blake2 digest of the values plus shape/dtype.
"""

import json
import os
import sys
import traceback

MARK = "@@C23-RESULT@@"


def main():
    out = {}
    try:
        job = json.loads(sys.stdin.read())
        import dask
        import dask_array

        dask.config.set(scheduler="sync")
        out["dask_array_file"] = dask_array.__file__
        out["hashseed"] = os.environ.get("PYTHONHASHSEED")
        from vf.props import c23

        out["results"] = [c23.fresh_eval(c) for c in job["cases"]]
    except BaseException as e:  # driver bug / environment problem: the parent raises a harness error
        out = {"driver_error": "".join(traceback.format_exception(type(e), e, e.__traceback__))[-2500:]}
    sys.stdout.write("\n" + MARK + json.dumps(out) + "\n")
    sys.stdout.flush()


if __name__ == "__main__":
    main()
