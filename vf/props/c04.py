"""C04 — graphs are closed, acyclic and produce exactly the advertised keys."""

from __future__ import annotations

import dask
import numpy as np

from vf import executor as E
from vf import progrun, util
from vf.gen import programs as P

PROPERTY = "C04"
RULE = (
    "Same program generator as C01. For every variable x of the program, under array.optimize-graph on and off, and "
    "additionally for x.optimize() and x.persist(): __dask_keys__() must equal the nested grid of (name, *idx) over "
    "numblocks with name == x.name; the graph must define each of them; every dependency of every task (from the "
    "converted task specs, so refs nested in lists/tuples/dicts count) must be defined; Kahn's algorithm must consume "
    "all tasks; x.name must be unchanged after graph build / optimize / persist / compute. Each output object is then "
    "updated IN PLACE (x[:1,...] = 0, np.negative(x, out=x) or x += 1, chosen by program hash) after its keys and "
    "graph were consulted, and the same closure checks are repeated on the same object under its new name. Non-trivial: the graph has "
    ">= 2 distinct key prefixes and the materialised root is a RootAlias (optimisation renamed the root); distinct = "
    "distinct program JSON."
)
ASSUMPTIONS = ["dependencies are those reported by dask._task_spec after convert_legacy_graph", "sync scheduler for persist/compute"]

EXCLUDE = ("KF-layout-drift-over-shuffle", "KF-setitem-int-with-negstep", "KF-layout-drift-over-window-reduction", "KF-pad-wide", "KF-swv-over-higher-order-diff", "KF-reshape-zero-size", "KF-ufunc-where-0d-out", "KF-roll-flat-trailing-unit-axes", "KF-zero-width-block-reductions")


def _grid(name, numblocks):
    def rec(prefix, dims):
        if not dims:
            return prefix
        return [rec(prefix + (i,), dims[1:]) for i in range(dims[0])]

    if not numblocks:
        return [(name,)]
    return rec((name,), list(numblocks))


def check_collection(x, tag, compute=False):
    fails = []
    labs = []
    name0 = x.name
    try:
        keys = x.__dask_keys__()
        want = _grid(name0, x.numblocks)
        if keys != want:
            fails.append((f"keys|grid-differs|{tag}", f"__dask_keys__()={str(keys)[:200]} expected {str(want)[:200]}"))
        g = dict(x.__dask_graph__())
    except NotImplementedError:
        return "refused", fails, labs
    except Exception as e:
        return "ok", [(util.exc_bucket(f"graph[{tag}]", e), util.exc_detail(e))], labs
    flat = list(E.flatten_keys(keys))
    missing = [k for k in flat if k not in g]
    if missing:
        fails.append((f"keys|not-in-graph|{tag}", f"{missing[:3]!r} advertised but not defined by the graph"))
    try:
        E.structure(g)
    except E.GraphError as e:
        fails.append((f"graph|{e.kind}|{tag}", str(e)))
    except Exception as e:
        fails.append((util.exc_bucket(f"convert[{tag}]", e), util.exc_detail(e)))
    prefixes = {k[0] if isinstance(k, tuple) else k for k in g}
    if len(prefixes) >= 2:
        labs.append("layers>=2")
    try:
        if type(x._lowered_expr).__name__ == "RootAlias":
            labs.append("rootalias")
    except Exception:
        pass
    if x.name != name0:
        fails.append((f"name|changed-by-graph|{tag}", f"{name0} -> {x.name}"))
    if compute:
        try:
            x.compute()
        except Exception:
            pass  # values are C01's business
        if x.name != name0:
            fails.append((f"name|changed-by-compute|{tag}", f"{name0} -> {x.name}"))
    return "ok", fails, labs


def check(case, vals=None):
    prog = case["program"]
    fails, labs = [], []
    refused = False
    L = len(prog["leaves"])
    for og in (True, False):
        with dask.config.set({"array.optimize-graph": og}):
            vars_, status = progrun.build_or_reject(prog)
            if vars_ is None:
                return status, [], []
            for k in range(L, len(vars_)):
                x = vars_[k]
                opn = prog["stmts"][k - L]["op"]
                tag = "opt" if og else "raw"
                name0 = x.name
                st, f, lb = check_collection(x, tag, compute=(k in prog["outputs"]))
                labs += lb
                if st == "refused":
                    refused = True
                    continue
                fails += [(b, f"variable {k} ({opn}): {d}") for b, d in f]
                if k in prog["outputs"] and og and not f:
                    # derived collections are arrays reachable from the API as well
                    for kind in ("optimize", "persist"):
                        try:
                            y = x.optimize() if kind == "optimize" else x.persist()
                        except NotImplementedError:
                            continue
                        except Exception as e:
                            if kind == "persist":
                                # persist executes the graph: a task that raises is C01's (values) business
                                labs.append("persist-raised")
                                continue
                            fails.append((util.exc_bucket(kind, e), util.exc_detail(e)))
                            continue
                        if x.name != name0:
                            fails.append((f"name|changed-by-{kind}", f"{name0} -> {x.name}"))
                        st2, f2, lb2 = check_collection(y, f"{kind}d")
                        labs += [f"{kind}d:" + l for l in lb2] + [kind + "d"]
                        fails += [(b, f"variable {k} ({opn}) after .{kind}(): {d}") for b, d in f2]
                if k in prog["outputs"] and not f:
                    # the SAME object after an in-place update (its keys and graph were consulted above):
                    # the collection has a new name, and keys and graph must follow it together
                    how = ("setitem", "out", "iadd")[int(util.h64(prog), 16) % 3]
                    try:
                        if how == "setitem":
                            x[(slice(0, 1),) * x.ndim] = 0
                        elif how == "out" and x.dtype.kind in "iuf":
                            np.negative(x, out=x)
                        else:
                            how = "iadd"
                            x += x.dtype.type(1) if x.dtype.kind != "b" else True
                    except Exception:
                        labs.append("inplace-raised")  # whether the update is accepted is C11's business
                        continue
                    if x.name == name0:
                        labs.append("inplace-kept-name")
                    st3, f3, lb3 = check_collection(x, f"inplace-{how}|{tag}")
                    labs.append("inplace:" + how)
                    fails += [(b, f"variable {k} ({opn}) after in-place {how}: {d}") for b, d in f3]
    return ("refused" if refused and not fails else "ok"), fails, sorted(set(labs))


def replay(case):
    _, fails, _ = check(case)
    return fails


shrink = progrun.shrink_case


def nontrivial(case, labels):
    return "layers>=2" in labels and "rootalias" in labels


def run_shard(spec, seed):
    return progrun.run_program_shard(spec, seed, check, nontrivial, exclude_only=EXCLUDE)


def plan(tier):
    return progrun.plan_cases(tier, 6400, 300000)


REQUIRED_CLASSES = {"quick": ["rootalias", "layers>=2", "persistd", "optimized"], "thorough": ["rootalias", "layers>=2", "persistd", "optimized"]}
