"""C23 — a random array is one fixed realisation.

A case is JSON::

    {"gen": "default_rng" | "Generator:PCG64" | ... | "RandomState" | "module",
     "seed": int, "k": 0..2, "after": 0..1,          # r is the (k+1)-th array drawn; `after` more are drawn after it
     "dist": {"name": ..., <distribution parameters; array-valued ones are {"arr": "np"|"da", "bshape": [...], ...}>},
     "shape": [...], "chunks": [[...], ...],
     "prog": [step, ...],                            # derived program over r, every step has a NumPy twin
     "order": "base-first" | "derived-first", "keep": bool, "gc": bool, "opt": bool,
     "alt_chunks": null | [[...], ...],              # same seed/shape, other chunking: equal names => equal values
     "fresh": bool}                                   # also rebuilt in a fresh interpreter (_c23_driver.py)

The oracle never looks at NumPy's own streams: R is whatever the first
``r.compute()`` of the case returned, everything else is compared with R.
"""

from __future__ import annotations

import contextlib
import gc
import hashlib
import json
import os
import pickle
import subprocess
import sys
import tempfile
import warnings

import dask
import hypothesis
import numpy as np
from hypothesis import HealthCheck, Phase, given, settings
from hypothesis import strategies as st

from vf import funcs, util
from vf.gen import chunks as gchunks
from vf.gen import indices as gidx
from vf.gen.draw import D
from vf.runner import Collector

PROPERTY = "C23"
RULE = (
    "Hypothesis draws (generator kind: default_rng, Generator(PCG64/MT19937/Philox/SFC64/PCG64DXSM), RandomState, module-level "
    "seed()+functions; whatever the API exposes, introspected at import) x seed x draw position k in 0..2 (k arrays of the same "
    "kind are drawn from the same generator object first, 0-1 after) x distribution (random [f4/f8], standard_normal, normal and "
    "poisson with scalar or ARRAY-valued parameters [NumPy or dask operand broadcast against the output], uniform, "
    "integers/randint [dtype, endpoint], binomial, exponential, choice [int/array population, p, replace], permutation of a chunked "
    "array) x shape (rank 0-3, axis lengths 0-9) x chunks (vf.gen.chunks) x derived program of 0-4 steps (basic slice, rechunk, "
    "transpose, r-r, r+r.T, scalar arithmetic, where(r>t,r,0), sum/mean/max with axis/keepdims/split_every, r[::2]+r[1::2], "
    "concatenate([r,r]), r*2+1, cloudpickle round trip, persist) x compute order (base first / derived first) x derived "
    "collection kept alive or temporary x gc.collect() in between x optimize-graph on/off. Oracle (metamorphic): R = first "
    "r.compute(); every later r.compute() (both optimize-graph settings) is bitwise R with the advertised shape/dtype; every "
    "derived program (first evaluation, re-built evaluation, other optimize-graph setting, raw/simplified/lowered/fused forms "
    "computed with optimisation off) equals its NumPy twin applied to R (exact for selections, rtol 1e-12 for "
    "arithmetic/reductions); a pair program a-b over two consecutive draws equals A-B, alone and while r-r is alive; an in-process rebuild (same kind, "
    "seed, history, parameters, shape, chunks) and a rebuild in a fresh interpreter with another PYTHONHASHSEED give the same "
    ".name and bitwise R; arrays with equal .name have equal values (consecutive draws, alternative chunking); consecutive draws "
    "with enough entropy differ. Random/RandomChoice constructions after the base build are counted by wrapping __new__. "
    "Non-trivial: a rewrite or pickle re-instantiated a Random node, or the Random node was fused with a consumer, on a "
    "multi-block array; distinct = distinct case JSON."
)
ASSUMPTIONS = [
    "'the same realization' = the values returned by the first r.compute() of the case; no comparison with NumPy's own RNG streams (per-block seeding is dask_array's own definition)",
    "elementwise arithmetic and reductions compared with rtol 1e-12 of the largest magnitude (64 eps for float32 data) plus 1024 eps * sum|R| for re-associated sums; selections, rearrangements, r-r, where and max bitwise",
    "all observations of 'a value that is not R's' within one case (recompute, optimize-graph flag, derived program, forms) are one bucket realisation-differs|<node class>|<array-params|scalar-params>; exceptions are bucketed by type and innermost dask_array frame (or by the broken precondition when r advertises a _meta of the wrong rank)",
    "in-process rebuild and fresh-interpreter rebuild are judged only when R was stable inside the process",
    "a random array whose .name changes between two reads is reported (name-unstable) and the case stops there: every optimisation loop compares names and would not terminate",
    "a per-case watchdog (C23_WATCHDOG, default 300 s; a case normally takes ~0.1 s) skips and counts a case that hangs; it never produces a verdict, and a shard with hangs but no failure aborts as a harness error",
    "a distribution/kwarg combination the API rejects at call time is a rejection (counted); NotImplementedError is a refusal; any other exception at build or compute time of a derived program is a failure",
    "the consecutive-draws-differ check is applied only when the per-element collision probability bound p satisfies p**size <= 1e-12",
    "fresh-interpreter rebuilds are done for a batched sample of cases per shard (one subprocess per batch); a subprocess crash or timeout is a harness error",
    "the raw/simplified/lowered/fused forms are obtained with the generic Expr API (simplify, lower_completely, fuse) and computed with array.optimize-graph=False as in C02",
]

MARK = "@@C23-RESULT@@"
DRIVER = os.path.join(os.path.dirname(os.path.abspath(__file__)), "_c23_driver.py")
TIMEOUT = 300
RTOL = 1e-12
ENTROPY = 1e-12

CONT = ("random", "standard_normal", "normal", "uniform", "exponential")
ALL_DISTS = ("random", "standard_normal", "normal", "uniform", "integers", "poisson", "binomial", "exponential", "choice", "permutation")
BITGENS = ("PCG64", "MT19937", "Philox", "SFC64", "PCG64DXSM")


# ---------------------------------------------------------------------------
# API introspection (once, at import)


def _method(family, dist):
    if dist == "random":
        return "random_sample" if family == "randomstate" else "random"
    if dist == "integers":
        return "integers" if family == "generator" else "randint"
    return dist


def _introspect():
    import dask_array as da

    rnd = da.random
    kinds = {}
    if hasattr(rnd, "default_rng"):
        kinds["default_rng"] = "generator"
    if hasattr(rnd, "Generator"):
        for bg in BITGENS:
            cls = getattr(np.random, bg, None)
            if cls is None:
                continue
            try:
                rnd.Generator(cls(0))
            except Exception:
                continue
            kinds["Generator:" + bg] = "generator"
    if hasattr(rnd, "RandomState"):
        kinds["RandomState"] = "randomstate"
    if hasattr(rnd, "seed") and hasattr(rnd, "random"):
        kinds["module"] = "module"
    probes = {}
    if "default_rng" in kinds:
        probes["generator"] = rnd.default_rng(0)
    elif any(v == "generator" for v in kinds.values()):
        probes["generator"] = rnd.Generator(np.random.PCG64(0))
    if "RandomState" in kinds:
        probes["randomstate"] = rnd.RandomState(0)
    if "module" in kinds:
        probes["module"] = rnd
    dists = {fam: [d for d in ALL_DISTS if hasattr(obj, _method(fam, d))] for fam, obj in probes.items()}
    kinds = {k: f for k, f in kinds.items() if dists.get(f)}
    return kinds, dists


KINDS, DISTS = _introspect()


def repo_dir():
    return os.path.abspath(os.environ.get("VERIF_REPO", "/repo"))


# ---------------------------------------------------------------------------
# building the base array


def make_gen(kind):
    """-> (family, factory(seed) -> generator-like object)"""
    import dask_array as da

    fam = KINDS[kind]
    if kind == "default_rng":
        return fam, (lambda s: da.random.default_rng(s))
    if kind.startswith("Generator:"):
        cls = getattr(np.random, kind.split(":", 1)[1])
        return fam, (lambda s: da.random.Generator(cls(s)))
    if kind == "RandomState":
        return fam, (lambda s: da.random.RandomState(s))

    def mod(s):
        da.random.seed(s)
        return da.random

    return fam, mod


def is_arr(v):
    return isinstance(v, dict) and "arr" in v


def operand(spec):
    """A distribution parameter: number, or a NumPy / dask array with fixed contents."""
    if not is_arr(spec):
        return spec
    import dask_array as da

    bshape = tuple(spec["bshape"])
    size = int(np.prod(bshape)) if bshape else 1
    vals = (spec["base"] + spec["step"] * (np.arange(size) % spec["mod"])).astype("f8").reshape(bshape)
    if spec["arr"] == "np":
        return vals
    return da.from_array(vals, chunks=tuple(tuple(c) for c in spec["chunks"]))


def array_param_names(dist):
    return sorted(k for k, v in dist.items() if is_arr(v))


def draw_one(g, family, case, chunks=None):
    import dask_array as da

    d = case["dist"]
    name = d["name"]
    shape = tuple(case["shape"])
    chunks = tuple(tuple(c) for c in (chunks if chunks is not None else case["chunks"]))
    fn = getattr(g, _method(family, name))
    if name == "random":
        if family == "generator" and d.get("dtype"):
            return fn(shape, dtype=np.dtype(d["dtype"]).type, chunks=chunks)
        return fn(shape, chunks=chunks)
    if name == "standard_normal":
        return fn(shape, chunks=chunks)
    if name == "normal":
        return fn(operand(d["loc"]), operand(d["scale"]), size=shape, chunks=chunks)
    if name == "uniform":
        return fn(operand(d["low"]), operand(d["high"]), size=shape, chunks=chunks)
    if name == "exponential":
        return fn(d["scale"], size=shape, chunks=chunks)
    if name == "poisson":
        return fn(operand(d["lam"]), size=shape, chunks=chunks)
    if name == "binomial":
        return fn(d["n"], d["p"], size=shape, chunks=chunks)
    if name == "integers":
        kw = {"dtype": np.dtype(d.get("dtype", "i8")).type}
        if family == "generator":
            kw["endpoint"] = bool(d.get("endpoint", False))
        return fn(d["low"], d["high"], size=shape, chunks=chunks, **kw)
    if name == "choice":
        a = d["a"]
        n = a if isinstance(a, int) else a["n"]
        pop = a if isinstance(a, int) else np.arange(n) * 1.5 - 1.0
        p = None
        if d.get("p"):
            w = np.arange(1, n + 1, dtype="f8")
            p = w / w.sum()
        return fn(pop, size=shape, replace=bool(d.get("replace", True)), p=p, chunks=chunks)
    if name == "permutation":
        size = int(np.prod(shape))
        x = da.from_array(np.arange(size, dtype="i8").reshape(shape), chunks=chunks)
        return fn(x)
    raise AssertionError(f"unknown distribution {name}")


def build_base(case, chunks=None):
    """Replays the history of the case: generator, k earlier draws, r, `after` later draws."""
    family, factory = make_gen(case["gen"])
    g = factory(case["seed"])
    prev = [draw_one(g, family, case, chunks) for _ in range(case["k"])]
    r = draw_one(g, family, case, chunks)
    nxt = [draw_one(g, family, case, chunks) for _ in range(case["after"])]
    return g, prev, r, nxt


def digest(a):
    a = np.ascontiguousarray(a)
    h = hashlib.blake2b(digest_size=16)
    h.update(str(a.dtype).encode() + b"|" + json.dumps(list(a.shape)).encode() + b"|")
    h.update(a.tobytes())
    return h.hexdigest()


def observe(r, R):
    R = np.asarray(R)
    return {"name": r.name, "digest": digest(R), "shape": list(R.shape), "dtype": str(R.dtype)}


def fresh_eval(case):
    """What the fresh interpreter reports for one case (also usable in-process)."""
    with warnings.catch_warnings():
        warnings.simplefilter("ignore")
        with np.errstate(all="ignore"):
            try:
                _, _, r, _ = build_base(case)
                R = r.compute()
            except Exception as e:
                return {"error": f"{type(e).__name__}: {str(e)[:200]}", "tb": util.exc_detail(e, 1200)}
    return observe(r, R)


# ---------------------------------------------------------------------------
# derived programs: dask side and NumPy twin

EXACT_OPS = {"slice", "rechunk", "transpose", "sub_self", "where_gt", "concat_self", "pickle", "persist"}


def _axis(st_):
    ax = st_.get("axis")
    return tuple(ax) if isinstance(ax, list) else ax


def _sibling(k):
    return (np.arange(k * k, dtype="f8").reshape(k, k) % 7) * 0.5


def np_step(a, s):
    op = s["op"]
    if op == "slice":
        return a[gidx.dec(s["index"])]
    if op == "rechunk":
        ch = s["chunks"]
        assert len(ch) == a.ndim and all(sum(c) == n and all(x >= 0 for x in c) and (all(x > 0 for x in c) or list(c) == [0]) for c, n in zip(ch, a.shape)), "rechunk chunks do not fit"
        return a
    if op == "transpose":
        assert sorted(s["axes"]) == list(range(a.ndim)), "bad axes"
        return np.transpose(a, s["axes"])
    if op == "sub_self":
        return a - a
    if op == "add_T":
        return a + a.T
    if op == "sibling_T":
        assert a.ndim in (1, 2) and a.shape[-1] >= 2 and (a.ndim == 1 or a.shape[0] in (1, a.shape[-1])) and 1 <= s["c"] <= a.shape[-1]
        y = funcs.times_two(_sibling(a.shape[-1]) * 1.5)
        return a + (y + y.T)
    if op == "scalar":
        fn, c = s["fn"], s["c"]
        if fn == "add":
            return a + c
        if fn == "mul":
            return a * c
        if fn == "rsub":
            return c - a
        if fn == "neg":
            return -a
        raise AssertionError(fn)
    if op == "where_gt":
        return np.where(a > s["t"], a, 0)
    if op == "reduce":
        assert s["fn"] in ("sum", "mean", "max")
        assert a.size > 0 or s["fn"] == "sum", "min/max/mean of an empty array is outside the domain"
        return getattr(np, s["fn"])(a, axis=_axis(s), keepdims=bool(s.get("keepdims", False)))
    if op == "evenodd":
        ax = s["axis"]
        assert 0 <= ax < a.ndim and a.shape[ax] % 2 == 0, "odd axis"
        lo = [slice(None)] * a.ndim
        hi = [slice(None)] * a.ndim
        lo[ax] = slice(None, None, 2)
        hi[ax] = slice(1, None, 2)
        return a[tuple(lo)] + a[tuple(hi)]
    if op == "concat_self":
        assert 0 <= s["axis"] < a.ndim
        return np.concatenate([a, a], axis=s["axis"])
    if op == "affine":
        return a * 2 + 1
    if op in ("pickle", "persist"):
        return a
    raise AssertionError(f"unknown step {op}")


def da_step(y, s):
    import cloudpickle

    import dask_array as da

    op = s["op"]
    if op == "slice":
        return y[gidx.dec(s["index"])]
    if op == "rechunk":
        return y.rechunk(tuple(tuple(c) for c in s["chunks"]))
    if op == "transpose":
        return y.transpose(tuple(s["axes"]))
    if op == "sub_self":
        return y - y
    if op == "add_T":
        return y + y.T
    if op == "sibling_T":
        k = y.shape[-1]
        # map_blocks over an elemwise input: fusable with its own input on a later pass, opaque to transposes
        sib = da.map_blocks(funcs.times_two, da.from_array(_sibling(k), chunks=(s["c"], s["c"])) * 1.5, dtype="f8")
        return y + (sib + sib.T)
    if op == "scalar":
        fn, c = s["fn"], s["c"]
        if fn == "add":
            return y + c
        if fn == "mul":
            return y * c
        if fn == "rsub":
            return c - y
        return -y
    if op == "where_gt":
        return da.where(y > s["t"], y, 0)
    if op == "reduce":
        kw = {}
        if s.get("split_every") is not None:
            kw["split_every"] = s["split_every"]
        return getattr(da, s["fn"])(y, axis=_axis(s), keepdims=bool(s.get("keepdims", False)), **kw)
    if op == "evenodd":
        ax = s["axis"]
        lo = [slice(None)] * y.ndim
        hi = [slice(None)] * y.ndim
        lo[ax] = slice(None, None, 2)
        hi[ax] = slice(1, None, 2)
        return y[tuple(lo)] + y[tuple(hi)]
    if op == "concat_self":
        return da.concatenate([y, y], axis=s["axis"])
    if op == "affine":
        return y * 2 + 1
    if op == "pickle":
        return pickle.loads(cloudpickle.dumps(y))
    if op == "persist":
        return y.persist()
    raise AssertionError(op)


def np_prog(R, prog):
    a = np.asarray(R)
    for s in prog:
        a = np_step(a, s)
    return a


def da_prog(r, prog):
    y = r
    for s in prog:
        y = da_step(y, s)
    return y


def prog_exact(prog):
    return all(s["op"] in EXACT_OPS or (s["op"] == "reduce" and s["fn"] == "max") for s in prog)


# ---------------------------------------------------------------------------
# validation (the shrinker produces malformed cases; they must raise AssertionError)


def _num(v):
    return isinstance(v, (int, float)) and not isinstance(v, bool)


def _check_arr_spec(spec, shape):
    assert spec["arr"] in ("np", "da")
    bshape = list(spec["bshape"])
    assert 1 <= len(bshape) <= len(shape) and all(isinstance(n, int) and n >= 0 for n in bshape)
    for b, n in zip(bshape[::-1], list(shape)[::-1]):
        assert b == n or b == 1, "operand does not broadcast against the output"
    assert _num(spec["base"]) and _num(spec["step"]) and isinstance(spec["mod"], int) and spec["mod"] >= 1
    if spec["arr"] == "da":
        _check_chunks(spec["chunks"], bshape)


def _check_chunks(chunks, shape):
    assert isinstance(chunks, list) and len(chunks) == len(shape)
    for c, n in zip(chunks, shape):
        assert isinstance(c, list) and c and all(isinstance(x, int) and not isinstance(x, bool) for x in c) and sum(c) == n
        assert all(x > 0 for x in c) or c == [0]


def _operand_range(spec):
    """(min, max) of a parameter value."""
    if not is_arr(spec):
        return float(spec), float(spec)
    vals = [spec["base"] + spec["step"] * j for j in range(spec["mod"])]
    return float(min(vals)), float(max(vals))


def validate(case):
    assert isinstance(case, dict)
    assert case.get("gen") in KINDS, f"generator kind {case.get('gen')!r} not available"
    family = KINDS[case["gen"]]
    assert isinstance(case.get("seed"), int) and not isinstance(case["seed"], bool) and 0 <= case["seed"] < 2**32
    assert case.get("k") in (0, 1, 2) and case.get("after") in (0, 1) and not isinstance(case["k"], bool) and not isinstance(case["after"], bool)
    shape = case.get("shape")
    assert isinstance(shape, list) and len(shape) <= 3 and all(isinstance(n, int) and not isinstance(n, bool) and 0 <= n <= 12 for n in shape)
    _check_chunks(case.get("chunks"), shape)
    if case.get("alt_chunks") is not None:
        _check_chunks(case["alt_chunks"], shape)
    assert case.get("order") in ("base-first", "derived-first")
    for f in ("keep", "gc", "opt", "fresh"):
        assert isinstance(case.get(f), bool), f
    d = case.get("dist")
    assert isinstance(d, dict) and d.get("name") in DISTS[family], "distribution not provided by this generator kind"
    name = d["name"]
    for p in array_param_names(d):
        assert (name, p) in (("normal", "loc"), ("normal", "scale"), ("poisson", "lam"), ("uniform", "low"), ("uniform", "high"))
        _check_arr_spec(d[p], shape)
    if name == "random":
        assert d.get("dtype") in (None, "f4", "f8")
    elif name == "normal":
        assert (_num(d["loc"]) or is_arr(d["loc"])) and (_num(d["scale"]) or is_arr(d["scale"]))
        assert _operand_range(d["scale"])[0] >= 0
    elif name == "uniform":
        assert (_num(d["low"]) or is_arr(d["low"])) and (_num(d["high"]) or is_arr(d["high"]))
        assert _operand_range(d["low"])[1] <= _operand_range(d["high"])[0]
    elif name == "exponential":
        assert _num(d["scale"]) and d["scale"] >= 0
    elif name == "poisson":
        assert _num(d["lam"]) or is_arr(d["lam"])
        lo, hi = _operand_range(d["lam"])
        assert 0 <= lo and hi <= 1e6
    elif name == "binomial":
        assert isinstance(d["n"], int) and 0 <= d["n"] <= 10**6 and _num(d["p"]) and 0 <= d["p"] <= 1
    elif name == "integers":
        assert isinstance(d["low"], int) and isinstance(d["high"], int) and d.get("dtype", "i8") in ("i8", "i4")
        hi = d["high"] + (1 if d.get("endpoint") else 0)
        assert d["low"] < hi and -(2**31) <= d["low"] and hi <= 2**31 - 1
        assert isinstance(d.get("endpoint", False), bool)
    elif name == "choice":
        a = d["a"]
        n = a if isinstance(a, int) else a["n"]
        assert isinstance(n, int) and not isinstance(n, bool) and 1 <= n <= 2 * 10**6
        if d.get("p"):
            assert n <= 64
        assert isinstance(d.get("replace", True), bool)
        if not d.get("replace", True):
            assert len(shape) >= 1 and len(case["chunks"][0]) == 1, "replace=False needs one block along axis 0"
            biggest = int(np.prod([max(c) for c in case["chunks"]]))
            assert biggest <= n, "population too small for replace=False"
            if case.get("alt_chunks") is not None:
                assert len(case["alt_chunks"][0]) == 1 and int(np.prod([max(c) for c in case["alt_chunks"]])) <= n
    elif name == "permutation":
        assert len(shape) >= 1
    prog = case.get("prog")
    assert isinstance(prog, list) and len(prog) <= 6 and all(isinstance(s, dict) and "op" in s for s in prog)
    dt = base_dtype(case)
    with warnings.catch_warnings():
        warnings.simplefilter("ignore")
        with np.errstate(all="ignore"):
            try:
                a = np.zeros(shape, dtype=dt)
                for s in prog:
                    a = np_step(a, s)
                    assert a.size <= 4000
            except AssertionError:
                raise
            except Exception as e:
                raise AssertionError(f"program invalid for NumPy: {type(e).__name__}: {e}")


def base_dtype(case):
    d = case["dist"]
    n = d["name"]
    if n == "random":
        return np.dtype(d.get("dtype") or "f8")
    if n in ("standard_normal", "normal", "uniform", "exponential"):
        return np.dtype("f8")
    if n == "integers":
        return np.dtype(d.get("dtype", "i8"))
    if n == "choice" and not isinstance(d["a"], int):
        return np.dtype("f8")
    return np.dtype("i8")


def collision_bound(case):
    """Upper bound on P(two independent draws of r are equal), or 1.0 when unknown."""
    d = case["dist"]
    n = d["name"]
    size = int(np.prod(case["shape"])) if case["shape"] else 1
    if size == 0:
        return 1.0
    if n in CONT:
        if n == "normal" and _operand_range(d["scale"])[0] <= 0:
            return 1.0
        if n == "uniform" and _operand_range(d["low"])[1] >= _operand_range(d["high"])[0]:
            return 1.0
        if n == "exponential" and d["scale"] <= 0:
            return 1.0
        p = 2.0**-20
    elif n == "integers":
        p = 1.0 / (d["high"] + (1 if d.get("endpoint") else 0) - d["low"])
    elif n == "poisson":
        p = 0.4 if _operand_range(d["lam"])[0] >= 1 else 0.95
    elif n == "binomial":
        v = d["n"] * d["p"] * (1 - d["p"])
        p = 0.5 if v >= 1 else 0.95
    elif n == "choice":
        k = d["a"] if isinstance(d["a"], int) else d["a"]["n"]
        if not d.get("replace", True):
            return 1.0
        p = (2.0 / (k + 1)) if d.get("p") else 1.0 / k
    else:
        return 1.0
    return float(min(1.0, p)) ** size


# ---------------------------------------------------------------------------
# instrumentation: count constructions of Random-family nodes (harness side only)


class Counter:
    def __init__(self):
        self.n = 0
        self.on = False
        self.by = {}


@contextlib.contextmanager
def counting():
    from dask._expr import Expr

    classes = []
    try:
        from dask_array.random._expr import Random

        classes.append(Random)
    except Exception:
        pass
    try:
        from dask_array.random._choice import RandomChoice

        classes.append(RandomChoice)
    except Exception:
        pass
    ctr = Counter()
    base_new = Expr.__new__

    def counted(cls, *a, **k):
        if ctr.on:
            ctr.n += 1
            ctr.by[cls.__name__] = ctr.by.get(cls.__name__, 0) + 1
        return base_new(cls, *a, **k)

    patched = []
    for c in classes:
        if "__new__" not in c.__dict__:
            c.__new__ = counted
            patched.append(c)
    try:
        yield ctr, tuple(classes)
    finally:
        for c in patched:
            try:
                del c.__new__
            except Exception:
                pass


def node_class(r, case, rand_classes):
    if case["dist"]["name"] == "permutation":
        return "permutation"
    try:
        for n in r.expr.walk():
            if isinstance(n, rand_classes):
                nm = type(n).__name__
                # the two parameter-explicit subclasses (operands are expression operands) share one mechanism;
                # the generic Random keeps its parameters inside tuple/dict operands
                return "RandomNormalPoisson" if nm in ("RandomNormal", "RandomPoisson") else nm
    except Exception:
        pass
    return type(r.expr).__name__


def fused_with_consumer(fused, rand_classes):
    for n in fused.walk():
        if type(n).__name__ == "FusedBlockwise":
            ex = list(getattr(n, "exprs", ()))
            if len(ex) >= 2 and any(isinstance(e, rand_classes) for e in ex) and any(not isinstance(e, rand_classes) for e in ex):
                return True
    return False


def _compute_expr(expr):
    from dask_array._new_collection import new_collection

    with dask.config.set({"array.optimize-graph": False}):
        return new_collection(expr).compute()


# ---------------------------------------------------------------------------
# the check


class Refused(Exception):
    pass


class CaseHang(BaseException):
    """A single tiny case ran for WATCHDOG seconds (normal: ~0.1 s).  Never a verdict: the
    shard/replay aborts with a harness error that names the case."""


WATCHDOG = int(os.environ.get("C23_WATCHDOG", "300") or "300")


@contextlib.contextmanager
def watchdog(case):
    import signal
    import threading

    if threading.current_thread() is not threading.main_thread() or not hasattr(signal, "SIGALRM"):
        yield
        return

    def on_alarm(signum, frame):
        raise CaseHang(f"C23 case still running after {WATCHDOG}s (optimisation loop that never converges?): {util.canon(case)[:600]}")

    old = signal.signal(signal.SIGALRM, on_alarm)
    signal.alarm(WATCHDOG)
    try:
        yield
    finally:
        signal.alarm(0)
        signal.signal(signal.SIGALRM, old)


def run_case(case):
    """-> (labels, fails, obs).  obs = what the base array looked like (for the fresh-process comparison)."""
    validate(case)
    with watchdog(case):
        return _run_case_guarded(case)


def _run_case_guarded(case):
    gc.collect()  # weak caches of earlier cases must not leak into this one
    with warnings.catch_warnings():
        warnings.simplefilter("ignore")
        with np.errstate(all="ignore"):
            with counting() as (ctr, rand_classes):
                try:
                    return _run_case(case, ctr, rand_classes)
                except (Refused, AssertionError):
                    raise
                except Exception as e:
                    if util.innermost_repo_frame(e) == "?":
                        raise  # not raised inside dask_array: a harness bug
                    return ["gen:" + case["gen"], "dist:" + case["dist"]["name"], "unexpected-exception"], [(f"raises|?|{type(e).__name__}|{util.innermost_repo_frame(e)}", "outside the staged checks\n" + util.exc_detail(e))], None


def _run_case(case, ctr, rand_classes):
    labs = ["gen:" + case["gen"], "dist:" + case["dist"]["name"], f"rank:{len(case['shape'])}", f"k:{case['k']}", "order:" + case["order"]]
    fails = []
    prog = case["prog"]
    aparams = array_param_names(case["dist"])
    ptag = "array-params" if aparams else "scalar-params"
    if aparams:
        labs.append("array-valued-params")
        labs += ["array-param:" + case["dist"][p]["arr"] for p in aparams]
    if 0 in case["shape"]:
        labs.append("zero-length-axis")
    if gchunks.nblocks(case["chunks"]) > 1:
        labs.append("multi-block")
    for s in prog:
        labs.append("step:" + s["op"])
    ops = {s["op"] for s in prog}
    for op, lab in (("slice", "sliced"), ("rechunk", "rechunked"), ("pickle", "pickled"), ("persist", "persisted")):
        if op in ops:
            labs.append(lab)
    labs.append("derived-kept" if case["keep"] else "derived-temporary")
    if case["gc"]:
        labs.append("gc-between")

    # ---- base build (API rejections are outside the domain)
    try:
        g, prev, r, nxt = build_base(case)
    except NotImplementedError:
        raise Refused("build:NotImplementedError")
    except Exception as e:
        raise Refused("build:" + util.exc_bucket("reject", e)[:110])
    cls = node_class(r, case, rand_classes)
    labs.append("node:" + cls)
    tag = f"{cls}|{ptag}"
    try:
        meta_rank_bad = int(np.ndim(r._meta)) != len(case["shape"])
    except Exception:
        meta_rank_bad = False
    if meta_rank_bad:
        labs.append("meta-rank-mismatch")  # not a C23 failure by itself; used to attribute consumer exceptions
    # the same object must answer the same name twice (keys are derived from it; optimisation loops compare names)
    try:
        n1, n2, n3 = r.name, r.name, r.expr._name
    except Exception as e:
        n1 = n2 = n3 = None
    if not (n1 == n2 == n3):
        return labs, [(f"name-unstable|{tag}", f"three reads of the name of one random array: {n1}, {n2}, {n3}")], None
    exact = prog_exact(prog)
    tol = {"rtol": 0.0, "atol": 0.0}

    def set_tolerance(R):
        """rtol 1e-12 (64 eps for float32 data) on the largest magnitude, plus the rounding
        of re-associated sums: 1024 eps * sum|R| (a sum of a centred sample can be ~0)."""
        if exact:
            return
        eps = float(np.finfo(R.dtype).eps) if R.dtype.kind == "f" else float(np.finfo("f8").eps)
        mass = float(np.sum(np.abs(R.astype("f8")))) if R.size else 0.0
        tol["rtol"] = max(RTOL, 64 * eps)
        tol["atol"] = 1024 * eps * max(1.0, mass)

    def fail(kind, detail):
        fails.append((f"{kind}|{tag}", detail))

    # Every "value is not the one of realisation R" observation of the case goes
    # into ONE bucket (realisation-differs|tag): recompute, optimize-graph flag,
    # derived program, re-built derived program, forms.  They are symptoms of
    # one thing -- the node did not keep its per-block seeds.
    unstable = []

    def differs(check, detail):
        unstable.append((check, detail))

    def raised(stage, e, label=""):
        """An exception is bucketed by type and innermost dask_array frame only: the same
        root cause surfaces at several stages (metadata, compute, a consumer's build) and
        NumPy words one broadcast failure differently per distribution."""
        b = f"raises|{tag}|{type(e).__name__}|{util.innermost_repo_frame(e)}"
        if meta_rank_bad and stage != "base-compute":
            # r advertises a _meta of the wrong rank: consumers that consult it (concatenate, None-indexing, ...)
            # fail in their own ways; the root cause is the one broken precondition
            b = f"raises|{tag}|meta-rank-mismatch"
        if not any(b == b0 for b0, _ in fails):
            fails.append((b, f"stage={stage} {label}\n{util.exc_detail(e)}"))

    def derived(label):
        """Build and compute the derived program once; None on refusal/failure."""
        stage = "build"
        try:
            y = da_prog(r, prog)
            stage = "compute"
            return y, np.asarray(y.compute())
        except NotImplementedError:
            labs.append("refused-NotImplementedError")
            return None, None
        except Exception as e:
            raised(f"derived-{stage}", e, label)
            return None, None

    def cmp_derived(Y, R, label):
        if Y is None or R is None:
            return
        exp = np_prog(R, prog)
        why = util.same(Y, exp, rtol=tol["rtol"], atol=tol["atol"])
        if why is not None:
            differs("derived-differs", f"{label}: {why}\n prog={util.canon(prog)}\n got={util.short(Y)}\n exp={util.short(exp)}")

    def base(label, flag):
        try:
            with dask.config.set({"array.optimize-graph": flag}):
                return np.asarray(r.compute())
        except Exception as e:
            raised("base-compute", e, label)
            return None

    ctr.on = True  # from here on every Random-family construction is a re-instantiation
    flag = bool(case["opt"])
    keep_alive = []
    R = Y = None
    # ---- phase A: the ordered first computes
    with dask.config.set({"array.optimize-graph": flag}):
        if case["order"] == "base-first":
            R = base("first compute", flag)
            if R is None:
                return labs, fails, None
            if case["gc"]:
                gc.collect()
            if prog:
                y, Y = derived("first derived compute (after base)")
                if case["keep"]:
                    keep_alive.append(y)
                del y
        else:
            if prog:
                y, Y = derived("first derived compute (before base)")
                if case["keep"]:
                    keep_alive.append(y)
                del y
            if case["gc"]:
                gc.collect()
            R = base("first compute (after derived)", flag)
            if R is None:
                return labs, fails, None
    obs = observe(r, R)
    set_tolerance(R)
    # advertised metadata
    try:
        adv_shape, adv_dtype = tuple(r.shape), r.dtype
    except Exception as e:
        raised("base-metadata", e, "r.shape / r.dtype")
        adv_shape = adv_dtype = None
    if adv_shape is not None:
        if tuple(R.shape) != adv_shape and not any(isinstance(s_, float) and s_ != s_ for s_ in adv_shape):
            fail("base-shape", f"advertised shape {adv_shape}, computed {R.shape}")
        elif R.dtype != adv_dtype:
            fail("base-dtype", f"advertised dtype {adv_dtype}, computed {R.dtype}")
    cmp_derived(Y, R, f"order={case['order']} keep={case['keep']} gc={case['gc']} opt={flag}")

    # ---- phase B: repeated computes, both optimize-graph settings
    for i, fl in enumerate((not flag, flag)):
        if case["gc"]:
            gc.collect()
        R2 = base(f"recompute {i} opt={fl}", fl)
        if R2 is not None and digest(R2) != obs["digest"]:
            why = util.same(R2, R, rtol=0.0, atol=0.0) or "bitwise different"
            differs("recompute-differs" if fl == flag else "optflag-differs", f"recompute {i} with optimize-graph={fl}: {why}\n first={util.short(R)}\n later={util.short(R2)}")
            break
    if prog:
        with dask.config.set({"array.optimize-graph": not flag}):
            y2, Y2 = derived("second derived compute")
        cmp_derived(Y2, R, f"re-built derived program, opt={not flag}")
        # ---- forms of the derived program, optimisation off
        if y2 is not None:
            try:
                raw = y2.expr
                simp = raw.simplify()
                low = simp.lower_completely()
                fused = low.fuse()
                forms = (("raw", raw), ("simplified", simp), ("lowered", low), ("fused", fused))
            except NotImplementedError:
                labs.append("refused-NotImplementedError")
                forms = ()
            except Exception as e:
                raised("optimize", e, "simplify/lower_completely/fuse of the derived program")
                forms = ()
            exp = np_prog(R, prog)
            for fname, ex in forms:
                try:
                    v = _compute_expr(ex)
                except Exception as e:
                    raised(f"form-{fname}-compute", e)
                    continue
                why = util.same(v, exp, rtol=tol["rtol"], atol=tol["atol"])
                if why is not None:
                    differs(f"form-differs:{fname}", f"{fname} form vs twin(R): {why}\n prog={util.canon(prog)}\n got={util.short(v)}\n exp={util.short(exp)}")
            if forms and fused_with_consumer(forms[-1][1], rand_classes):
                labs.append("fused-with-consumer")
        del y2
    # one more recompute after all of that
    R3 = base("recompute after derived programs", flag)
    if R3 is not None and digest(R3) != obs["digest"]:
        differs("recompute-differs", f"recompute after the derived programs: {util.same(R3, R, rtol=0.0, atol=0.0)}\n first={util.short(R)}\n later={util.short(R3)}")
    reinst = ctr.n
    ctr.on = False
    if reinst:
        labs.append("random-reinstantiated")
        for k_ in ctr.by:
            labs.append("reinstantiated:" + k_)

    # ---- consecutive draws: different realisations, distinct names, usable together
    other = prev[-1] if prev else (nxt[0] if nxt else None)
    collided = False
    if other is not None:
        labs.append("neighbour-draw")
        O = None
        try:
            O = np.asarray(other.compute())
        except Exception as e:
            raised("neighbour-compute", e)
        if O is not None:
            same_vals = O.shape == R.shape and np.array_equal(O, R, equal_nan=True)
            if other.name == r.name and not same_vals:
                collided = True
                fail("name-collision|consecutive", f"two arrays drawn from one generator share the name {r.name} but differ")
            bound = collision_bound(case)
            if bound <= ENTROPY:
                labs.append("consecutive-checked")
                if same_vals:
                    fail("consecutive-draws-identical", f"draws {case['k'] - 1 if prev else case['k']} and {case['k'] if prev else case['k'] + 1} of one generator are equal (names {other.name} / {r.name}); collision bound {bound:.3g}")
                else:
                    labs.append("consecutive-differ")
            O2 = np.asarray(other.compute())
            if not (O2.shape == O.shape and O2.dtype == O.dtype and O2.tobytes() == O.tobytes()):
                differs("recompute-differs:neighbour", "a neighbouring draw of the same generator changed between computes")
            # a program over BOTH draws: first on its own, then while a same-shaped
            # program over (r, r) is alive (expressions are interned by name)
            if not collided and not (other.name == r.name):
                expZ = (O - R) if prev else (R - O)
                # (the aliased variant first: expressions are interned by name in a weak table, so the
                # outcome depends on which same-named expression was built first and is still alive)
                for variant in ("with r - r alive", "alone"):
                    gc.collect()
                    try:
                        alias = (r - r) if variant != "alone" else None
                        pair = (other - r) if prev else (r - other)
                        pname = pair.name
                        Z = np.asarray(pair.compute())
                        aname = alias.name if alias is not None else None
                        del pair, alias
                    except Exception as e:
                        raised("pair", e, variant)
                        break
                    why = util.same(Z, expZ, rtol=RTOL, atol=0.0)
                    if why is not None:
                        fail("pair-differs", f"(a - b) over two consecutive draws a, b of one generator ({variant}) vs A - B: {why}\n name of a-b: {pname}; name of r-r: {aname}\n got={util.short(Z)}\n exp={util.short(expZ)}")
                        break

    # ---- rebuild in-process
    rebuilt = []
    try:
        _, _, r2, _ = build_base(case)
        name2 = r2.name
        R4 = np.asarray(r2.compute())
    except Exception as e:
        raised("rebuild", e)
        r2 = None
    if r2 is not None:
        if name2 != r.name:
            rebuilt.append(f"name: {r.name} vs rebuilt {name2}")
        if digest(R4) != obs["digest"]:
            rebuilt.append(f"values: {util.same(R4, R, rtol=0.0, atol=0.0)}\n first={util.short(R)}\n rebuilt={util.short(R4)}")
    del r2
    if unstable:
        kinds = sorted({c for c, _ in unstable})
        fail("realisation-differs", "checks that saw other values than R: " + ", ".join(kinds) + (" (+ in-process rebuild)" if rebuilt else "") + "\n" + unstable[0][1])
        obs["unstable"] = True
    elif rebuilt:
        # only meaningful when R itself was stable within the process
        fail("rebuild-differs", "in-process rebuild with the same kind/seed/history/parameters/shape/chunks:\n" + "\n".join(rebuilt))

    # ---- same seed/shape, other chunking: equal names must mean equal values
    if case.get("alt_chunks") is not None and case["alt_chunks"] != case["chunks"]:
        try:
            _, _, r5, _ = build_base(case, chunks=case["alt_chunks"])
            R5 = np.asarray(r5.compute())
            labs.append("alt-chunking")
            if r5.name == r.name and digest(R5) != obs["digest"] and not unstable and not rebuilt:
                fail("name-collision|chunks", f"chunks {case['chunks']} and {case['alt_chunks']} give the same name {r.name} but different values")
            if tuple(R5.shape) != tuple(R.shape):
                fail("base-shape", f"alt chunking: computed {R5.shape}, expected {R.shape}")
        except NotImplementedError:
            pass
        except Exception as e:
            raised("alt-chunks", e)
    del keep_alive
    return labs, fails, obs


def compare_fresh(case, obs, out, tag):
    """Failures from the fresh-interpreter rebuild of one case."""
    if obs.get("unstable"):
        return []  # R was not even stable inside the process (already reported): nothing to compare with
    if "error" in out:
        return [(f"fresh-raises|{tag}|" + util.norm_msg(out["error"], 60), out.get("tb", out["error"]))]
    what = []
    if out["name"] != obs["name"]:
        what.append(f"name: in-process {obs['name']} vs fresh interpreter {out['name']}")
    if out["digest"] != obs["digest"]:
        what.append(f"values: in-process shape={obs['shape']} dtype={obs['dtype']} digest={obs['digest']}; fresh shape={out['shape']} dtype={out['dtype']} digest={out['digest']}")
    if what:
        return [(f"fresh-differs|{tag}", "rebuild in a fresh interpreter (other PYTHONHASHSEED):\n" + "\n".join(what))]
    return []


# ---- structural predicates a known-findings entry can name ("predicate": "c23:...") ----


def _register_predicates():
    from vf import known

    known.PREDICATES["c23:array-params"] = lambda c: bool(array_param_names(c["dist"]))
    known.PREDICATES["c23:array-params-normal-poisson"] = lambda c: bool(array_param_names(c["dist"])) and c["dist"]["name"] in ("normal", "poisson")
    known.PREDICATES["c23:array-params-generic"] = lambda c: bool(array_param_names(c["dist"])) and c["dist"]["name"] not in ("normal", "poisson")
    known.PREDICATES["c23:choice"] = lambda c: c["dist"]["name"] == "choice"
    known.PREDICATES["c23:choice-int-population-concat"] = lambda c: c["dist"]["name"] == "choice" and isinstance(c["dist"]["a"], int) and any(s["op"] == "concat_self" for s in c["prog"])
    known.PREDICATES["c23:neighbour-draw"] = lambda c: c["k"] >= 1 or c["after"] >= 1


_register_predicates()


def case_tag(case, labs):
    cls = next((lab.split(":", 1)[1] for lab in labs if lab.startswith("node:")), "?")
    return f"{cls}|{'array-params' if array_param_names(case['dist']) else 'scalar-params'}"


# ---------------------------------------------------------------------------
# fresh interpreter


def run_driver(cases, hashseed="4711"):
    env = dict(os.environ)
    env.update(
        {
            "PYTHONPATH": repo_dir() + os.pathsep + util.verif_dir(),
            "VERIF_REPO": repo_dir(),
            "PYTHONHASHSEED": str(hashseed),
            "PYTHONWARNINGS": "ignore",
            "PYTHONDONTWRITEBYTECODE": "1",
            "OMP_NUM_THREADS": "1",
            "OPENBLAS_NUM_THREADS": "1",
            "MKL_NUM_THREADS": "1",
            "NUMEXPR_NUM_THREADS": "1",
        }
    )
    try:
        p = subprocess.run([sys.executable, "-P", DRIVER], input=json.dumps({"cases": cases}), capture_output=True, text=True, timeout=TIMEOUT, env=env, cwd=tempfile.gettempdir())
    except subprocess.TimeoutExpired:
        raise RuntimeError(f"C23 driver timed out after {TIMEOUT}s on {len(cases)} cases")
    pos = p.stdout.rfind(MARK)
    if p.returncode != 0 or pos < 0:
        raise RuntimeError(f"C23 driver crashed rc={p.returncode}\nstderr: {p.stderr[-1500:]}")
    out = json.loads(p.stdout[pos + len(MARK) :].strip().splitlines()[0])
    if "driver_error" in out:
        raise RuntimeError(f"C23 driver error: {out['driver_error']}")
    f = out.get("dask_array_file")
    if f is None or not os.path.abspath(f).startswith(repo_dir() + os.sep):
        raise RuntimeError(f"C23 subprocess imported dask_array from {f}, not {repo_dir()}")
    if out.get("hashseed") == os.environ.get("PYTHONHASHSEED"):
        raise RuntimeError("C23 subprocess runs with the parent's PYTHONHASHSEED")
    res = out["results"]
    if len(res) != len(cases):
        raise RuntimeError("C23 driver returned a wrong number of results")
    return res


def replay(case):
    try:
        labs, fails, obs = run_case(case)
    except Refused as e:
        raise AssertionError(f"rejected: {e}")
    if case.get("fresh") and obs is not None:
        out = run_driver([case])[0]
        fails = list(fails) + compare_fresh(case, obs, out, case_tag(case, labs))
    return fails


# ---------------------------------------------------------------------------
# generation

AXLEN = [(0, 1), (1, 2), (2, 3), (3, 3), (4, 3), (5, 2), (6, 3), (7, 1), (8, 2), (9, 1)]


def gen_arr_operand(D_, shape, base, step):
    rank = len(shape)
    m = D_.int(1, rank)
    bshape = [int(n) for n in shape[rank - m :]]
    for i in range(len(bshape)):
        if D_.chance(1, 3):
            bshape[i] = 1
    kind = D_.choice(["np", "da", "da"])
    spec = {"arr": kind, "bshape": bshape, "base": base, "step": step, "mod": D_.choice([1, 3, 5, 7])}
    if kind == "da":
        spec["chunks"] = [list(c) for c in gchunks.array_chunks(D_, bshape)]
    return spec


def gen_dist(D_, family, shape, chunks):
    avail = DISTS[family]
    rank = len(shape)
    weights = {"random": 5, "standard_normal": 2, "normal": 9, "uniform": 3, "integers": 4, "poisson": 5, "binomial": 2, "exponential": 2, "choice": 4 if rank >= 1 else 1, "permutation": 3 if rank >= 1 else 0}
    name = D_.weighted([(n, weights[n]) for n in avail])
    d = {"name": name}
    arr_ok = rank >= 1
    if name == "random":
        if family == "generator":
            dt = D_.choice([None, "f8", "f4"])
            if dt:
                d["dtype"] = dt
    elif name == "normal":
        d["loc"] = D_.choice([0.0, -2.5, 10.0])
        d["scale"] = D_.choice([1.0, 0.5, 3.0])
        if arr_ok and D_.chance(3, 5):
            which = D_.choice(["loc", "scale", "both"])
            if which in ("loc", "both"):
                d["loc"] = gen_arr_operand(D_, shape, D_.choice([-1.0, 0.0, 4.0]), D_.choice([0.5, 1.0]))
            if which in ("scale", "both"):
                d["scale"] = gen_arr_operand(D_, shape, D_.choice([0.5, 1.0]), D_.choice([0.25, 1.0]))
    elif name == "uniform":
        d["low"] = D_.choice([0.0, -3.0, 2.0])
        d["high"] = d["low"] + D_.choice([1.0, 0.5, 10.0])
        single = gchunks.nblocks(chunks) == 1
        if arr_ok and D_.chance(1, 2 if single else 8):
            # array-valued bound of the generic Random node (operands live in a tuple operand)
            d["high"] = gen_arr_operand(D_, shape, d["low"] + 1.0, 0.5)
    elif name == "exponential":
        d["scale"] = D_.choice([1.0, 0.5, 4.0])
    elif name == "poisson":
        d["lam"] = D_.choice([1.0, 0.5, 3.5, 40.0, 1000.0])
        if arr_ok and D_.chance(1, 2):
            d["lam"] = gen_arr_operand(D_, shape, D_.choice([0.5, 2.0, 30.0]), D_.choice([1.0, 2.5]))
    elif name == "binomial":
        d["n"] = D_.choice([1, 10, 1000])
        d["p"] = D_.choice([0.5, 0.1, 0.9])
    elif name == "integers":
        lo = D_.choice([0, -5, 100])
        d["low"] = lo
        d["high"] = lo + D_.choice([1, 2, 10, 1000, 10**6])
        d["dtype"] = D_.choice(["i8", "i8", "i4"])
        if family == "generator":
            d["endpoint"] = D_.chance(1, 3)
    elif name == "choice":
        n = D_.choice([1, 5, 12, 1000003])
        d["a"] = n if D_.chance(2, 3) or n > 64 else {"n": n}
        if n <= 64 and D_.chance(1, 3):
            d["p"] = True
        d["replace"] = True
        if rank >= 1 and len(chunks[0]) == 1 and int(np.prod([max(c) for c in chunks])) <= n and D_.chance(1, 2):
            d["replace"] = False
    return d


def gen_step(D_, a, depth):
    """One step valid for the NumPy value ``a`` (zeros of the current shape/dtype)."""
    shape = a.shape
    rank = a.ndim
    kinds = [("slice", 8), ("rechunk", 5), ("transpose", 3 if rank >= 2 else 1), ("sub_self", 2), ("scalar", 3), ("where_gt", 2), ("reduce", 5), ("concat_self", 2 if rank >= 1 and a.size <= 400 else 0), ("affine", 5), ("pickle", 3), ("persist", 2)]
    try:
        np.broadcast_shapes(shape, shape[::-1])
        kinds.append(("add_T", 3 if rank >= 2 else 1))
    except ValueError:
        pass
    even = [ax for ax in range(rank) if shape[ax] % 2 == 0]
    if even:
        kinds.append(("evenodd", 3))
    if rank in (1, 2) and shape[-1] >= 2 and (rank == 1 or shape[0] in (1, shape[-1])) and a.dtype.kind in "if":
        # the random array next to a deterministic sibling that is read through two block patterns (y + y.T):
        # the sibling is thrown back out of the first fusion group and fused on a later pass
        kinds.append(("sibling_T", 4))
    op = D_.weighted(kinds)
    if op == "sibling_T":
        return {"op": "sibling_T", "c": D_.int(1, max(1, shape[-1] - 1))}
    if op == "slice":
        return {"op": "slice", "index": gidx.enc(gidx.gen_basic_index(D_, shape))}
    if op == "rechunk":
        return {"op": "rechunk", "chunks": [list(c) for c in gchunks.array_chunks(D_, shape)]}
    if op == "transpose":
        return {"op": "transpose", "axes": D_.perm(rank)}
    if op == "scalar":
        fn = D_.choice(["add", "mul", "rsub", "neg"])
        return {"op": "scalar", "fn": fn, "c": D_.choice([2, 3, -1, 0.5] if a.dtype.kind == "f" else [2, 3, -1])}
    if op == "where_gt":
        return {"op": "where_gt", "t": D_.choice([0, 1, 3] if a.dtype.kind != "f" else [0.0, 0.5, 1.0, -0.5])}
    if op == "reduce":
        fn = D_.choice(["sum", "sum", "mean", "max"]) if a.size > 0 else "sum"
        if rank == 0:
            axis = None
        else:
            k = D_.weighted([("none", 2), ("int", 5), ("tuple", 2)])
            if k == "none":
                axis = None
            elif k == "int":
                axis = D_.int(-rank, rank - 1)
            else:
                axis = sorted(D_.subset(range(rank), 1))
        s = {"op": "reduce", "fn": fn, "axis": axis, "keepdims": D_.chance(1, 3)}
        se = D_.choice([None, None, 2, 3])
        if se is not None:
            s["split_every"] = se
        return s
    if op == "evenodd":
        return {"op": "evenodd", "axis": D_.choice(even)}
    if op == "concat_self":
        return {"op": "concat_self", "axis": D_.int(0, rank - 1)}
    return {"op": op}


@st.composite
def case_strategy(draw):
    D_ = D(draw)
    gen = D_.weighted([(k, 5 if k in ("default_rng", "RandomState") else (3 if k == "module" else 2)) for k in KINDS])
    family = KINDS[gen]
    rank = D_.weighted([(0, 1), (1, 4), (2, 6), (3, 3)])
    shape = [D_.weighted(AXLEN) for _ in range(rank)]
    chunks = [list(c) for c in gchunks.array_chunks(D_, shape)]
    dist = gen_dist(D_, family, shape, chunks)
    if dist["name"] == "permutation" and rank == 0:
        dist = {"name": "random"}
    case = {"gen": gen, "seed": D_.choice([0, 1, 42, D_.int(0, 2**32 - 1)]), "k": D_.weighted([(0, 3), (1, 3), (2, 1)]), "after": D_.weighted([(0, 2), (1, 1)]), "dist": dist, "shape": shape, "chunks": chunks}
    # derived program
    nsteps = D_.weighted([(0, 1), (1, 5), (2, 5), (3, 3), (4, 1)])
    prog = []
    a = np.zeros(shape, dtype=base_dtype(case))
    for i in range(nsteps):
        s = gen_step(D_, a, i)
        try:
            with np.errstate(all="ignore"):
                b = np_step(a, s)
        except Exception:
            continue
        if b.size > 4000:
            continue
        prog.append(s)
        a = b
    case["prog"] = prog
    case["order"] = D_.choice(["base-first", "derived-first"])
    case["keep"] = D_.chance(1, 2)
    case["gc"] = D_.chance(1, 2)
    case["opt"] = D_.chance(2, 3)
    alt = None
    if D_.chance(1, 3):
        alt = [list(c) for c in gchunks.array_chunks(D_, shape)]
        if dist["name"] == "choice" and not dist.get("replace", True) and (len(alt[0]) != 1 or int(np.prod([max(c) for c in alt])) > (dist["a"] if isinstance(dist["a"], int) else dist["a"]["n"])):
            alt = None
    case["alt_chunks"] = alt
    case["fresh"] = D_.chance(1, 3)
    return case


def nontrivial(labels):
    return "multi-block" in labels and ("random-reinstantiated" in labels or "fused-with-consumer" in labels)


def run_shard(spec, seed):
    col = Collector()
    budget = {"batches": spec.get("fresh_batches", 2), "size": spec.get("fresh_batch", 12)}
    pending = []
    hangs = []

    def flush():
        if not pending:
            return
        outs = run_driver([c for c, _, _ in pending])
        for (c, obs, tag), out in zip(pending, outs):
            for b, d in compare_fresh(c, obs, out, tag):
                col.fail(b, c, d)
        col.label("fresh-subprocesses")
        del pending[:]
        budget["batches"] -= 1

    @hypothesis.seed(seed)
    @settings(max_examples=spec["cases"], database=None, deadline=None, derandomize=False, phases=[Phase.generate], suppress_health_check=list(HealthCheck))
    @given(case_strategy())
    def body(case):
        if case["fresh"] and budget["batches"] <= 0:
            case = dict(case)
            case["fresh"] = False
        try:
            labs, fails, obs = run_case(case)
        except CaseHang as e:
            # never a verdict, but it must not hide the failures of the other cases either: skip and count;
            # a shard that saw hangs and no failure at all aborts below (harness error)
            hangs.append(str(e))
            col.reject("hang:watchdog")
            return
        except Refused as e:
            col.reject(str(e))
            return
        except AssertionError as e:
            col.reject("invalid:" + str(e)[:60])
            return
        if case["fresh"] and obs is not None:
            labs = labs + ["fresh-process"]
            pending.append((case, obs, case_tag(case, labs)))
        col.case(case, nontrivial(labs), labs)
        for b, d in fails:
            col.fail(b, case, d)
        if len(pending) >= budget["size"]:
            flush()

    body()
    flush()
    if hangs and not col.failures:
        raise RuntimeError(f"{len(hangs)} case(s) hit the {WATCHDOG}s watchdog and the shard found no failure: {hangs[0]}")
    return col.result()


def plan(tier):
    scale = float(os.environ.get("VERIF_SCALE", "1"))
    if tier == "quick":
        n, k, fb, fs = 2000, 16, 2, 12
    else:
        n, k, fb, fs = 48000, 48, 6, 20
    per = max(5, int(n * scale / k))
    return [{"cases": per, "fresh_batches": fb, "fresh_batch": fs} for _ in range(k)]


# ---------------------------------------------------------------------------
# shrinking


def _simplified_dist(d):
    out = []
    for p in array_param_names(d):
        lo, _ = _operand_range(d[p])
        c = dict(d)
        c[p] = lo if p != "high" else _operand_range(d[p])[1]
        out.append(c)
        if d[p]["arr"] == "da":
            c = json.loads(json.dumps(d))
            c[p]["arr"] = "np"
            c[p].pop("chunks", None)
            out.append(c)
        if d[p]["mod"] != 1:
            c = json.loads(json.dumps(d))
            c[p]["mod"] = 1
            out.append(c)
    return out


def shrink(case):
    def mod(**kw):
        c = json.loads(json.dumps(case))
        c.update(kw)
        return c

    if os.environ.get("C23_SHRINK") == "0":  # debugging knob: report failures un-minimised
        return
    if case.get("fresh"):
        yield mod(fresh=False)
    prog = case.get("prog", [])
    if prog:
        yield mod(prog=[])
    for i in range(len(prog)):
        yield mod(prog=prog[:i] + prog[i + 1 :])
    for f, v in (("alt_chunks", None), ("k", 0), ("after", 0), ("gc", False), ("keep", True), ("order", "base-first"), ("opt", True), ("seed", 0), ("gen", "default_rng")):
        if case.get(f) != v:
            yield mod(**{f: v})
    if case.get("k", 0) > 1:
        yield mod(k=1)
    for d in _simplified_dist(case["dist"]):
        yield mod(dist=d)
    shape = case["shape"]
    single = [[n] for n in shape]
    if case["chunks"] != single:
        yield mod(chunks=single)
    # fewer blocks / shorter axes (the program must stay valid: validate() rejects otherwise)
    for ax, c in enumerate(case["chunks"]):
        if len(c) > 2:
            nc = json.loads(json.dumps(case["chunks"]))
            nc[ax] = [c[0] + c[1]] + c[2:]
            yield mod(chunks=nc)
        if shape[ax] > 0 and not array_param_names(case["dist"]):
            nc = json.loads(json.dumps(case["chunks"]))
            ns = list(shape)
            ns[ax] -= 1
            if nc[ax][-1] > 1 or len(nc[ax]) == 1:
                nc[ax][-1] -= 1
            else:
                nc[ax] = nc[ax][:-1]
            yield mod(shape=ns, chunks=nc, alt_chunks=None)
    if case.get("fresh"):
        return  # every candidate of a fresh-interpreter failure costs a subprocess: structural candidates only
    from vf.runner import _generic_shrink

    yield from _generic_shrink(case)


GEN_LABELS = ["gen:" + k for k in KINDS]
REQUIRED_CLASSES = {
    "quick": GEN_LABELS + ["array-valued-params", "random-reinstantiated", "fused-with-consumer", "fresh-process", "sliced", "rechunked", "pickled", "persisted", "zero-length-axis", "multi-block", "consecutive-differ", "alt-chunking", "order:derived-first", "derived-temporary"],
    "thorough": GEN_LABELS + ["dist:" + d for d in sorted({d for v in DISTS.values() for d in v})] + ["array-valued-params", "random-reinstantiated", "fused-with-consumer", "fresh-process", "sliced", "rechunked", "pickled", "persisted", "zero-length-axis", "multi-block", "consecutive-differ", "alt-chunking", "order:derived-first", "derived-temporary"],
}
