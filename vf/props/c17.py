"""C17 — chunk unification aligns operands without changing values or inflating blocks.

Three entry points are driven with the same generated operand sets:

* ``expr``   – ``dask_array._expr.unify_chunks_expr(e0, ind0, e1, ind1, ...)`` with explicit
  index tuples, the way ``Blockwise.chunks`` / ``Blockwise._lower`` / ``Elemwise._lower`` call it;
* ``public`` – ``da.unify_chunks(a, "ij", b, "j", ...)``;
* ``prog``   – real programs (``a + b [+ c + d]``, ``da.where(c, a, b)``, ``da.maximum(a, b) * c``
  and a ``da.blockwise`` call with a NumPy "align and add" function), executed with the harness'
  executor and compared with NumPy.

The configuration (``array.unify-chunks-policy``, ``array.unify-chunks-limit``) is read by
``unify_chunks_expr`` every time it runs: lazily at the first ``.chunks`` access of a
Blockwise/Elemwise node (construction time) and again in ``_lower`` (optimise/compute time).  The
engine therefore wraps construction, ``.chunks`` access, lowering and execution in one
``dask.config.set``; a minority of program cases ("drift") lower and execute under ANOTHER drawn
configuration to cover the two read sites separately.
"""

from __future__ import annotations

import itertools
import math
import os
import re
import warnings

import numpy as np

from vf import executor as E
from vf import util
from vf.gen import chunks as C
from vf.gen.draw import D
from vf.runner import Collector

PROPERTY = "C17"
RULE = (
    "Hypothesis draws 2-4 operands of rank 1-3 over output axes of length 1-24 (a few 0): full-rank, rank-deficient "
    "(trailing axes for elemwise, any subset / permuted order of index labels for unify_chunks_expr, da.unify_chunks and "
    "da.blockwise), size-1 broadcast axes, the same operand used twice (also transposed); per output axis the operands' "
    "layouts are drawn independently (vf.gen.chunks: single/ones/uniform/irregular/jitter) or as a related family: nested "
    "(coarsenings of one base), interleaved (boundaries alternate), roll-shifted (boundaries shifted mod n), identical; "
    "dtypes ?,u1,i2,i4,f4,f8,c8,c16 (byte ratios to 1:16); leaves are from_array, a third wrapped in an opaque map_blocks so "
    "a real Rechunk runs; policy in {auto, coarse, refine} x limit in {None, 0, 16B, 40, 64B, 1kiB, 512MiB} set around "
    "construction AND lowering/execution (1/6 of the programs lower under another drawn config). Entry points: "
    "unify_chunks_expr, da.unify_chunks, programs a+b(+c+d), where(c,a,b), maximum(a,b)*c, da.blockwise. Oracle: (i) every "
    "returned operand has the returned common layout on every non-size-1 axis, layouts sum to the axis length, shape/dtype/"
    "values of operands unchanged, and in lowered programs all operands of every aligning Blockwise node agree per index; "
    "(ii) policy refine: old block boundaries are a subset of new ones on every operand axis; (iii) limit enabled or policy "
    "refine: itemsize*prod(max new chunk per axis) <= max(limit, same for old chunks) per operand; (iv) program result equals "
    "NumPy (values, shape, dtype) and every produced block has the advertised chunk shape. Non-trivial: >= 2 operands carry "
    "different layouts on a shared non-broadcast axis; distinct = distinct case JSON."
)
ASSUMPTIONS = [
    "array.unify-chunks-limit None or 0 means 'no size guard' (code: `if limit and ...`; bench/bench_unify_policy.py calls limit 0 "
    "'unguarded'; __init__.py: the limit 'caps how large a chunk a merge may manufacture'): with the limit disabled the block-growth "
    "bound (iii) is NOT asserted for policies auto/coarse (it is asserted for refine, where it follows from splits-only)",
    "an operand's 'largest block' is itemsize * product over its axes of the largest chunk length (size-1 and zero-length axes included as they are)",
    "a size-1 axis broadcasts against a longer index and is excepted from the common layout; it must stay chunked (1,)",
    "for programs the operands' new layout is read off the advertised chunks of the node's result (axis by axis) and, "
    "independently, off the operands of aligning Blockwise nodes in expr.lower_completely(); which layout 'auto' picks is not asserted",
    "all chunk sizes are known (no NaN chunks), operands are arrays of rank >= 1 (no scalars / literal arguments), and operands are "
    "NumPy-broadcastable (an index has one length; operands carry it at that length or at length 1)",
    "leaves get unique names so that the per-expression cached `.chunks` of an earlier case (computed under another config) cannot be reused",
    "drift cases (lowering under another config than construction) assert values/shape/dtype/block shapes and alignment of the lowered "
    "operands only; (ii)/(iii) are asserted on the advertised chunks against the construction-time config",
]

POLICIES = ("auto", "coarse", "refine")
LIMITS = (None, 0, "16B", 40, "64B", "1kiB", "512MiB")
DTYPES = ("?", "u1", "i2", "i4", "f4", "f8", "c8", "c16")
ENTRIES = ("expr", "public", "prog")
PROGS = ("add", "where", "maxmul", "blockwise")
ARITY = {"add": 2, "where": 3, "maxmul": 3, "blockwise": 1}
LETTERS = "ijk"
MAX_BLOCKS = 400

_CTR = itertools.count()
_UNITS = {"B": 1, "kiB": 1024, "MiB": 1024**2, "GiB": 1024**3}


# ---------------------------------------------------------------------------
# small independent helpers


def limit_bytes(limit):
    """Bytes of a limit setting, None when the guard is disabled."""
    if limit is None or limit == 0:
        return None
    if isinstance(limit, int):
        return limit
    m = re.fullmatch(r"(\d+)\s*(B|kiB|MiB|GiB)", limit)
    assert m, limit
    return int(m.group(1)) * _UNITS[m.group(2)]


def limit_label(limit):
    return "limit:" + ("none" if limit is None else str(limit))


def bounds(ch):
    """Internal block boundaries of one axis layout."""
    return set(itertools.accumulate(ch[:-1]))


def from_bounds(bs, n):
    b = [0] + sorted(bs) + [n]
    return tuple(b[i + 1] - b[i] for i in range(len(b) - 1))


def block_bytes(chunks, itemsize):
    return itemsize * math.prod(max(c) for c in chunks)


def tup(chunks):
    return tuple(tuple(int(x) for x in c) for c in chunks)


def op_shape(op):
    return tuple(sum(c) for c in op["chunks"])


# ---------------------------------------------------------------------------
# case validation


def validate(case):
    assert isinstance(case, dict)
    assert case.get("entry") in ENTRIES
    assert case.get("policy") in POLICIES
    lim = case.get("limit")
    assert lim is None or (isinstance(lim, int) and not isinstance(lim, bool) and lim >= 0) or (isinstance(lim, str) and limit_bytes(lim) is not None)
    dims = case.get("dims")
    assert isinstance(dims, list) and 1 <= len(dims) <= 3
    assert all(isinstance(n, int) and not isinstance(n, bool) and 0 <= n <= 64 for n in dims)
    ops = case.get("ops")
    assert isinstance(ops, list) and 1 <= len(ops) <= 4
    R = len(dims)
    for k, op in enumerate(ops):
        assert isinstance(op, dict) and op.get("dtype") in DTYPES
        ind = op.get("ind")
        ch = op.get("chunks")
        assert isinstance(ind, list) and isinstance(ch, list) and 1 <= len(ind) == len(ch) <= R
        assert len(set(ind)) == len(ind) and all(isinstance(j, int) and not isinstance(j, bool) and 0 <= j < R for j in ind)
        for j, c in zip(ind, ch):
            assert isinstance(c, list) and len(c) >= 1 and all(isinstance(x, int) and not isinstance(x, bool) for x in c)
            assert c == [0] or all(x > 0 for x in c)
            s = sum(c)
            assert s == dims[j] or s == 1
        assert isinstance(op.get("opaque", False), bool)
        al = op.get("alias")
        if al is not None:
            assert isinstance(al, int) and not isinstance(al, bool) and 0 <= al < k and ops[al].get("alias") is None
            assert ops[al]["chunks"] == ch and ops[al]["dtype"] == op["dtype"] and bool(ops[al].get("opaque")) == bool(op.get("opaque"))
    if case["entry"] == "prog":
        prog = case.get("prog")
        assert prog in PROGS and len(ops) >= ARITY[prog]
        if prog != "blockwise":
            for op in ops:
                k = len(op["ind"])
                assert op["ind"] == list(range(R - k, R))
        drift = case.get("drift")
        if drift is not None:
            assert isinstance(drift, dict) and drift.get("policy") in POLICIES
            dl = drift.get("limit")
            assert dl is None or (isinstance(dl, int) and not isinstance(dl, bool) and dl >= 0) or (isinstance(dl, str) and limit_bytes(dl) is not None)
    else:
        assert case.get("drift") is None


def eff_sizes(case):
    """Length of each index as the non-broadcast carriers see it (1 when all carriers have size 1)."""
    eff = {}
    for op in case["ops"]:
        for j, c in zip(op["ind"], op["chunks"]):
            s = sum(c)
            if s != 1 or j not in eff:
                if s != 1:
                    eff[j] = s
                else:
                    eff.setdefault(j, 1)
    return eff


def carriers(case):
    """label -> list of layouts (tuples) of operands whose axis is not size 1."""
    out = {}
    for op in case["ops"]:
        for j, c in zip(op["ind"], op["chunks"]):
            if sum(c) != 1:
                out.setdefault(j, []).append(tuple(c))
    return out


def refinement_blocks(case):
    tot = 1
    for j, lays in carriers(case).items():
        bs = set()
        for c in lays:
            bs |= bounds(c)
        tot *= len(bs) + 1
    return tot


# ---------------------------------------------------------------------------
# labels


def static_labels(case):
    ops = case["ops"]
    labs = ["policy:" + case["policy"], limit_label(case["limit"]), f"n={len(ops)}", f"rank={len(case['dims'])}", "entry:" + case["entry"]]
    if case["entry"] == "prog":
        labs.append("prog:" + case["prog"])
        if case.get("drift") is not None:
            labs.append("drift")
    if limit_bytes(case["limit"]) is None:
        labs.append("limit-disabled")
    eff = eff_sizes(case)
    maxrank = max(len(op["ind"]) for op in ops)
    if any(len(op["ind"]) < maxrank for op in ops):
        labs.append("rank-deficient")
    if any(sum(c) == 1 and eff.get(j, 1) != 1 for op in ops for j, c in zip(op["ind"], op["chunks"])):
        labs.append("broadcast-axis")
    if any(sum(c) == 0 for op in ops for c in op["chunks"]):
        labs.append("zero-length-axis")
    if any(op.get("alias") is not None for op in ops):
        labs.append("dup-operand")
        if any(op.get("alias") is not None and op["ind"] != ops[op["alias"]]["ind"] for op in ops):
            labs.append("dup-operand-transposed")
    if any(op["ind"] != sorted(op["ind"]) for op in ops):
        labs.append("permuted-index")
    if any(op.get("opaque") for op in ops):
        labs.append("opaque-leaf")
    sizes = [np.dtype(op["dtype"]).itemsize * max(1, math.prod(op_shape(op))) for op in ops]
    if max(sizes) >= 8 * min(sizes):
        labs.append("byte-ratio>=8")
    isz = [np.dtype(op["dtype"]).itemsize for op in ops]
    if max(isz) >= 8 * min(isz):
        labs.append("itemsize-ratio>=8")
    rel = relations(case)
    for j, r in rel.items():
        for name in ("disagree", "nested", "interleaved", "nested-all"):
            if r[name] and name not in labs:
                labs.append(name)
    # input-derived opportunity classes (independent of what the code chooses)
    limb = limit_bytes(case["limit"])
    for j, r in rel.items():
        if not r["nested-all"]:
            continue
        a = r["coarsest"]
        at_a = moving = 0
        for op in ops:
            if j not in op["ind"]:
                continue
            p = op["ind"].index(j)
            old = tup(op["chunks"])
            if sum(old[p]) == 1 or len(old[p]) <= 1:
                continue
            isz = np.dtype(op["dtype"]).itemsize
            nbytes = isz * math.prod(op_shape(op))
            if old[p] == a:
                at_a += nbytes
                continue
            moving += nbytes
            merged = old[:p] + (a,) + old[p + 1 :]
            if case["policy"] != "refine" and limb is not None and block_bytes(merged, isz) > max(limb, block_bytes(old, isz)):
                if "merge-would-exceed-limit" not in labs:
                    labs.append("merge-would-exceed-limit")
        if case["policy"] == "auto" and limb is None:
            if moving >= 8 * at_a > 0 and "auto:heavy-fine-vs-light-coarse" not in labs:
                labs.append("auto:heavy-fine-vs-light-coarse")
            if at_a >= 2 * moving > 0 and "auto:light-fine-vs-heavy-coarse" not in labs:
                labs.append("auto:light-fine-vs-heavy-coarse")
    return labs


def relations(case):
    """Per index label: how the carriers' layouts relate."""
    out = {}
    for j, lays in carriers(case).items():
        distinct = sorted(set(lays))
        multi = [c for c in distinct if len(c) > 1]
        r = {"disagree": len(distinct) >= 2, "nested": False, "interleaved": False, "nested-all": False, "multi": multi}
        for a, b in itertools.combinations(multi, 2):
            ba, bb = bounds(a), bounds(b)
            if ba <= bb or bb <= ba:
                r["nested"] = True
            else:
                r["interleaved"] = True
        if len(multi) >= 2:
            coarsest = min(multi, key=len)
            r["coarsest"] = coarsest
            r["nested-all"] = all(bounds(coarsest) <= bounds(c) for c in multi)
        fine = set()
        for c in lays:
            fine |= bounds(c)
        r["fine"] = from_bounds(fine, sum(lays[0]))
        out[j] = r
    return out


def outcome_labels(case, common, policy=None, limit="unset"):
    """Labels derived from the layout the code chose (``common``: label -> chunks). Evidence only."""
    policy = policy or case["policy"]
    limit = case["limit"] if limit == "unset" else limit
    limb = limit_bytes(limit)
    labs = set()
    for j, r in relations(case).items():
        if j not in common or not r["disagree"]:
            continue
        got = tuple(common[j])
        fine = r["fine"]
        if got == fine:
            labs.add("chose-refinement")
        if r["nested-all"]:
            a = r["coarsest"]
            if got == a and a != fine:
                labs.add("merge-accepted")
            elif got == fine and a != fine:
                if policy == "coarse" and limb is not None:
                    labs.add("size-guard-fallback")
                elif policy == "auto" and (limb is None or limb >= 2**20):
                    labs.add("merge-refused")
                elif policy == "auto":
                    labs.add("refined-by-cost-or-guard")
        elif len(r["multi"]) >= 2:
            if got != fine and got in r["multi"] and policy == "auto":
                labs.add("realigned")
            if got == fine and policy != "refine" and limb is not None and limb < 2**20:
                labs.add("interleaved-refined-under-limit")
    return sorted(labs)


# ---------------------------------------------------------------------------
# building operands


def np_operand(k, shape, dtype):
    n = int(math.prod(shape))
    base = (np.arange(n, dtype=np.int64) * (2 * k + 3) + k) % 7 - 2  # -2..4, zeros included
    dt = np.dtype(dtype)
    if dt.kind == "b":
        arr = base % 3 != 0
    elif dt.kind == "c":
        arr = base + 1j * ((base * 3) % 5 - 1)
    else:
        arr = base
    return np.asarray(arr).reshape(shape).astype(dt)


def _ident(b):
    return b


def build_leaves(case):
    import dask_array as da

    nps, leaves = [], []
    for k, op in enumerate(case["ops"]):
        al = op.get("alias")
        if al is not None:
            nps.append(nps[al])
            leaves.append(leaves[al])
            continue
        x = np_operand(k, op_shape(op), op["dtype"])
        a = da.from_array(x, chunks=tup(op["chunks"]), name=f"c17leaf-{os.getpid()}-{next(_CTR)}")
        if op.get("opaque"):
            a = a.map_blocks(_ident, dtype=a.dtype)
        nps.append(x)
        leaves.append(a)
    return nps, leaves


def cfg(policy, limit):
    import dask

    return dask.config.set({"array.unify-chunks-policy": policy, "array.unify-chunks-limit": limit})


# ---------------------------------------------------------------------------
# oracle pieces


def check_operand(tag, old, new, itemsize, policy, limb):
    """(ii) and (iii) for one operand: ``old``/``new`` chunks (tuples of tuples)."""
    fails = []
    if len(old) != len(new) or any(sum(o) != sum(n) for o, n in zip(old, new)):
        fails.append(("align|operand-shape-changed", f"{tag}: chunks {old} -> {new}"))
        return fails
    if policy == "refine":
        for ax, (o, n) in enumerate(zip(old, new)):
            if not bounds(o) <= bounds(n):
                fails.append(("refine|merges-blocks", f"{tag} axis {ax}: old chunks {o} -> new {n}: boundaries {sorted(bounds(o) - bounds(n))} were removed"))
                break
    if limb is not None or policy == "refine":
        ob, nb = block_bytes(old, itemsize), block_bytes(new, itemsize)
        cap = max(limb or 0, ob)
        if nb > cap:
            fails.append(
                (
                    f"grow|block-exceeds-limit|{policy}",
                    f"{tag}: largest block {ob} B -> {nb} B > max(limit {limb}, own {ob}); chunks {old} -> {new}, itemsize {itemsize}",
                )
            )
    return fails


def execute(x, tag):
    """Run x's graph with the harness executor. (result | None, fails)."""
    fails = []
    try:
        g = dict(x.__dask_graph__())
        values, _ = E.execute(g)
    except E.GraphError as e:
        return None, [(f"graph|{e.kind}|{tag}", str(e))]
    except Exception as e:
        return None, [(util.exc_bucket(f"compute[{tag}]", e), util.exc_detail(e))]
    chunks = x.chunks
    name = x.name
    for idx in itertools.product(*[range(len(c)) for c in chunks]):
        key = (name,) + idx
        if key not in values:
            return None, [(f"block|missing-key|{tag}", f"{key!r} not produced")]
        v = values[key]
        shp = getattr(v, "shape", None)
        if shp is None:
            shp = np.asarray(v).shape
        want = tuple(chunks[d][i] for d, i in enumerate(idx))
        if tuple(shp) != want:
            return None, [(f"block|shape|{tag}", f"block {idx} has shape {tuple(shp)}, advertised chunks {chunks} give {want}")]
    try:
        res = E.assemble(x, values)
    except Exception as e:
        return None, [(util.exc_bucket(f"finalize[{tag}]", e), util.exc_detail(e))]
    return res, fails


def compare(got, exp, kind, what):
    g = np.asarray(got)
    e = np.asarray(exp)
    if g.shape != e.shape:
        return [(f"mismatch|shape|{kind}", f"{what}: shape {g.shape} != NumPy {e.shape}")]
    if g.dtype != e.dtype:
        return [(f"mismatch|dtype|{kind}", f"{what}: dtype {g.dtype} != NumPy {e.dtype}")]
    why = util.same(g, e)
    if why:
        return [(f"mismatch|values|{kind}", f"{what}: {why}")]
    return []


# ---------------------------------------------------------------------------
# entry points 1 and 2: unify_chunks_expr / da.unify_chunks


def eval_unify(case):
    from dask_array._new_collection import new_collection

    fails = []
    policy, limit = case["policy"], case["limit"]
    limb = limit_bytes(limit)
    ops = case["ops"]
    eff = eff_sizes(case)
    with cfg(policy, limit):
        nps, leaves = build_leaves(case)
        try:
            if case["entry"] == "expr":
                from dask_array._expr import unify_chunks_expr

                args = []
                for op, a in zip(ops, leaves):
                    args += [a.expr, tuple(op["ind"])]
                chunkss, arrs, _changed = unify_chunks_expr(*args)
                arrs = [new_collection(a) for a in arrs]
                key = lambda j: j  # noqa: E731
            else:
                import dask_array as da

                args = []
                for op, a in zip(ops, leaves):
                    args += [a, "".join(LETTERS[j] for j in op["ind"])]
                chunkss, arrs = da.unify_chunks(*args)
                key = lambda j: LETTERS[j]  # noqa: E731
            arrs = list(arrs)
            new_chunks = [tup(a.chunks) for a in arrs]
        except Exception as e:
            return [(util.exc_bucket("unify", e), util.exc_detail(e))], []
        if len(arrs) != len(ops):
            return [("align|operand-count", f"{len(ops)} operands in, {len(arrs)} out")], []
        common = {}
        for j, n in eff.items():
            if key(j) not in chunkss:
                fails.append(("align|index-missing", f"index {key(j)!r} missing from returned layouts {dict(chunkss)!r}"))
                continue
            c = tuple(chunkss[key(j)])
            common[j] = c
            if sum(c) != n or (n > 0 and any(x <= 0 for x in c)):
                fails.append(("align|common-layout-invalid", f"index {key(j)!r} has length {n} but the common layout is {c}"))
        for k, (op, a, newc) in enumerate(zip(ops, arrs, new_chunks)):
            old = tup(op["chunks"])
            tag = f"operand {k} (ind {op['ind']}, dtype {op['dtype']})"
            if tuple(a.shape) != op_shape(op) or a.dtype != np.dtype(op["dtype"]):
                fails.append(("align|operand-shape-or-dtype-changed", f"{tag}: {op_shape(op)}/{op['dtype']} -> {a.shape}/{a.dtype}"))
                continue
            for ax, j in enumerate(op["ind"]):
                if sum(old[ax]) == 1:
                    if newc[ax] != (1,):
                        fails.append(("align|broadcast-axis-rechunked", f"{tag} axis {ax}: size-1 axis now chunked {newc[ax]}"))
                elif j in common and newc[ax] != common[j]:
                    fails.append(
                        (
                            "align|operand-not-at-common-layout",
                            f"{tag} axis {ax} (index {key(j)!r}): chunks {newc[ax]} (were {old[ax]}) but the common layout is {common[j]}",
                        )
                    )
            fails += check_operand(tag, old, newc, np.dtype(op["dtype"]).itemsize, policy, limb)
        # values: a rechunked operand still is the same array (and produces the advertised blocks)
        done = set()
        for k, (op, a, newc) in enumerate(zip(ops, arrs, new_chunks)):
            if newc == tup(op["chunks"]) and a.name == leaves[k].name:
                continue  # untouched operand: the very same expression
            if a.name in done:
                continue
            done.add(a.name)
            res, f = execute(a, "unified-operand")
            fails += f
            if res is not None:
                fails += compare(res, nps[k], "unified-operand", f"operand {k} after unification (chunks {tup(op['chunks'])} -> {newc})")
    return fails, outcome_labels(case, common)


# ---------------------------------------------------------------------------
# entry point 3: programs


def _align(b, ind, out):
    order = sorted(range(len(ind)), key=lambda n: out.index(ind[n]))
    b = np.transpose(b, order)
    present = [ind[n] for n in order]
    it = iter(b.shape)
    shape = [next(it) if j in present else 1 for j in out]
    return b.reshape(shape)


def _bw_sum(*blocks, inds=None, out=None):
    acc = None
    for b, ind in zip(blocks, inds):
        t = _align(np.asarray(b), ind, out)
        acc = t if acc is None else acc + t
    return acc


def build_program(case, leaves, xp):
    """Returns (result, nodes); nodes = [(node_result, [(operand, axis_map), ...])] where axis_map[n]
    is the result axis of operand axis n.  ``xp`` is the dask_array module or numpy (reference: nodes empty)."""
    prog = case["prog"]
    ops = case["ops"]
    nodes = []
    is_np = xp is np

    def elem(res, operands):
        if not is_np:
            R = res.ndim
            nodes.append((res, [(o, [R - o.ndim + n for n in range(o.ndim)]) for o in operands]))
        return res

    if prog == "blockwise":
        inds = tuple(tuple(op["ind"]) for op in ops)
        out = tuple(sorted({j for ind in inds for j in ind}))
        if is_np:
            return _bw_sum(*leaves, inds=inds, out=out), nodes
        dtype = case["_bw_dtype"]
        args = []
        for a, ind in zip(leaves, inds):
            args += [a, ind]
        res = xp.blockwise(_bw_sum, out, *args, dtype=dtype, inds=inds, out=out)
        nodes.append((res, [(a, [out.index(j) for j in ind]) for a, ind in zip(leaves, inds)]))
        return res, nodes
    if prog == "add":
        r = leaves[0]
        for x in leaves[1:]:
            r = elem(r + x, [r, x])
        return r, nodes
    if prog == "where":
        r = elem(xp.where(leaves[0], leaves[1], leaves[2]), [leaves[0], leaves[1], leaves[2]])
    else:
        m = elem(xp.maximum(leaves[0], leaves[1]), [leaves[0], leaves[1]])
        r = elem(m * leaves[2], [m, leaves[2]])
    for x in leaves[3:]:
        r = elem(r + x, [r, x])
    return r, nodes


def check_lowered(x, tag):
    """(i) on the lowered expression: operands of every aligning Blockwise node agree per index."""
    from toolz import partition

    fails, seen_nodes = [], 0
    low = x.expr.lower_completely()
    for node in low.walk():
        if not getattr(node, "align_arrays", False):
            continue
        args = getattr(node, "args", None)
        if not args:
            continue
        lay = {}
        seen_nodes += 1
        for arr, ind in partition(2, args):
            if ind is None or not hasattr(arr, "chunks") or not hasattr(arr, "shape"):
                continue
            for n, j in enumerate(ind):
                if arr.shape[n] != 1:
                    lay.setdefault(j, set()).add(tuple(arr.chunks[n]))
        bad = {j: sorted(v) for j, v in lay.items() if len(v) > 1}
        if bad:
            fails.append((f"lowered|operands-misaligned|{tag}", f"{type(node).__name__} operands disagree after lowering: {bad}"))
            break
    return fails, seen_nodes


def eval_prog(case):
    import dask_array as da

    fails, labs = [], []
    policy, limit = case["policy"], case["limit"]
    limb = limit_bytes(limit)
    drift = case.get("drift")
    kind = case["prog"]
    with np.errstate(all="ignore"):
        nps = [np_operand(k, op_shape(op), op["dtype"]) if op.get("alias") is None else None for k, op in enumerate(case["ops"])]
        nps = [x if x is not None else nps[case["ops"][k]["alias"]] for k, x in enumerate(nps)]
        try:
            ref, _ = build_program(case, nps, np)
        except Exception as e:  # the generator only produces broadcastable operands
            raise AssertionError(f"reference failed: {e!r}")
        ref = np.asarray(ref)
    case = dict(case)
    case["_bw_dtype"] = ref.dtype
    with cfg(policy, limit):
        try:
            _, leaves = build_leaves(case)
            res, nodes = build_program(case, leaves, da)
            advertised = [(tup(r.chunks), [(tup(o.chunks), tuple(o.shape), o.dtype.itemsize, amap) for o, amap in operands]) for r, operands in nodes]
        except Exception as e:
            return [(util.exc_bucket("build[prog]", e), f"{kind}: " + util.exc_detail(e))], labs
        for ni, (rch, operands) in enumerate(advertised):
            for oi, (old, shape, itemsize, amap) in enumerate(operands):
                new = tuple((1,) if shape[n] == 1 else rch[amap[n]] for n in range(len(shape)))
                fails += check_operand(f"{kind} node {ni} operand {oi} (shape {shape})", old, new, itemsize, policy, limb)
        if len(advertised) == 1:  # one unification: the result's chunks are the chosen common layout
            rch = advertised[0][0]
            if kind == "blockwise":
                out_labels = sorted({j for op in case["ops"] for j in op["ind"]})
            else:
                out_labels = list(range(len(case["dims"]) - len(rch), len(case["dims"])))
            common_root = dict(zip(out_labels, rch))
            labs += outcome_labels(case, common_root)
        if drift is None:
            fails += _lower_and_run(res, ref, "prog", kind, labs)
    if drift is not None:
        with cfg(drift["policy"], drift["limit"]):
            fails += _lower_and_run(res, ref, "prog+drift", kind, labs)
    return fails, labs


def _lower_and_run(res, ref, tag, kind, labs):
    """``tag`` goes into buckets (one bucket per root cause, not per program kind); ``kind`` into details."""
    fails = []
    try:
        f, n = check_lowered(res, tag)
        fails += [(b, f"{kind}: {d}") for b, d in f]
        if n:
            labs.append("lowered-nodes-checked")
    except Exception as e:
        fails.append((util.exc_bucket(f"lower[{tag}]", e), util.exc_detail(e)))
        return fails
    got, f = execute(res, tag)
    fails += [(b, f"{kind}: {d}") for b, d in f]
    if got is not None:
        fails += compare(got, ref, tag, f"{kind} result")
    return fails


# ---------------------------------------------------------------------------


def evaluate(case):
    """(status, fails, labels); status 'ok' or 'rejected:...'."""
    validate(case)
    if refinement_blocks(case) > MAX_BLOCKS:
        return "rejected:too-many-blocks", [], []
    labels = static_labels(case)
    with warnings.catch_warnings():
        warnings.simplefilter("ignore")
        if case["entry"] == "prog":
            fails, more = eval_prog(case)
        else:
            fails, more = eval_unify(case)
    # one entry per bucket
    seen, out = set(), []
    for b, d in fails:
        if b not in seen:
            seen.add(b)
            out.append((b, d))
    return "ok", out, labels + [m for m in more if m not in labels]


def replay(case):
    _, fails, _ = evaluate(case)
    return fails


# ---------------------------------------------------------------------------
# shrinking (keeps cases valid; invalid candidates are rejected by validate)


def _copy(case):
    import json

    return json.loads(json.dumps(case))


def shrink(case):
    ops = case["ops"]
    R = len(case["dims"])
    if case.get("drift") is not None:
        c = _copy(case)
        c["drift"] = None
        yield c
    # drop an operand
    for k in range(len(ops)):
        c = _copy(case)
        del c["ops"][k]
        for op in c["ops"]:
            al = op.get("alias")
            if al is not None:
                if al == k:
                    op.pop("alias")
                elif al > k:
                    op["alias"] = al - 1
        # an alias whose target lost its own alias-free status cannot happen (targets never alias)
        yield c
    # un-alias, un-opaque
    for k, op in enumerate(ops):
        if op.get("alias") is not None:
            c = _copy(case)
            c["ops"][k].pop("alias")
            yield c
    if any(op.get("opaque") for op in ops):
        c = _copy(case)
        for op in c["ops"]:
            op["opaque"] = False
        yield c
    # drop an output axis everywhere
    if R > 1:
        for d in range(R):
            c = _copy(case)
            ok = True
            for op in c["ops"]:
                if d in op["ind"]:
                    p = op["ind"].index(d)
                    del op["ind"][p]
                    del op["chunks"][p]
                if not op["ind"]:
                    ok = False
                op["ind"] = [j - 1 if j > d else j for j in op["ind"]]
            del c["dims"][d]
            if ok:
                yield c
    # drop a leading axis of one operand (makes it rank-deficient)
    for k, op in enumerate(ops):
        if len(op["ind"]) > 1 and op.get("alias") is None and not any(o.get("alias") == k for o in ops):
            c = _copy(case)
            del c["ops"][k]["ind"][0]
            del c["ops"][k]["chunks"][0]
            yield c
    # shorten an axis: remove its last element / halve everything when all chunks are even
    for d in range(R):
        n = case["dims"][d]
        if n >= 2:
            c = _copy(case)
            c["dims"][d] = n - 1
            for op in c["ops"]:
                for j, ch in zip(op["ind"], op["chunks"]):
                    if j == d and sum(ch) == n:
                        ch[-1] -= 1
                        if ch[-1] == 0 and len(ch) > 1:
                            ch.pop()
            yield c
            if all(x % 2 == 0 for op in ops for j, ch in zip(op["ind"], op["chunks"]) if j == d and sum(ch) == n for x in ch):
                c = _copy(case)
                c["dims"][d] = n // 2
                for op in c["ops"]:
                    for j, ch in zip(op["ind"], op["chunks"]):
                        if j == d and sum(ch) == n:
                            ch[:] = [x // 2 for x in ch]
                yield c
    # merge two adjacent blocks of one operand axis (aliases follow their target)
    for k, op in enumerate(ops):
        if op.get("alias") is not None:
            continue
        for ax, ch in enumerate(op["chunks"]):
            for i in range(len(ch) - 1):
                c = _copy(case)
                new = ch[:i] + [ch[i] + ch[i + 1]] + ch[i + 2 :]
                c["ops"][k]["chunks"][ax] = new
                for o in c["ops"]:
                    if o.get("alias") == k:
                        o["chunks"][ax] = list(new)
                yield c
    # simpler dtypes
    for k, op in enumerate(ops):
        if op.get("alias") is not None:
            continue
        for dt in ("u1", "f8"):
            if op["dtype"] != dt and np.dtype(dt).itemsize <= np.dtype(op["dtype"]).itemsize:
                c = _copy(case)
                c["ops"][k]["dtype"] = dt
                for o in c["ops"]:
                    if o.get("alias") == k:
                        o["dtype"] = dt
                yield c
    if case["limit"] is not None:
        c = _copy(case)
        c["limit"] = None
        yield c
    if case["entry"] == "prog" and case["prog"] != "add" and len(ops) >= 2 and all(op["ind"] == list(range(R - len(op["ind"]), R)) for op in ops):
        c = _copy(case)
        c["prog"] = "add"
        yield c


# ---------------------------------------------------------------------------
# generator


def _coarsen(Dr, base):
    """A coarsening of ``base``: keep each internal boundary with probability 1/2."""
    if len(base) <= 1:
        return tuple(base)
    bs = sorted(bounds(base))
    keep = [b for b in bs if Dr.bool()]
    return from_bounds(keep, sum(base))


def axis_layouts(Dr, n, m, maxb):
    """Layouts for the m non-broadcast carriers of one axis of length n."""
    if n == 0:
        return [(0,)] * m
    if n == 1:
        return [(1,)] * m
    rel = Dr.weighted([("free", 4), ("nested", 7), ("interleaved", 3), ("roll", 3), ("same", 1)])
    if rel == "free" or m == 1:
        return [C.axis_chunks(Dr, n, max_blocks=maxb) for _ in range(m)]
    if rel == "same":
        base = C.axis_chunks(Dr, n, max_blocks=maxb)
        return [base] * m
    if rel == "nested":
        base = C.axis_chunks(Dr, n, family=Dr.weighted([("uniform", 4), ("irregular", 4), ("ones", 2), ("jitter", 2)]), max_blocks=max(maxb, 4))
        out = []
        cur = base
        for i in range(m):
            mode = Dr.weighted([("base", 3), ("coarsen-base", 4), ("coarsen-prev", 3), ("single", 1)])
            if mode == "base":
                lay = base
            elif mode == "coarsen-base":
                lay = _coarsen(Dr, base)
            elif mode == "coarsen-prev":
                lay = _coarsen(Dr, cur)
            else:
                lay = (n,)
            cur = lay
            out.append(lay)
        # make sure a fine and a strictly coarser multi-block layout are both present when possible
        if len(base) >= 3 and Dr.chance(3, 4):
            bs = sorted(bounds(base))
            keep = [b for b in bs if Dr.bool()]
            if len(keep) == len(bs):
                keep = keep[:-1]
            if not keep:
                keep = [bs[Dr.int(0, len(bs) - 1)]]
            p = Dr.perm(m)
            out[p[0]] = base
            out[p[1]] = from_bounds(keep, n)
        return out
    if rel == "interleaved":
        lo = max(1, -(-n // (2 * maxb)))
        c = Dr.int(lo, max(lo, n // 2))
        a = from_bounds([b for b in range(2 * c, n, 2 * c)], n)  # boundaries at even multiples of c
        b = from_bounds([b for b in range(c, n, 2 * c)], n)  # at odd multiples
        f = from_bounds([b for b in range(c, n, c)], n) if n // c <= 2 * maxb else a
        pool = [a, b, a, b, f]
        out = [Dr.choice(pool) for _ in range(m)]
        p = Dr.perm(m)
        out[p[0]] = a
        out[p[1]] = b
        return out
    # roll: boundaries of a base layout shifted by s elements modulo n
    base = C.axis_chunks(Dr, n, family=Dr.weighted([("uniform", 5), ("irregular", 3), ("jitter", 2)]), max_blocks=maxb)
    s = Dr.int(1, n - 1)
    shifted = from_bounds({(b + s) % n for b in bounds(base) | {0}} - {0}, n)
    out = [Dr.choice([base, shifted]) for _ in range(m)]
    p = Dr.perm(m)
    out[p[0]] = base
    out[p[1]] = shifted
    return out


def gen_case(Dr):
    entry = Dr.weighted([("expr", 4), ("public", 2), ("prog", 6)])
    prog = Dr.weighted([("add", 3), ("where", 2), ("maxmul", 2), ("blockwise", 3)]) if entry == "prog" else None
    policy = Dr.choice(POLICIES)
    limit = Dr.weighted([(None, 3), (0, 1), ("16B", 3), (40, 1), ("64B", 3), ("1kiB", 3), ("512MiB", 3)])
    rank = Dr.weighted([(1, 3), (2, 4), (3, 3)])
    nops = Dr.int(2, 4)
    if prog in ("where", "maxmul"):
        nops = max(3, nops)
    free_ind = entry != "prog" or prog == "blockwise"

    def length():
        k = Dr.weighted([("zero", 1), ("one", 2), ("small", 12), ("large", 15)])
        return 0 if k == "zero" else 1 if k == "one" else Dr.int(2, 8) if k == "small" else Dr.int(9, 24)

    dims = [length() for _ in range(rank)]
    if rank >= 2 and Dr.chance(1, 5):
        dims[-1] = dims[-2]
    maxb = {1: 8, 2: 5, 3: 4}[rank]

    ops = []
    skew = Dr.chance(1, 3)
    for k in range(nops):
        if free_ind:
            if k == 0 or Dr.chance(1, 2):
                ind = list(range(rank))
            else:
                ind = sorted(Dr.subset(range(rank), min_size=1))
            if len(ind) > 1 and Dr.chance(1, 4):
                ind = [ind[i] for i in Dr.perm(len(ind))]
        else:
            kk = rank if (k == 0 or Dr.chance(3, 5)) else Dr.int(1, rank)
            ind = list(range(rank - kk, rank))
        bc = [Dr.chance(1, 6) for _ in ind]
        if skew:  # extreme byte ratios (1:16) drive the cost-aware direction choice
            dtype = Dr.choice(["u1", "c16", "?", "c16", "u1", "f8"])
        else:
            dtype = Dr.weighted([("?", 1), ("u1", 4), ("i2", 2), ("i4", 1), ("f4", 2), ("f8", 4), ("c8", 1), ("c16", 4)])
        ops.append({"dtype": dtype, "ind": ind, "bc": bc, "chunks": [None] * len(ind), "opaque": Dr.chance(1, 3)})
    for d in range(rank):
        car = [(k, op["ind"].index(d)) for k, op in enumerate(ops) if d in op["ind"] and not op["bc"][op["ind"].index(d)]]
        lays = axis_layouts(Dr, dims[d], len(car), maxb) if car else []
        for (k, p), lay in zip(car, lays):
            ops[k]["chunks"][p] = [int(x) for x in lay]
    for op in ops:
        op["chunks"] = [c if c is not None else [1] for c in op["chunks"]]
        del op["bc"]
    # the same operand twice (same index, or transposed when its two axes have equal length)
    if nops >= 2 and Dr.chance(1, 10):
        k = Dr.int(1, nops - 1)
        m = Dr.int(0, k - 1)
        if ops[m].get("alias") is None:
            src = ops[m]
            new = {"dtype": src["dtype"], "ind": list(src["ind"]), "chunks": [list(c) for c in src["chunks"]], "opaque": src["opaque"], "alias": m}
            if free_ind and len(src["ind"]) == 2 and sum(src["chunks"][0]) == sum(src["chunks"][1]) and Dr.bool():
                new["ind"] = list(reversed(src["ind"]))
            ops[k] = new
    case = {"entry": entry, "policy": policy, "limit": limit, "dims": dims, "ops": ops}
    if entry == "prog":
        case["prog"] = prog
        case["drift"] = {"policy": Dr.choice(POLICIES), "limit": Dr.choice(LIMITS)} if Dr.chance(1, 6) else None
    return case


def run_shard(spec, seed):
    import hypothesis
    from hypothesis import HealthCheck, Phase, given, settings
    from hypothesis import strategies as st

    col = Collector()

    @st.composite
    def case_st(draw):
        return gen_case(D(draw))

    @hypothesis.seed(seed)
    @settings(
        max_examples=spec["cases"],
        database=None,
        deadline=None,
        derandomize=False,
        phases=[Phase.generate],
        suppress_health_check=list(HealthCheck),
    )
    @given(case_st())
    def body(case):
        try:
            validate(case)
        except AssertionError:
            col.reject("generator-produced-invalid-case")
            return
        status, fails, labels = evaluate(case)
        if status != "ok":
            col.reject(status)
            return
        col.case(case, "disagree" in labels, labels)
        for b, d in fails:
            col.fail(b, case, d)

    body()
    col.exhaustive = False
    return col.result()


def plan(tier):
    scale = float(os.environ.get("VERIF_SCALE", "1"))
    if tier == "quick":
        n, k = 24000, 16
    else:
        n, k = 300000, 48
    per = max(5, int(n * scale / k))
    return [{"cases": per} for _ in range(k)]


_COMMON = [
    "policy:auto",
    "policy:coarse",
    "policy:refine",
    "limit:none",
    "limit:0",
    "limit:16B",
    "limit:64B",
    "limit:1kiB",
    "limit:512MiB",
    "entry:expr",
    "entry:public",
    "entry:prog",
    "prog:add",
    "prog:where",
    "prog:maxmul",
    "prog:blockwise",
    "n=2",
    "n=3",
    "n=4",
    "disagree",
    "nested",
    "interleaved",
    "broadcast-axis",
    "rank-deficient",
    "zero-length-axis",
    "byte-ratio>=8",
    "itemsize-ratio>=8",
    # opportunity classes computed from the INPUT only (outcome labels such as merge-accepted / merge-refused /
    # size-guard-fallback / realigned are reported in the histogram but never required: they depend on the code under test)
    "nested-all",
    "merge-would-exceed-limit",
    "auto:heavy-fine-vs-light-coarse",
    "auto:light-fine-vs-heavy-coarse",
    "drift",
    "dup-operand",
    "opaque-leaf",
    "lowered-nodes-checked",
]
REQUIRED_CLASSES = {"quick": list(_COMMON), "thorough": list(_COMMON) + ["dup-operand-transposed", "permuted-index"]}
