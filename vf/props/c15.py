"""C15 — rechunk plans are valid and respect the block-size budget; the
old-to-new crosswalk tiles every new block with in-bounds pieces of old blocks.

Oracle: validity predicates written against the property text only (no call
into the planner's helpers): a step is a chunking of the shape iff every axis
is a non-empty tuple of positive ints summing to the axis length (``(0,)`` for
a zero-length axis); the largest block of a chunking is the product of the
per-axis maxima (blocks form a full grid); the budget in bytes is
``max(limit, largest old block, largest new block)``; a crosswalk is correct
iff, in global coordinates, the pieces of consecutive new blocks tile
``[0, n)`` without gap or overlap and every piece lies inside its old block.

Argument domain = the call sites' (``TasksRechunk._layer`` /
``Rechunk.transfer_bytes``): normalised chunk tuples, the dtype's itemsize,
``threshold``/``block_size_limit`` as given to ``rechunk`` (``None`` -> config
``array.rechunk.threshold`` / ``array.chunk-size``), degree limit from config
``array.rechunk.degree-limit``.
"""

from __future__ import annotations

import itertools
import math
import os
import re
from functools import lru_cache
from numbers import Integral

import numpy as np

from vf import util
from vf.runner import Collector

PROPERTY = "C15"
RULE = (
    "Exhaustive: rank 1, every (old, new) pair of compositions of n (n<=6 quick, n<=7 thorough) and rank 2, every pair of "
    "chunkings of every shape with sides 0..3 (quick) / 0..4 (thorough), each crossed with a parameter grid (degree-limit "
    "{2,3,5,100} x itemsize x block_size_limit x threshold). Random (Hypothesis): rank 1-4, axis lengths 0..300, chunkings "
    "from the five families of vf.gen.chunks plus new-axis = old / coarsening of old / refinement of old, 1 case in 4 of "
    "rank >= 2 with every axis fine on one side and coarse (<= 3 blocks) on the other, itemsize "
    "{1,2,4,8,16}, threshold {None,1,2,4,32}, block_size_limit {None,1,8,64,1000,10**6}, degree-limit {2,3,5,100}, config "
    "array.chunk-size {128MiB,1kiB,64,1000}; 1 case in 10 is small and is also executed (from_array -> rechunk, once through "
    "the public path and once behind a map_blocks so that TasksRechunk runs the plan) and compared block by block with NumPy. "
    "Oracle = validity predicates on plan_rechunk / old_to_new / intersect_chunks outputs. Non-trivial: old != new and (>= 2 "
    "axes differ or the plan has >= 2 steps or the degree bound changed the plan); distinct = distinct case JSON."
)
ASSUMPTIONS = [
    "chunk lengths are positive ints except the single (0,) chunk of a zero-length axis; no unknown (nan) chunks",
    "block_size_limit/threshold None (or 0) mean 'use config array.chunk-size / array.rechunk.threshold' as at the call sites",
    "largest block of a chunking = product of per-axis maxima (blocks form a full grid); sizes compared in bytes = elements * itemsize",
    "the budget applies to every step of the plan except the last (which is the requested chunking itself)",
    "the plan-length bound (4*ceil(log2(blocks))+8) * max(rank,1) is a termination sanity bound, not part of the property text",
    "zero-width crosswalk pieces are tolerated when they sit at the right position (they add an empty slice, not a wrong element)",
]

ITEMSIZES = (1, 2, 4, 8, 16)
THRESHOLDS = (None, 1, 2, 4, 32)
LIMITS = (None, 1, 8, 64, 1000, 10**6)
DEGREE_LIMITS = (2, 3, 5, 100)
# config array.chunk-size values and what they mean in bytes (own table, not dask.utils.parse_bytes)
CHUNK_SIZES = {"128MiB": 128 * 2**20, "1kiB": 1024, "64": 64, "1000": 1000}
UNBOUNDED = 10**9  # degree limit that switches degree bounding off
DTYPES = {1: "u1", 2: "i2", 4: "i4", 8: "f8", 16: "c16"}
MAX_INTERSECT_PIECES = 3000
MAX_COMPUTE_ELEMS = 4000
MAX_COMPUTE_BLOCKS = 150


def _R():
    from dask_array import _rechunk

    return _rechunk


def compositions(n):
    if n == 0:
        yield (0,)
        return
    for bits in itertools.product((0, 1), repeat=n - 1):
        out = []
        cur = 1
        for b in bits:
            if b:
                out.append(cur)
                cur = 1
            else:
                cur += 1
        out.append(cur)
        yield tuple(out)


# ---------------------------------------------------------------------------
# case handling


def _tt(chunks):
    return tuple(tuple(int(v) for v in ax) for ax in chunks)


def _validate(case):
    assert isinstance(case, dict)
    old, new = case["old"], case["new"]
    assert isinstance(old, list) and isinstance(new, list) and len(old) == len(new) <= 4
    for oc, nc in zip(old, new):
        for c in (oc, nc):
            assert isinstance(c, list) and len(c) >= 1
            assert all(isinstance(v, int) and not isinstance(v, bool) for v in c)
            assert all(v >= 0 for v in c)
        assert sum(oc) == sum(nc)
        assert sum(oc) > 0 or (oc == [0] and nc == [0])
    assert case["itemsize"] in ITEMSIZES
    assert case["threshold"] in THRESHOLDS
    assert case["bsl"] in LIMITS
    assert case["degree_limit"] in DEGREE_LIMITS
    assert case["chunk_size"] in CHUNK_SIZES
    assert case.get("compute", False) in (True, False)


def _config(case, degree_limit=None):
    cs = case["chunk_size"]
    return {
        "array.rechunk.degree-limit": case["degree_limit"] if degree_limit is None else degree_limit,
        "array.chunk-size": int(cs) if cs.isdigit() else cs,
    }


def limit_bytes(case):
    return case["bsl"] if case["bsl"] else CHUNK_SIZES[case["chunk_size"]]


def largest_block(chunks):
    """Elements of the largest block of a (valid) chunking."""
    return math.prod(max(c) for c in chunks)


def nblocks(chunks):
    return math.prod(len(c) for c in chunks)


def chunking_defect(step, shape):
    """None when ``step`` is a chunking of ``shape``, else a short reason."""
    if not isinstance(step, (tuple, list)):
        return "not-a-sequence"
    if len(step) != len(shape):
        return "wrong-rank"
    for c, n in zip(step, shape):
        if not isinstance(c, (tuple, list)):
            return "axis-not-a-sequence"
        if len(c) == 0:
            return "axis-without-blocks"
        for v in c:
            if isinstance(v, bool) or not isinstance(v, Integral):
                return "non-integer-block"
        if n == 0:
            if tuple(c) != (0,):
                return "zero-length-axis-not-(0,)"
        else:
            if any(v < 0 for v in c):
                return "negative-block"
            if sum(c) != n:
                return "axis-sum-differs"
    return None


def _plan_call(old, new, itemsize, threshold, bsl, cfg_items):
    import dask

    with dask.config.set(dict(cfg_items)):
        return _R().plan_rechunk(old, new, itemsize, threshold, bsl)


@lru_cache(maxsize=4096)
def _unbounded_plan(old, new, itemsize, threshold, bsl, chunk_size):
    """Plan with degree bounding switched off (None when it raises)."""
    case = {"degree_limit": UNBOUNDED, "chunk_size": chunk_size}
    try:
        p = _plan_call(old, new, itemsize, threshold, bsl, tuple(sorted(_config(case).items())))
        return [_tt(s) for s in p]
    except Exception:
        return None


def plan_length_bound(old, new):
    b = math.prod(max(len(o), len(n)) for o, n in zip(old, new))
    return (4 * math.ceil(math.log2(max(b, 2))) + 8) * max(len(old), 1)


def chk_plan(case, old, new, fails, labels):
    """Plan validity + budget.  Returns the normalised plan (or None)."""
    shape = tuple(sum(c) for c in old)
    isz = case["itemsize"]
    try:
        plan = _plan_call(old, new, isz, case["threshold"], case["bsl"], tuple(sorted(_config(case).items())))
    except Exception as e:
        fails.append((util.exc_bucket("plan_rechunk", e), util.exc_detail(e)))
        return None
    if not isinstance(plan, list) or len(plan) == 0:
        fails.append(("plan|not-a-nonempty-list", f"plan={plan!r}"))
        return None
    bad = False
    for i, step in enumerate(plan):
        why = chunking_defect(step, shape)
        if why:
            fails.append((f"step|{why}", f"step {i} of {len(plan)}: {step!r} is not a chunking of shape {shape}; plan={plan!r}"))
            bad = True
    if bad:
        return None
    nplan = [_tt(s) for s in plan]
    if nplan[-1] != new:
        fails.append(("plan|last-step-not-new", f"last step {nplan[-1]} != new {new}; plan={nplan}"))
    bound = plan_length_bound(old, new)
    if len(nplan) > bound:
        fails.append(("plan|too-long", f"{len(nplan)} steps > sanity bound {bound}"))

    unb = _unbounded_plan(old, new, isz, case["threshold"], case["bsl"], case["chunk_size"])
    lim = limit_bytes(case)
    lo, ln = largest_block(old) * isz, largest_block(new) * isz
    budget = max(lim, lo, ln)
    for i, step in enumerate(nplan[:-1]):
        got = largest_block(step) * isz
        if got > budget:
            where = "bound_degree" if (unb is not None and step not in unb) else "planner"
            fails.append(
                (
                    f"budget|{where}",
                    f"step {i} {step}: largest block {got} B > budget {budget} B = max(limit {lim}, old {lo}, new {ln}); "
                    f"plan={nplan}; plan without degree bounding={unb}",
                )
            )
            break

    if len(nplan) >= 2:
        labels.append("multi-step-plan")
    if unb is not None:
        if nplan != unb:
            labels.append("degree-bound-active")
        if len(unb) >= 2:
            labels.append("planner-multi-step")
    # merging every axis to its coarser side at once would not fit: the planner has to respect the budget
    if math.prod(max(max(o), max(n)) for o, n in zip(old, new)) * isz > budget:
        labels.append("budget-binding")
        if lim >= max(lo, ln):
            labels.append("limit-binding")  # ... and the size limit is the governing term of the budget
    return nplan


def over_budget_step_not_in_unbounded_plan(case):
    """Call-site predicate of the known finding (DESIGN 3.6): some over-budget
    step of the plan is absent from the plan computed without degree bounding."""
    _validate(case)
    old, new = _tt(case["old"]), _tt(case["new"])
    fails, labels = [], []
    chk_plan(case, old, new, fails, labels)
    return any(b == "budget|bound_degree" for b, _ in fails)


def chk_crosswalk(old, new, tag=""):
    """old_to_new(old, new) against the tiling predicate.  Returns (fail|None, crosswalk, flags)."""
    try:
        o2n = _R().old_to_new(old, new)
    except Exception as e:
        return (util.exc_bucket("old_to_new", e), util.exc_detail(e)), None, ()
    ctx = f"{tag}old={old} new={new}"
    if not isinstance(o2n, (list, tuple)) or len(o2n) != len(old):
        return ("crosswalk|wrong-rank", f"{ctx} -> {o2n!r}"), None, ()
    flags = set()
    for ax, (oc, nc) in enumerate(zip(old, new)):
        rows = o2n[ax]
        if len(rows) != len(nc):
            return ("crosswalk|new-block-count", f"{ctx} axis {ax}: {len(rows)} rows for {len(nc)} new blocks: {rows!r}"), None, ()
        ostart = [0]
        for v in oc:
            ostart.append(ostart[-1] + v)
        pos = 0
        for j, pieces in enumerate(rows):
            if len(pieces) == 0:
                return ("crosswalk|new-block-without-pieces", f"{ctx} axis {ax} new block {j}: {rows!r}"), None, ()
            last_i = -1
            for piece in pieces:
                try:
                    i, s = piece
                    a, b, st = s.start, s.stop, s.step
                except Exception:
                    return ("crosswalk|malformed-piece", f"{ctx} axis {ax} new block {j}: {piece!r}"), None, ()
                if not all(isinstance(v, Integral) and not isinstance(v, bool) for v in (i, a, b)) or st not in (None, 1):
                    return ("crosswalk|malformed-piece", f"{ctx} axis {ax} new block {j}: {piece!r}"), None, ()
                if not (0 <= i < len(oc)):
                    return ("crosswalk|old-index-out-of-range", f"{ctx} axis {ax} new block {j}: {piece!r}"), None, ()
                if not (0 <= a <= b <= oc[i]):
                    return ("crosswalk|slice-out-of-bounds", f"{ctx} axis {ax} new block {j}: {piece!r} (old block has {oc[i]})"), None, ()
                if i < last_i:
                    return ("crosswalk|pieces-out-of-order", f"{ctx} axis {ax} new block {j}: {pieces!r}"), None, ()
                if ostart[i] + a != pos:
                    return (
                        "crosswalk|not-contiguous",
                        f"{ctx} axis {ax} new block {j}: piece {piece!r} starts at element {ostart[i] + a}, expected {pos} (gap or overlap): {rows!r}",
                    ), None, ()
                if a == b and nc[j] > 0:
                    flags.add("crosswalk:zero-width-piece")
                pos = ostart[i] + b
                last_i = i
            want = sum(nc[: j + 1])
            if pos != want:
                return ("crosswalk|new-block-size", f"{ctx} axis {ax} new block {j} (size {nc[j]}) pieces end at {pos}, expected {want}: {rows!r}"), None, ()
    return None, o2n, tuple(sorted(flags))


def _pieces_total(old, new):
    return math.prod(len(o) + len(n) - 1 for o, n in zip(old, new))


def _sl(p):
    return (int(p[0]), int(p[1].start), int(p[1].stop))


def chk_intersect(old, new, o2n):
    """intersect_chunks == per new block (C order) the C-order product of the per-axis pieces."""
    try:
        got = list(_R().intersect_chunks(old, new))
    except Exception as e:
        return (util.exc_bucket("intersect_chunks", e), util.exc_detail(e))
    ctx = f"old={old} new={new}"
    if len(got) != nblocks(new):
        return ("intersect_chunks|block-count", f"{ctx}: {len(got)} entries for {nblocks(new)} new blocks")
    for k, new_idx in enumerate(itertools.product(*(range(len(c)) for c in new))):
        exp = [tuple(_sl(p) for p in combo) for combo in itertools.product(*(o2n[ax][j] for ax, j in enumerate(new_idx)))]
        try:
            g = [tuple(_sl(p) for p in combo) for combo in got[k]]
        except Exception:
            return ("intersect_chunks|malformed", f"{ctx} new block {new_idx}: {got[k]!r}")
        if any(len(combo) != len(old) for combo in g):
            return ("intersect_chunks|malformed", f"{ctx} new block {new_idx}: {got[k]!r}")
        vol = sum(math.prod(b - a for _, a, b in combo) for combo in g)
        want = math.prod(new[ax][j] for ax, j in enumerate(new_idx))
        if vol != want:
            return ("intersect_chunks|volume", f"{ctx} new block {new_idx}: pieces hold {vol} elements, block has {want}: {got[k]!r}")
        if g != exp:
            return ("intersect_chunks|differs-from-crosswalk", f"{ctx} new block {new_idx}: {g} != {exp}")
    return None


def _ident(b):
    return b


def _assemble(nested, chunks, dtype):
    """Place computed blocks by their advertised offsets; (array, defect)."""
    shape = tuple(sum(c) for c in chunks)
    out = np.zeros(shape, dtype=dtype)
    starts = [np.concatenate([[0], np.cumsum(c)]) for c in chunks]
    for idx in np.ndindex(*[len(c) for c in chunks]):
        b = nested
        for i in idx:
            b = b[i]
        b = np.asarray(b)
        want = tuple(c[i] for c, i in zip(chunks, idx))
        if b.shape != want:
            return None, f"block {idx} has shape {b.shape}, advertised {want}"
        if b.dtype != np.dtype(dtype):
            return None, f"block {idx} has dtype {b.dtype}, expected {dtype}"
        out[tuple(slice(int(s[i]), int(s[i]) + w) for s, i, w in zip(starts, idx, want))] = b
    return out, None


def compute_eligible(old, new):
    shape = tuple(sum(c) for c in old)
    return math.prod(shape) <= MAX_COMPUTE_ELEMS and nblocks(old) <= MAX_COMPUTE_BLOCKS and nblocks(new) <= MAX_COMPUTE_BLOCKS


def chk_compute(case, old, new, plan, fails, labels):
    import dask
    import dask_array as da

    shape = tuple(sum(c) for c in old)
    dt = np.dtype(DTYPES[case["itemsize"]])
    a = (np.arange(math.prod(shape)) % 251).reshape(shape)
    a = (a + 1j * (a % 7)).astype(dt) if dt.kind == "c" else a.astype(dt)
    th, bsl = case["threshold"], case["bsl"]
    with dask.config.set(_config(case)):
        for path in ("public", "tasks"):
            try:
                x = da.from_array(a, chunks=old)
                if path == "tasks":
                    x = x.map_blocks(_ident, dtype=dt)
                y = x.rechunk(new, threshold=th, block_size_limit=bsl)
                if _tt(y.chunks) != new:
                    fails.append((f"compute|{path}|chunks", f"chunks {y.chunks} != {new}"))
                    continue
                got = y.compute(scheduler="sync")
                g = dict(y.__dask_graph__())
                nested = dask.get(g, y.__dask_keys__())
            except Exception as e:
                fails.append((util.exc_bucket(f"compute|{path}", e), util.exc_detail(e)))
                labels.append("compute:raised")
                # the graph could not be inspected: count the case in the classes it was built for, so that a
                # tree on which every execution raises reports the failures and not an unreached class
                if path == "tasks" and old != new:
                    labels.append("compute:tasks-rechunk")
                    if plan is not None and len(plan) >= 2:
                        labels.append("compute:multi-step-graph")
                continue
            why = util.same(got, a)
            if why:
                fails.append((f"compute|{path}|values", f"{why}; old={old} new={new}"))
            arr, why = _assemble(nested, new, dt)
            if why:
                fails.append((f"compute|{path}|block-shape", f"{why}; old={old} new={new}"))
            elif not np.array_equal(arr, a):
                fails.append((f"compute|{path}|block-values", f"blocks placed by advertised offsets differ from the source; old={old} new={new}"))
            names = {k[0] for k in g if isinstance(k, tuple)}
            try:
                lowered = {type(e).__name__ for e in y.expr.optimize().walk()}
            except Exception:
                lowered = set()
            if "TasksRechunk" in lowered:
                # (the public path usually reads the source at the new chunks instead: no rechunk tasks)
                labels.append("compute:tasks-rechunk" if path == "tasks" else "compute:public-path-tasks-rechunk")
                if path == "tasks" and any(re.match(r"rechunk-merge-\d+-", n) for n in names if isinstance(n, str)):
                    labels.append("compute:multi-step-graph")
    labels.append("compute")


def check_case(case, crosswalk=True):
    """All checks on one JSON case -> (fails, labels, nontrivial)."""
    _validate(case)
    old, new = _tt(case["old"]), _tt(case["new"])
    rank = len(old)
    fails, labels = [], [f"rank={rank}", f"degree-limit={case['degree_limit']}"]
    differing = sum(1 for o, n in zip(old, new) if o != n)
    if old != new:
        labels.append("old!=new")
    if any(c == (0,) for c in old):
        labels.append("zero-length-axis")
    if any(0 in c and sum(c) > 0 for c in old + new):
        labels.append("zero-width-blocks")
    if case["bsl"] is None:
        labels.append("limit-from-config")

    plan = chk_plan(case, old, new, fails, labels)

    if crosswalk:
        pairs = [("", old, new), ("(reversed) ", new, old)]
        if plan is not None and len(plan) >= 2:
            prev = old
            for step in plan:
                if prev != old or step != new:
                    pairs.append(("(plan step) ", prev, step))
                prev = step
            labels.append("crosswalk:plan-pairs")
        seen = set()
        for tag, a, b in pairs:
            if (a, b) in seen:
                continue
            seen.add((a, b))
            f, o2n, flags = chk_crosswalk(a, b, tag)
            labels.extend(flags)
            small = _pieces_total(a, b) <= MAX_INTERSECT_PIECES
            if small and tag == "":
                labels.append("intersect_chunks")
            if f:
                fails.append(f)
            elif small:
                f = chk_intersect(a, b, o2n)
                if f:
                    fails.append(f)

    if case.get("compute") and compute_eligible(old, new):
        chk_compute(case, old, new, plan, fails, labels)

    nontrivial = old != new and (differing >= 2 or "multi-step-plan" in labels or "degree-bound-active" in labels)
    # one failure per bucket per case
    out, seen_b = [], set()
    for b, d in fails:
        if b not in seen_b:
            seen_b.add(b)
            out.append((b, d))
    return out, labels, nontrivial


def replay(case):
    fails, _, _ = check_case(case)
    return fails


def _record(col, case, extra_labels=(), crosswalk=True):
    fails, labels, nt = check_case(case, crosswalk=crosswalk)
    col.case(case, nt, list(labels) + list(extra_labels))
    for b, d in fails:
        col.fail(b, case, d)


# ---------------------------------------------------------------------------
# shrinking


def shrink(case):
    def with_(**kw):
        c = {k: (list(map(list, v)) if k in ("old", "new") else v) for k, v in case.items()}
        c.update(kw)
        return c

    old, new = case["old"], case["new"]
    rank = len(old)
    if case.get("compute"):
        yield with_(compute=False)
    # drop an axis
    for ax in range(rank):
        yield with_(old=old[:ax] + old[ax + 1 :], new=new[:ax] + new[ax + 1 :])
    # make an axis trivial
    for ax in range(rank):
        n = sum(old[ax])
        if old[ax] != [n] or new[ax] != [n]:
            yield with_(old=old[:ax] + [[n]] + old[ax + 1 :], new=new[:ax] + [[n]] + new[ax + 1 :])
        if old[ax] != new[ax]:
            yield with_(new=new[:ax] + [list(old[ax])] + new[ax + 1 :])
            yield with_(old=old[:ax] + [list(new[ax])] + old[ax + 1 :])
    # halve an axis: scale every block down (keeps the block structure), then repair the sums
    for ax in range(rank):
        n = sum(old[ax])
        if n >= 4:
            for which in ("old", "new"):
                src = case[which][ax]
                oth = case["new" if which == "old" else "old"][ax]
                half = [max(1, v // 2) for v in src]
                m = sum(half)
                oh = [max(1, v // 2) for v in oth]
                d = m - sum(oh)
                if d > 0:
                    oh[-1] += d
                elif d < 0:
                    k = len(oh) - 1
                    while d < 0 and k >= 0:
                        take = min(oh[k] - 1, -d)
                        oh[k] -= take
                        d += take
                        k -= 1
                    if d < 0:
                        continue
                o2, n2 = (half, oh) if which == "old" else (oh, half)
                yield with_(old=old[:ax] + [o2] + old[ax + 1 :], new=new[:ax] + [n2] + new[ax + 1 :])
    # merge two adjacent blocks
    for which in ("old", "new"):
        ch = case[which]
        for ax in range(rank):
            c = ch[ax]
            for i in range(min(len(c) - 1, 12)):
                c2 = c[:i] + [c[i] + c[i + 1]] + c[i + 2 :]
                yield with_(**{which: ch[:ax] + [c2] + ch[ax + 1 :]})
    # take one element off an old block and a new block
    for ax in range(rank):
        oc, nc = old[ax], new[ax]
        if sum(oc) == 0:
            continue
        for i in list(range(min(len(oc), 6))) + ([len(oc) - 1] if len(oc) > 6 else []):
            for j in list(range(min(len(nc), 6))) + ([len(nc) - 1] if len(nc) > 6 else []):
                o2 = oc[:i] + ([oc[i] - 1] if oc[i] > 1 else []) + oc[i + 1 :]
                n2 = nc[:j] + ([nc[j] - 1] if nc[j] > 1 else []) + nc[j + 1 :]
                if not o2 and not n2:
                    o2, n2 = [0], [0]
                if o2 and n2:
                    yield with_(old=old[:ax] + [o2] + old[ax + 1 :], new=new[:ax] + [n2] + new[ax + 1 :])
    # simpler parameters
    if case["threshold"] is not None:
        yield with_(threshold=None)
    if case["chunk_size"] != "128MiB":
        yield with_(chunk_size="128MiB")
    for v in ITEMSIZES:
        if v < case["itemsize"]:
            yield with_(itemsize=v)
    if case["bsl"] is not None:
        yield with_(bsl=None)
        for v in LIMITS[1:]:
            if v < case["bsl"]:
                yield with_(bsl=v)
    for v in (100, 5, 3, 2):
        if v != case["degree_limit"] and (v == 100 or v < case["degree_limit"]):
            yield with_(degree_limit=v)


# ---------------------------------------------------------------------------
# enumeration


def _grid(tier, rank):
    """Parameter combinations crossed with every enumerated chunking pair."""
    if rank == 1:
        # (1-d plans skip block-size planning; keep a small grid for the other parameters)
        items = (1, 8) if tier == "quick" else (1, 4, 16)
        limits = (None, 1, 8) if tier == "quick" else (None, 1, 8, 64)
        ths = (None, 1)
    else:
        items = (1, 4) if tier == "quick" else (1, 2, 8)
        limits = (None, 1, 8, 64)
        ths = (None, 1, 4) if tier == "quick" else (None, 1, 2, 4)
    for isz, bsl, th, dl in itertools.product(items, limits, ths, DEGREE_LIMITS):
        yield {"itemsize": isz, "bsl": bsl, "threshold": th, "degree_limit": dl, "chunk_size": "1kiB" if (bsl is None and isz == items[-1]) else "128MiB"}


def _all_chunkings(shape):
    return list(itertools.product(*(list(compositions(n)) for n in shape)))


def run_exhaustive(spec, col):
    shape = tuple(spec["shape"])
    tier = spec["tier"]
    rank = len(shape)
    grid = list(_grid(tier, rank))
    chunkings = _all_chunkings(shape)
    lab = f"exhaustive:rank{rank}"
    lo, hi = spec.get("slice", [0, len(chunkings)])
    for old in chunkings[lo:hi]:
        for new in chunkings:
            first = True
            for params in grid:
                case = {"old": [list(c) for c in old], "new": [list(c) for c in new], "compute": False}
                case.update(params)
                # the crosswalk does not depend on the parameters: check it once per pair
                _record(col, case, (lab,), crosswalk=first)
                first = False
    col.exhaustive = True


def run_random(spec, seed, col):
    import hypothesis
    from hypothesis import HealthCheck, Phase, given, settings
    from hypothesis import strategies as st

    from vf.gen import chunks as C
    from vf.gen.draw import D

    def derive(d, oc, n, mb):
        """New axis chunks related to the old ones: coarsening or refinement."""
        cuts = list(itertools.accumulate(oc))[:-1]
        if d.bool() and cuts:
            keep = d.subset(cuts, max_size=len(cuts))
            pts = sorted(set(keep))
        else:
            free = max(0, min(mb, n) - len(oc))
            extra = d.draw(st.lists(st.integers(1, n - 1), max_size=min(free, 6), unique=True)) if n > 1 and free else []
            pts = sorted(set(cuts) | set(extra))
        b = [0] + pts + [n]
        return tuple(b[i + 1] - b[i] for i in range(len(b) - 1))

    @st.composite
    def case_st(draw):
        d = D(draw)
        compute = d.chance(1, 10)
        if compute:
            rank = d.weighted([(1, 2), (2, 5), (3, 3), (4, 1)])
            maxn = {1: 60, 2: 16, 3: 8, 4: 5}[rank]
            mb = {1: 12, 2: 6, 3: 4, 4: 3}[rank]
        else:
            rank = d.weighted([(1, 3), (2, 6), (3, 4), (4, 2)])
            maxn = {1: 300, 2: 300, 3: 120, 4: 40}[rank]
            mb = {1: 64, 2: 32, 3: 10, 4: 6}[rank]
        cross = rank >= 2 and d.chance(1, 4)
        old, new = [], []
        for _ in range(rank):
            kind = d.weighted([("medium", 8), ("small", 8), ("large", 8), ("zero", 1)])
            if kind == "zero":
                n = 0
            elif kind == "small":
                n = d.int(1, min(8, maxn))
            elif kind == "medium":
                n = d.int(1, min(40, maxn))
            else:
                n = d.int(1, maxn)
            oc = C.axis_chunks(d, n, max_blocks=mb)
            how = "cross" if cross else d.weighted([("free", 10), ("derived", 3), ("same", 2)])
            if n == 0 or how == "same":
                nc = oc
            elif how == "cross":
                # one side fine, the other coarse: the shape the merge/split planner exists for
                oc = C.axis_chunks(d, n, family=d.choice(["uniform", "ones", "jitter", "irregular"]), max_blocks=mb)
                nc = C.axis_chunks(d, n, family=d.choice(["single", "uniform", "irregular"]), max_blocks=max(1, min(mb, 3)))
            elif how == "derived":
                nc = derive(d, oc, n, mb)
            else:
                nc = C.axis_chunks(d, n, max_blocks=mb)
            if d.bool():
                oc, nc = nc, oc
            if n > 0 and d.chance(1, 8):
                # zero-width blocks (what boolean masks, empty slices and concatenations of empty pieces leave
                # behind) at the start, inside or at the end of either chunking
                oc, nc = list(oc), list(nc)
                for side in d.choice([(oc,), (nc,), (oc, nc)]):
                    for _ in range(d.int(1, 2)):
                        where = d.weighted([("end", 3), ("start", 2), ("inside", 2)])
                        side.insert(len(side) if where == "end" else 0 if where == "start" else d.int(0, len(side)), 0)
            old.append(list(oc))
            new.append(list(nc))
        return {
            "old": old,
            "new": new,
            "itemsize": d.choice(ITEMSIZES),
            "threshold": d.choice(THRESHOLDS),
            "bsl": d.choice(LIMITS),
            "degree_limit": d.choice(DEGREE_LIMITS),
            "chunk_size": d.weighted([("128MiB", 3), ("1kiB", 1), ("64", 1), ("1000", 1)]),
            "compute": compute,
        }

    @hypothesis.seed(seed)
    @settings(
        max_examples=spec["cases"],
        database=None,
        deadline=None,
        derandomize=False,
        phases=[Phase.generate],
        suppress_health_check=list(HealthCheck),
    )
    @given(case_st())
    def body(case):
        _record(col, case, ("random",))

    body()
    col.exhaustive = False


def plan(tier):
    scale = float(os.environ.get("VERIF_SCALE", "1"))
    if tier == "quick":
        n1, n2, rnd, shards = 6, 3, 48000, 16
    else:
        n1, n2, rnd, shards = 7, 4, 600000, 48
    specs = [{"part": "exhaustive", "tier": tier, "shape": [], "slice": [0, 1], "w": 1}]
    for n in range(0, n1 + 1):
        total = len(_all_chunkings((n,)))
        parts = 4 if total >= 64 else 1
        for p in range(parts):
            specs.append({"part": "exhaustive", "tier": tier, "shape": [n], "slice": [total * p // parts, total * (p + 1) // parts], "w": total * total // parts})
    for a in range(0, n2 + 1):
        for b in range(0, n2 + 1):
            total = len(_all_chunkings((a, b)))
            parts = 4 if total >= 32 else 1
            for p in range(parts):
                specs.append(
                    {"part": "exhaustive", "tier": tier, "shape": [a, b], "slice": [total * p // parts, total * (p + 1) // parts], "w": 2 * total * total // parts}
                )
    specs.sort(key=lambda s: -s["w"])
    per = max(20, int(rnd * scale / shards))
    rnd_specs = [{"part": "random", "cases": per} for _ in range(shards)]
    # long random shards first so the pool stays busy
    return rnd_specs + specs


def run_shard(spec, seed):
    col = Collector()
    if spec["part"] == "random":
        run_random(spec, seed, col)
    else:
        run_exhaustive(spec, col)
    return col.result()


_REQ = [
    "rank=1",
    "rank=2",
    "rank=3",
    "rank=4",
    "old!=new",
    "degree-bound-active",
    "multi-step-plan",
    "planner-multi-step",
    "limit-binding",
    "limit-from-config",
    "zero-length-axis",
    "exhaustive:rank1",
    "exhaustive:rank2",
    "random",
    "crosswalk:plan-pairs",
    "intersect_chunks",
    "compute",
    "compute:tasks-rechunk",
    "compute:multi-step-graph",
]
REQUIRED_CLASSES = {"quick": list(_REQ), "thorough": list(_REQ)}


def _register_known_predicates():
    from vf import known

    known.PREDICATES["c15:over_budget_step_not_in_unbounded_plan"] = over_budget_step_not_in_unbounded_plan


_register_known_predicates()
