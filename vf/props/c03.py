"""C03 — advertised shape, dtype and chunks are what the graph produces."""

from __future__ import annotations

import itertools
import math

import dask
import numpy as np

from vf import executor as E
from vf import progrun, util
from vf.gen import programs as P

PROPERTY = "C03"
RULE = (
    "Same program generator as C01. For EVERY variable of the program (each is an array reachable from the public "
    "API), under array.optimize-graph on and off, the graph from __dask_graph__() is executed with the harness' own "
    "executor and every block (name, *idx) of the advertised grid is compared with .chunks (axes with NaN sizes: only "
    "the number of blocks); the assembled result must have the advertised shape and dtype. Non-trivial: the array "
    "has >= 4 blocks or the optimised root has other chunks than the raw one (bridge); distinct = distinct program JSON."
)
ASSUMPTIONS = [
    "blocks are produced by the harness' executor over the graph returned by __dask_graph__ (cross-checked against NumPy values elsewhere: C01)",
    "NotImplementedError when building the graph is a refusal",
]

from vf import exclusions as _ex

EXCLUDE = _ex.RAISES


# configurations a collection may be built under / materialised under (chunk unification is decided
# at construction for the advertised layout and again at lowering for the graph)
CFGS = [
    {},
    {"array.unify-chunks-policy": "refine"},
    {"array.unify-chunks-policy": "coarse"},
    {"array.unify-chunks-limit": "32B"},
    {"array.chunk-size": "64B"},
]


def check_array(x, tag):
    """[(bucket, detail)] for one collection."""
    fails = []
    try:
        g = dict(x.__dask_graph__())
        values, _ = E.execute(g)
    except NotImplementedError:
        return "refused", fails, {}
    except E.GraphError as e:
        return "ok", [(f"graph|{e.kind}|{tag}", str(e))], {}
    except Exception as e:
        return "ok", [(util.exc_bucket(f"execute[{tag}]", e), util.exc_detail(e))], {}
    chunks = x.chunks
    name = x.name
    info = {"nblocks": int(np.prod([len(c) for c in chunks])) if chunks else 1}
    for idx in itertools.product(*[range(len(c)) for c in chunks]):
        key = (name,) + idx
        if key not in values:
            fails.append((f"block|missing-key|{tag}", f"{key!r} not produced"))
            break
        v = values[key]
        shp = getattr(v, "shape", None)
        if shp is None:
            shp = np.asarray(v).shape
        want = tuple(chunks[d][i] for d, i in enumerate(idx))
        if len(shp) != len(want):
            fails.append((f"block|ndim|{tag}", f"block {idx} has shape {shp}, advertised {want}"))
            break
        bad = [d for d in range(len(want)) if not (isinstance(want[d], float) and math.isnan(want[d])) and shp[d] != want[d]]
        if bad:
            fails.append((f"block|shape|{tag}", f"block {idx} has shape {shp}, advertised chunks give {want}"))
            break
    if not fails:
        try:
            res = E.assemble(x, values)
        except Exception as e:
            fails.append((util.exc_bucket(f"finalize[{tag}]", e), util.exc_detail(e)))
            return "ok", fails, info
        rshape = np.asarray(res).shape if not hasattr(res, "shape") else res.shape
        ashape = x.shape
        if len(rshape) != len(ashape) or any(not (isinstance(a, float) and math.isnan(a)) and a != r for a, r in zip(ashape, rshape)):
            fails.append((f"result|shape|{tag}", f"computed shape {rshape}, advertised {ashape}"))
        rdt = getattr(res, "dtype", None)
        if rdt is not None and rdt != x.dtype:
            fails.append((f"result|dtype|{tag}", f"computed dtype {rdt}, advertised {x.dtype}"))
    return "ok", fails, info


def check(case, vals=None):
    prog = case["program"]
    fails, labs = [], []
    refused = False
    maxblocks = 0
    cfg_build = CFGS[case.get("cfg_build", 0)]
    cfg_graph = CFGS[case.get("cfg_graph", 0)]
    if cfg_build != cfg_graph:
        labs.append("config-differs-between-build-and-graph")
    for og in (True, False):
        with dask.config.set(cfg_build):
            vars_, status = progrun.build_or_reject(prog)
            if vars_ is None:
                return status, [], []
            try:
                for v in vars_:
                    v.chunks  # advertised layout is fixed under the construction-time configuration
            except NotImplementedError:
                return "rejected:NotImplementedError", [], []
            except Exception as e:
                # no layout is advertised at all: a build failure like any other (counted, not judged here)
                return "rejected:" + util.exc_bucket("build-chunks", e), [], []
        with dask.config.set({"array.optimize-graph": og, **cfg_graph}):
            L = len(prog["leaves"])
            for k in range(L, len(vars_)):
                x = vars_[k]
                st, f, info = check_array(x, "opt" if og else "raw")
                if st == "refused":
                    refused = True
                    continue
                maxblocks = max(maxblocks, info.get("nblocks", 0))
                for b, d in f:
                    fails.append((b, f"variable {k} ({prog['stmts'][k - L]['op']}): {d}"))
                if og:
                    try:
                        le = x._lowered_expr
                        inner = le.operands[0] if type(le).__name__ == "RootAlias" else le
                        if "Rechunk" in type(inner).__name__ and type(le).__name__ == "RootAlias":
                            labs.append("bridge-rechunk-under-rootalias")
                        if type(le).__name__ == "RootAlias":
                            labs.append("rootalias")
                    except Exception:
                        pass
    if maxblocks >= 4:
        labs.append("blocks>=4")
    return ("refused" if refused and not fails else "ok"), fails, labs


def replay(case):
    _, fails, _ = check(case)
    return fails


shrink = progrun.shrink_case


def nontrivial(case, labels):
    return "blocks>=4" in labels or "bridge-rechunk-under-rootalias" in labels


def _cfg_choice(prog):
    """Configuration pair as a pure function of the program (half of the cases use the defaults twice)."""
    h = int(util.h64(prog), 16)
    if h % 2 == 0:
        return {"cfg_build": 0, "cfg_graph": 0}
    h //= 2
    return {"cfg_build": h % len(CFGS), "cfg_graph": (h // len(CFGS)) % len(CFGS)}


def run_shard(spec, seed):
    return progrun.run_program_shard(spec, seed, check, nontrivial, exclude_only=EXCLUDE, case_extra=_cfg_choice)


def plan(tier):
    return progrun.plan_cases(tier, 3200, 300000)


REQUIRED_CLASSES = {"quick": ["rootalias", "blocks>=4", "fam:window", "fam:reduction"], "thorough": ["rootalias", "blocks>=4", "bridge-rechunk-under-rootalias"]}
