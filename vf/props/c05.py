"""C05 — every compute/persist/optimize entry point agrees."""

from __future__ import annotations

import math

import dask
import hypothesis
import numpy as np
from hypothesis import HealthCheck, Phase, given, settings
from hypothesis import strategies as st

from vf import exclusions, progrun, util
from vf.gen import programs as P
from vf.runner import Collector

PROPERTY = "C05"
RULE = (
    "Program generator of C01 (single output) x entry point in {x.compute(), dask.compute(x), dask.compute(x, other "
    "collection, delayed), x.persist(), dask.persist(x), dask.optimize(x), x.optimize(), x.to_delayed()} x follow-on "
    "operation in {none, +1, slice, sum, rechunk, transpose} applied to the returned collection. Oracle: every value "
    "equals the NumPy value of the program (hence each other); results of x.persist / dask.persist / dask.optimize "
    "keep x's name, chunks (NaN-aware) and dtype; the follow-on applied to the returned collection equals the "
    "follow-on applied to the NumPy value; to_delayed blocks are reassembled by grid position. Non-trivial: the "
    "materialised root was renamed by optimisation (RootAlias) and the entry point is not x.compute(); distinct = "
    "distinct (program, entry, follow-on) JSON."
)
ASSUMPTIONS = ["NumPy twin is the reference (C01's tolerance)", "sync scheduler"]

ENTRIES = ["x.compute", "dask.compute", "dask.compute-arrays", "dask.compute-mixed", "x.persist", "dask.persist", "dask.optimize", "x.optimize", "to_delayed"]


def _seven():
    return 7
FOLLOW = ["none", "none", "plus1", "slice", "sum", "rechunk", "T"]
EXCLUDE = exclusions.ALL

REDUCTION_OPS = set(P.REDUCTIONS) | {"cumsum", "cumprod"}


def region_dask_optimize_unlowered(case):
    """dask.optimize / dask.persist (dask's generic optimiser over the raw expression) on a program whose
    root needs lowering into several layers (reductions, scans, sliding windows, tensordot...)."""
    return case["entry"] in ("dask.optimize", "dask.persist")


def _chunks_equal(a, b):
    if len(a) != len(b):
        return False
    for ca, cb in zip(a, b):
        if len(ca) != len(cb):
            return False
        for u, v in zip(ca, cb):
            if (isinstance(u, float) and math.isnan(u)) and (isinstance(v, float) and math.isnan(v)):
                continue
            if u != v:
                return False
    return True


def _follow_np(v, follow):
    v = np.asarray(v)
    if follow == "none":
        return v
    if follow == "plus1":
        return v + 1
    if follow == "slice":
        return v[tuple(slice(None, None, 2) if i == 0 else slice(None) for i in range(v.ndim))] if v.ndim else v
    if follow == "sum":
        return v.sum()
    if follow == "rechunk":
        return v
    if follow == "T":
        return v.T
    raise ValueError(follow)


def _follow_da(y, follow):
    if follow == "none":
        return y
    if follow == "plus1":
        return y + 1
    if follow == "slice":
        return y[tuple(slice(None, None, 2) if i == 0 else slice(None) for i in range(y.ndim))] if y.ndim else y
    if follow == "sum":
        return y.sum()
    if follow == "rechunk":
        return y.rechunk(tuple(max(1, (n + 1) // 2) if not (isinstance(n, float) and math.isnan(n)) else -1 for n in y.shape)) if y.ndim else y
    if follow == "T":
        return y.T
    raise ValueError(follow)


def check(case, vals=None):
    import dask_array as da

    prog = case["program"]
    entry, follow = case["entry"], case["follow"]
    if vals is None:
        vals = P.eval_np(prog)
    vars_, status = progrun.build_or_reject(prog)
    if vars_ is None:
        return status, [], []
    o = prog["outputs"][0]
    x = vars_[o]
    exp = vals[o]
    if exp.dtype == np.bool_ and follow == "plus1":
        follow = "none"
    atol = util.float_tolerance(vals, [s["op"] for s in prog["stmts"]] + (["sum"] if follow == "sum" else []))
    if follow == "sum" and atol is not None:
        atol *= max(1, exp.size)
    fails, labs = [], ["entry:" + entry, "follow:" + follow]
    name0, chunks0, dtype0 = x.name, x.chunks, x.dtype

    def cmp(got, want, what):
        why = util.same(got, want, rtol=0.0, atol=atol)
        if why:
            fails.append((f"{entry}|{what}|{why.split(' ')[0]}", f"{what}: {why}\n got={util.short(got)}\n exp={util.short(want)}"))

    try:
        if type(x._lowered_expr).__name__ == "RootAlias":
            labs.append("rootalias")
    except Exception:
        pass
    try:
        if entry == "x.compute":
            cmp(x.compute(), exp, "value")
        elif entry == "dask.compute":
            (got,) = dask.compute(x)
            cmp(got, exp, "value")
        elif entry in ("dask.compute-arrays", "dask.compute-mixed"):
            other = vars_[0] + 1 if vals[0].dtype != np.bool_ else vars_[0]
            if entry == "dask.compute-arrays":
                got, got2 = dask.compute(x, other)
            else:
                d = dask.delayed(_seven)()
                got, got2, got3 = dask.compute(x, other, d)
                if not (isinstance(got3, int) and got3 == 7):
                    fails.append((f"{entry}|delayed-value", repr(got3)[:200]))
            cmp(got, exp, "value")
            cmp(got2, vals[0] + 1 if vals[0].dtype != np.bool_ else vals[0], "other-collection-value")
        elif entry == "to_delayed":
            blocks = x.to_delayed()
            flat = dask.compute(*blocks.ravel().tolist()) if blocks.size else ()
            if x.ndim == 0:
                got = np.asarray(flat[0])
            else:
                arr = np.empty(blocks.shape, dtype=object)
                for i, v in enumerate(flat):
                    arr.ravel()[i] = v
                if blocks.shape != tuple(len(c) for c in x.chunks):
                    fails.append((f"{entry}|grid-shape", f"{blocks.shape} vs numblocks {x.numblocks}"))
                got = np.block(arr.tolist()) if blocks.size else np.empty(exp.shape, exp.dtype)
            cmp(got, exp, "value")
        else:
            if entry == "x.persist":
                y = x.persist()
            elif entry == "dask.persist":
                (y,) = dask.persist(x)
            elif entry == "dask.optimize":
                (y,) = dask.optimize(x)
            else:
                y = x.optimize()
            if not isinstance(y, da.Array):
                fails.append((f"{entry}|returned-type", type(y).__name__))
            else:
                if entry != "x.optimize":
                    if y.name != name0:
                        fails.append((f"{entry}|name-not-kept", f"{name0} -> {y.name}"))
                    if not _chunks_equal(y.chunks, chunks0):
                        fails.append((f"{entry}|chunks-not-kept", f"{chunks0} -> {y.chunks}"))
                if y.dtype != dtype0:
                    fails.append((f"{entry}|dtype-not-kept", f"{dtype0} -> {y.dtype}"))
                cmp(y.compute(), exp, "value")
                if follow != "none":
                    z = _follow_da(y, follow)
                    cmp(z.compute(), _follow_np(exp, follow), "follow-on:" + follow)
        if x.name != name0:
            fails.append((f"{entry}|source-name-changed", f"{name0} -> {x.name}"))
    except NotImplementedError:
        return "refused", fails, labs
    except Exception as e:
        fails.append((util.exc_bucket(entry, e), util.exc_detail(e)))
    if not fails and exp.dtype.kind in "iuf" and exp.size and int(util.h64(prog), 16) % 3 == 0 and not any(isinstance(c, float) for ax in x.chunks for c in ax):
        # the SAME object, already materialised through the entry point above, is updated in place with a dask
        # boolean key; the method and the function entry points must then both see the new array
        # a threshold strictly between two data values, well away from both: values of inexact statements
        # (var = 5.000000000001) must not straddle it
        u = np.unique(exp[np.isfinite(exp)]) if exp.dtype.kind == "f" else np.unique(exp)
        gaps = [(float(b) - float(a), k) for k, (a, b) in enumerate(zip(u[:-1], u[1:]))]
        scale = float(np.max(np.abs(u))) if u.size else 0.0
        gaps = [(g, k) for g, k in gaps if g > 1e-6 * max(1.0, scale)]
        if not gaps:
            return "ok", fails, labs
        k = gaps[len(gaps) // 2][1]
        thr = (float(u[k]) + float(u[k + 1])) / 2.0
        exp2 = exp.copy()
        try:
            with np.errstate(all="ignore"):
                exp2[exp2 > thr] = 0
                x[x > thr] = 0
            got_m = x.compute()
            (got_f,) = dask.compute(x)
        except Exception:
            labs.append("masked-update-raised")  # whether the update is accepted is C11's business
        else:
            labs.append("masked-update-then-both-entries")
            cmp(got_m, exp2, "after-masked-update:x.compute")
            cmp(got_f, exp2, "after-masked-update:dask.compute")
    return "ok", fails, labs


def replay(case):
    _, fails, _ = check(case)
    return fails


def shrink(case):
    if case["follow"] != "none":
        new = dict(case)
        new["follow"] = "none"
        yield new
    yield from progrun.shrink_case(case)


def run_shard(spec, seed):
    col = Collector()
    open_ids = exclusions._open_ids()

    @hypothesis.seed(seed)
    @settings(max_examples=spec["cases"], database=None, deadline=None, derandomize=False, phases=[Phase.generate], suppress_health_check=list(HealthCheck))
    @given(P.program_strategy(n_outputs=(1, 1), max_stmts=5), st.sampled_from(ENTRIES), st.sampled_from(FOLLOW))
    def body(pg, entry, follow):
        prog, stats = pg
        if not prog["stmts"]:
            col.reject("empty-program")
            return
        vals = P.eval_np(prog)
        fid = exclusions.excluded(prog, vals, only=EXCLUDE)
        if fid:
            col.exclude(fid)
            return
        if entry in ("x.compute", "dask.compute", "dask.compute-arrays", "dask.compute-mixed", "to_delayed"):
            follow = "none"
        case = {"program": prog, "entry": entry, "follow": follow}
        for kid, fn in KNOWN_REGIONS.items():
            if kid in open_ids and fn(case):
                col.exclude(kid)
                return
        status, fails, labs = check(case, vals)
        if status.startswith("rejected"):
            col.reject(status[:100])
            return
        labels = progrun.base_labels(prog) + labs
        col.case(case, "rootalias" in labs and entry != "x.compute", labels)
        for b, d in fails:
            col.fail(b, case, d)

    body()
    return col.result()


def _has_op(case, names):
    return any(s["op"] in names for s in case["program"]["stmts"])


MULTI_LAYER_OPS = REDUCTION_OPS | {"sliding_window_view", "tensordot", "matmul", "diff", "pad", "roll", "rot90", "tile", "reshape", "ravel", "take", "shuffle", "getitem_list", "repeat", "rechunk", "rechunk_auto", "concatenate", "stack"}


def region_generic_optimizer(case):
    """dask.optimize(x) / dask.persist(x): dask's generic optimiser walks the RAW expression."""
    return case["entry"] in ("dask.optimize", "dask.persist")


TREE_OPS = set(P.REDUCTIONS) | {"tensordot", "matmul"}


def region_dask_optimize_tree_reduction(case):
    """dask.optimize(x) where the program contains a tree reduction (sum/mean/.../tensordot/matmul):
    dask's generic optimiser walks the RAW expression and the un-lowered Reduction emits only its top layer."""
    if case["entry"] != "dask.optimize":
        return False
    if _has_op(case, TREE_OPS):
        return True
    # more generally: any raw tree that lowering would change (chunk unification
    # of elemwise operands, diff, pad, ...) is emitted un-lowered by this path
    try:
        x = P.build_da(case["program"])[case["program"]["outputs"][0]]
        return x.expr.lower_completely()._name != x.expr._name
    except Exception:
        return False


def region_generic_optimizer_window_reduction(case):
    """dask.persist / dask.optimize of a reduction over a sliding window view."""
    return case["entry"] in ("dask.persist", "dask.optimize") and _has_op(case, {"sliding_window_view"}) and _has_op(case, TREE_OPS)


def region_mixed_compute_dead_sinks(case):
    """dask.compute(x, ..., delayed): mixed Expr/HLG mode identifies x's outputs as the sink keys of its
    graph; region = x's optimised graph has sink keys besides its own output keys (unculled tasks)."""
    if case["entry"] != "dask.compute-mixed":
        return False
    from vf import executor as E

    prog = case["program"]
    try:
        vars_ = P.build_da(prog)
    except Exception:
        return False  # not a program at all (rejected at build)
    try:
        other = vars_[0] + 1 if vars_[0].dtype != np.bool_ else vars_[0]
    except Exception:
        other = vars_[0]
    for x in (vars_[prog["outputs"][0]], other):
        try:
            opt = x.expr.optimize()
            from dask._expr import Expr

            g = dict(Expr.__dask_graph__(opt))
            nodes, deps, dependents = E.structure(g)
        except Exception:
            return True
        own = set(E.flatten_keys(opt.__dask_keys__()))
        sinks = {k for k, d in dependents.items() if not d}
        if sinks - own:
            return True
    return False


def region_strided_slice_of_optimized_moment(case):
    """A stepped slice of the collection x.optimize() returns for a mean/var/std over a computed (fusable)
    input: the optimised root is the lowered reduction, and the slice is pushed into blocks that are still
    the chunk step's dicts."""
    prog = case["program"]
    L = len(prog["leaves"])
    o = prog["outputs"][0]
    if case.get("entry") != "x.optimize" or case.get("follow") != "slice" or o < L:
        return False
    s = prog["stmts"][o - L]
    return s["op"] in ("mean", "var", "std") and s["args"][0] >= L


KNOWN_REGIONS = {
    "KF-strided-slice-of-optimized-moment": region_strided_slice_of_optimized_moment,
    "KF-dask-optimize-tree-reduction": region_dask_optimize_tree_reduction,
    "KF-generic-optimizer-window-reduction": region_generic_optimizer_window_reduction,
    "KF-mixed-compute-dead-sinks": region_mixed_compute_dead_sinks,
}


def _register():
    from vf import known

    for fid, fn in KNOWN_REGIONS.items():
        known.PREDICATES["c05:" + fid] = fn


_register()


def plan(tier):
    return progrun.plan_cases(tier, 3200, 250000)


REQUIRED_CLASSES = {"quick": ["entry:" + e for e in ENTRIES] + ["rootalias", "follow:sum", "follow:rechunk", "fam:reduction", "fam:window"], "thorough": ["entry:" + e for e in ENTRIES] + ["rootalias"]}
