"""C01 — array programs compute what NumPy computes."""

from __future__ import annotations

import os

import hypothesis
from hypothesis import HealthCheck, Phase, given, settings

from vf import exclusions, known, util
from vf.gen import programs as P
from vf.runner import Collector

PROPERTY = "C01"
RULE = (
    "Hypothesis draws DAG programs (1-7 statements over 1-2 leaves, ~60 ops in 11 families: elemwise, broadcasting "
    "binary ops, shape ops, stacking, indexing incl. int lists/take/shuffle, rechunk, reductions, scans, sliding "
    "windows, map_blocks, matmul/tensordot) over rank 0-4 shapes with axis lengths 0-8, 7 dtypes and 5 chunking "
    "families; each statement is valid for NumPy by construction. Oracle: NumPy twin interpreter (values, shape, "
    "dtype; exact for bool/int, 4096 eps relative to max|expected| for floats). Non-trivial: >=2 statements, >=2 "
    "blocks in some leaf and at least one non-elemwise op; distinct = distinct canonical program JSON."
)
ASSUMPTIONS = [
    "NumPy is the reference; statements for which NumPy raises or warns are not programs",
    "a public call that raises while building the collection is a rejection (counted), NotImplementedError at compute is a refusal; any other compute-time exception is a violation",
    "sync scheduler",
]


def check_program(prog, compute=None):
    """Returns (status, failures) with failures = [(bucket, detail)]."""
    try:
        vals = P.eval_np(prog)
    except P.NumpyUndefined as e:
        raise AssertionError(f"invalid case: {e}")  # harness-level: shrink candidates land here
    try:
        vars_ = P.build_da(prog)
    except NotImplementedError as e:
        return "rejected:NotImplementedError", []
    except Exception as e:
        return "rejected:" + util.exc_bucket("build", e), []
    fails = []
    for o in prog["outputs"]:
        x = vars_[o]
        try:
            got = x.compute() if compute is None else compute(x)
        except NotImplementedError:
            return "refused", fails
        except Exception as e:
            fails.append((util.exc_bucket("compute", e), util.exc_detail(e)))
            continue
        exp = vals[o]
        why = util.same(got, exp, rtol=0.0, atol=util.float_tolerance(vals, [s["op"] for s in prog["stmts"]]))
        if why is not None:
            L = len(prog["leaves"])
            last = prog["stmts"][o - L]["op"] if o >= L else "leaf"
            kind = why.split(" ")[0]
            fails.append((f"mismatch|{kind}|last={last}", f"{why}\n got={util.short(got)}\n exp={util.short(exp)}"))
    return "ok", fails


def replay(case):
    _, fails = check_program(case["program"])
    return fails


def shrink(case):
    for p in P.shrink_program(case["program"]):
        yield {"program": p}


def labels_for(prog):
    labs = ["fam:" + f for f in P.families(prog)]
    labs += ["op:" + s["op"] for s in prog["stmts"]]
    if P.has_zero_axis(prog):
        labs.append("zero-axis")
    if P.shares_variable(prog):
        labs.append("shared-variable")
    if len(prog["outputs"]) > 1:
        labs.append("two-outputs")
    return labs


def nontrivial(prog):
    return len(prog["stmts"]) >= 2 and P.n_blocks_max(prog) >= 2 and bool(P.families(prog) - {"elemwise", "elemwise2"})


def run_shard(spec, seed):
    col = Collector()

    @hypothesis.seed(seed)
    @settings(max_examples=spec["cases"], database=None, deadline=None, derandomize=False, phases=[Phase.generate], suppress_health_check=list(HealthCheck))
    @given(P.program_strategy(max_stmts=spec.get("max_stmts", 6)))
    def body(pg):
        prog, stats = pg
        if stats["discarded"]:
            col.rejected["generator-discarded-statements"] += stats["discarded"]
        if not prog["stmts"]:
            col.reject("empty-program")
            return
        fid = exclusions.excluded(prog, P.eval_np(prog))
        if fid:
            col.exclude(fid)
            return
        status, fails = check_program(prog)
        if status.startswith("rejected"):
            col.reject(status[:120])
            return
        case = {"program": prog}
        labs = labels_for(prog)
        if status == "refused":
            labs.append("refused-NotImplementedError")
        col.case(case, nontrivial(prog), labs)
        for b, d in fails:
            col.fail(b, case, d)

    body()
    return col.result()


def plan(tier):
    scale = float(os.environ.get("VERIF_SCALE", "1"))
    n = 400 if tier == "quick" else 12000
    return [{"cases": max(5, int(n * scale))} for _ in range(16 if tier == "quick" else 48)]


REQUIRED_CLASSES = {
    "quick": ["fam:" + f for f, w in P.FAMILY_WEIGHTS.items() if w > 0] + ["zero-axis", "shared-variable"],
    "thorough": ["fam:" + f for f, w in P.FAMILY_WEIGHTS.items() if w > 0] + ["zero-axis", "shared-variable"],
}
