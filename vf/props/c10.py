"""C10 — computation is schedule-independent and never mutates inputs."""

from __future__ import annotations

import dask
import hypothesis
import numpy as np
from hypothesis import HealthCheck, Phase, given, settings
from hypothesis import strategies as st

from vf import exclusions, progrun, util
from vf import executor as E
from vf.gen import programs as P
from vf.runner import Collector

PROPERTY = "C10"
RULE = (
    "Program generator of C01 weighted toward fused elemwise chains, rechunk splits/merges (views), sliding-window "
    "kernels, setitem, reductions and shared subgraphs, over NumPy sources. Each output's task graph is executed by the "
    "harness' own executor in 6 schedules it owns (depth-first, breadth-first, reverse-lexicographic and 3 random "
    "topological orders whose choices are Hypothesis-drawn) plus dask's threaded scheduler (4 workers, twice) and the "
    "synchronous one. Oracle: (a) all schedules give bitwise-identical outputs, equal to NumPy; (b) around EVERY task "
    "execution the fingerprints (bytes+shape+dtype) of all its dependency values are unchanged, and at the end of each "
    "schedule every value ever produced still has the fingerprint it had when created (so no task mutated any other "
    "task's output, directly or through a view); (c) every task re-executed on the same inputs gives a bitwise-equal "
    "result (no hidden state); (d) the NumPy arrays handed to from_array are bitwise unchanged. If no task mutates a "
    "dependency and every task is a deterministic function of its inputs, every topological order and interleaving "
    "computes the same values; (b)+(c) check those premises under all generated orders. Non-trivial: the graph has a "
    "key with >= 2 dependents and >= 8 tasks; distinct = distinct (program, schedule choices) JSON."
)
ASSUMPTIONS = [
    "thread interleavings under the GIL are not controlled: the threaded runs are a smoke test; the argument rests on the per-task premises checked under owned schedules",
    "values are fingerprinted by bytes/shape/dtype; non-array task values by repr",
]
EXCLUDE = exclusions.ALL
WEIGHTS = {"setitem": 6, "elemwise": 10, "elemwise2": 9, "shape": 6, "stack": 4, "index": 8, "rechunk": 9, "reduction": 6, "scan": 3, "window": 5, "map_blocks": 3, "linalg": 1}


class _Leaves:
    """leaf factory that keeps the very arrays handed to from_array and pristine copies."""

    def __init__(self):
        self.sources = []

    def __call__(self, leaf, data):
        import dask_array as da

        src = data.copy()
        self.sources.append((src, src.copy()))
        return da.from_array(src, chunks=tuple(tuple(c) for c in leaf["chunks"]))


def _chooser(ints):
    state = {"i": 0}

    def choose(n):
        v = ints[state["i"] % len(ints)] % n
        state["i"] += 1
        return v

    return choose


def check(case, vals=None):
    prog = case["program"]
    if vals is None:
        vals = P.eval_np(prog)
    leaves = _Leaves()
    try:
        vars_ = P.build_da(prog, leaf_factory=leaves)
    except NotImplementedError:
        return "rejected:NotImplementedError", [], []
    except Exception as e:
        return "rejected:" + util.exc_bucket("build", e), [], []
    fails, labs = [], []
    atol = util.float_tolerance(vals, [s["op"] for s in prog["stmts"]])
    orders = case.get("orders") or [[0]]
    for o in prog["outputs"]:
        x = vars_[o]
        try:
            g = dict(x.__dask_graph__())
            nodes, deps, dependents = E.structure(g)
        except NotImplementedError:
            return "refused", fails, labs
        except Exception as e:
            fails.append((util.exc_bucket("graph", e), util.exc_detail(e)))
            continue
        if len(nodes) >= 8 and any(len(d) >= 2 for d in dependents.values()):
            labs.append("shared-key-and>=8-tasks")
        results = []
        schedules = [("dfs", None), ("bfs", None), ("reverse", None)] + [("random", _chooser(ints)) for ints in orders[:3]]
        for si, (mode, chooser) in enumerate(schedules):
            try:
                values, rep = E.execute(g, mode=mode, chooser=chooser, watch=True, rerun=(si in (0, 3)), check_final=True)
            except Exception as e:
                fails.append((util.exc_bucket(f"execute[{mode}]", e), util.exc_detail(e)))
                continue
            for k, d in rep["mutations"][:2]:
                fails.append((f"mutation|task-changed-its-dependency|{_fn(nodes, k)}", f"schedule {mode}: task {k!r} changed the value of its dependency {d!r}"))
            for k in rep.get("mutated_later", [])[:2]:
                fails.append((f"mutation|value-changed-after-creation|{_fn(nodes, k)}", f"schedule {mode}: the value of {k!r} no longer has the fingerprint it had when produced"))
            for k in rep["nondeterministic"][:2]:
                fails.append((f"nondeterministic-task|{_fn(nodes, k)}", f"task {k!r} re-executed on the same inputs gave a different result"))
            try:
                results.append((mode, E.assemble(x, values)))
            except Exception as e:
                fails.append((util.exc_bucket(f"assemble[{mode}]", e), util.exc_detail(e)))
        # dask's own schedulers
        for name, kw in (("sync", {"scheduler": "sync"}), ("threads-1", {"scheduler": "threads", "num_workers": 4}), ("threads-2", {"scheduler": "threads", "num_workers": 4})):
            try:
                results.append((name, x.compute(**kw)))
            except NotImplementedError:
                labs.append("refused-at-compute")
            except Exception as e:
                fails.append((util.exc_bucket(f"compute[{name.split('-')[0]}]", e), util.exc_detail(e)))
        if results:
            ref_name, ref = results[0]
            for name, r in results[1:]:
                if E.fingerprint(np.asarray(r)) != E.fingerprint(np.asarray(ref)):
                    fails.append((f"schedules-disagree|{name.split('-')[0]}-vs-{ref_name}", f"{name} and {ref_name} give different bits: {util.same(r, ref, rtol=0.0)}"))
                    break
            why = util.same(ref, vals[o], rtol=0.0, atol=atol)
            if why:
                fails.append((f"values|{why.split(' ')[0]}", f"{ref_name}: {why}"))
        if any(type(n).__name__ == "FusedBlockwise" for n in x._lowered_expr.walk()):
            labs.append("fused")
    for src, pristine in leaves.sources:
        if E.fingerprint(src) != E.fingerprint(pristine):
            fails.append(("source-mutated|from_array-numpy", "a NumPy array handed to from_array was modified by computing"))
            break
    for s in prog["stmts"]:
        if s["op"] in ("setitem", "sliding_window_view", "rechunk", "rechunk_auto", "cumsum", "cumprod"):
            labs.append("kernel:" + s["op"])
    return "ok", fails, sorted(set(labs))


def _fn(nodes, k):
    try:
        f = nodes[k].func
        return getattr(f, "__name__", type(f).__name__)
    except Exception:
        return type(nodes.get(k)).__name__


def replay(case):
    _, fails, _ = check(case)
    return fails


shrink = progrun.shrink_case


def run_shard(spec, seed):
    col = Collector()

    @hypothesis.seed(seed)
    @settings(max_examples=spec["cases"], database=None, deadline=None, derandomize=False, phases=[Phase.generate], suppress_health_check=list(HealthCheck))
    @given(P.program_strategy(family_weights=WEIGHTS, max_stmts=6, dtypes=["f8", "f8", "i8", "f4", "i4", "bool", "c16"]), st.lists(st.lists(st.integers(0, 1000), min_size=4, max_size=12), min_size=3, max_size=3))
    def body(pg, orders):
        prog, stats = pg
        if not prog["stmts"]:
            col.reject("empty-program")
            return
        vals = P.eval_np(prog)
        fid = exclusions.excluded(prog, vals, only=EXCLUDE)
        if fid:
            col.exclude(fid)
            return
        case = {"program": prog, "orders": orders}
        status, fails, labs = check(case, vals)
        if status.startswith("rejected"):
            col.reject(status[:100])
            return
        labels = progrun.base_labels(prog) + labs
        col.case(case, "shared-key-and>=8-tasks" in labs, labels)
        for b, d in fails:
            col.fail(b, case, d)

    body()
    return col.result()


def plan(tier):
    return progrun.plan_cases(tier, 1600, 100000)


REQUIRED_CLASSES = {"quick": ["fused", "shared-key-and>=8-tasks", "kernel:setitem", "kernel:sliding_window_view", "kernel:rechunk"], "thorough": ["fused", "shared-key-and>=8-tasks", "kernel:setitem", "kernel:sliding_window_view", "kernel:rechunk"]}
