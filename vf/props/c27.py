"""C27 — transfer estimates are well-formed.

Part A (programs): every ArrayExpr node of the raw / simplified / lowered /
fused / materialised trees of generated programs (plus a second family that
appends unknown-chunk producers and a follow-on op) is asked for
``transfer_bytes``; the answer must be a (min, max) pair of reals with
0 <= min <= max, NaN only next to unknown chunk sizes, (0, 0) for the node
types the code documents as pure aliases and for a rechunk to the input's own
chunks (constructed directly: ``x.rechunk(x.chunks)`` never builds the node).

Part B: ``moved_fraction(src, dst)`` on all ordered pairs of compositions of
small n and on Hypothesis-drawn larger layouts.

Part C: ``_rechunk_stage_transfer`` on drawn layout pairs of rank 1-3.
"""

from __future__ import annotations

import itertools
import math
import numbers
import os

import hypothesis
import numpy as np
from hypothesis import HealthCheck, Phase, given, settings
from hypothesis import strategies as st

from vf import exclusions, progrun, util
from vf.gen import programs as P
from vf.runner import Collector

PROPERTY = "C27"
RULE = (
    "Part A: programs of the C01 generator (default weights; family 'append' additionally applies a drawn "
    "unknown-chunk producer x[cond], x[row-cond], nonzero, argwhere, flatnonzero, unique -- or freeze_chunks -- and a "
    "drawn follow-on op to each output). For each output the raw, simplify(), lower_completely(), fuse(), "
    "raw.lower_completely() and materialised (Array._lowered_expr, RootAlias-pinned) trees are walked and "
    "node.transfer_bytes is evaluated on every ArrayExpr node (each node object once per case); plus "
    "Array.transfer_bytes, and directly constructed Rechunk/TasksRechunk(x, x.chunks), ChunksFreeze(x, x.chunks), "
    "ChunksOverride(x, x.chunks) over each output. Part B: moved_fraction on ALL ordered pairs of compositions of n "
    "(quick n<=7, thorough n<=10) and Hypothesis-drawn layouts (n<=500, <=12 blocks, some zero-length blocks). "
    "Part C: _rechunk_stage_transfer on drawn layout pairs of rank 1-3 (some with a NaN size). "
    "Non-trivial: Part A -- some evaluated node has >=2 blocks and >=1 array dependency; Parts B/C -- the two layouts "
    "differ. Distinct = distinct case JSON."
)
ASSUMPTIONS = [
    "pure-alias node types are those the code documents as such: RootAlias, ChunksOverride ('pure 1:1 alias layer'), "
    "Concatenate ('pure alias routing'), ChunksFreeze (inert layout pin that vanishes at lowering), Blocks ('each output "
    "block is an alias to the corresponding input block'); other layers that happen to consist of Alias tasks only "
    "(BooleanIndexFlattened, full-block slices) are not asserted",
    "'chunk sizes unknown' for a node = a NaN in the chunks of the node or of one of its direct array dependencies",
    "a NotImplementedError from the accessor is a refusal; any other exception is a failure",
    "an exception from simplify/lower/fuse is not this property's business: the phase is counted as unavailable",
    "P2PRechunk to identical chunks is not asserted to be free (it cannot arise by lowering and would really move data)",
    "moved_fraction model: each dst block stays where its largest single-src piece lives (docstring), the rest moves",
]

EXCLUDE = exclusions.RAISES  # programs whose metadata (chunks) or graph cannot even be built
REL_TOL = 1e-9
ALIAS_TYPES = ("RootAlias", "ChunksOverride", "ChunksFreeze", "Concatenate", "Blocks")
PHASES = ("raw", "simplified", "lowered", "fused", "lowered-raw", "materialized")

PRODUCERS = ["mask", "mask", "mask-rows", "nonzero", "argwhere", "flatnonzero", "unique", "freeze"]
FOLLOWS = ["none", "add1", "sum", "sum-split2", "mean", "concat", "stack", "cumsum", "cumsum-blelloch", "where", "T", "map_blocks", "blocks0", "mask-again", "topk", "astype"]


# ---------------------------------------------------------------------------
# Part A: node oracle


def _isnan(v):
    try:
        return bool(v != v)
    except Exception:
        return False


def _is_real(v):
    if isinstance(v, (bool, np.bool_)):
        return False
    return isinstance(v, (numbers.Real, np.floating, np.integer)) and not isinstance(v, complex)


def _chunks_unknown(e):
    """True/False, or None when .chunks itself cannot be read."""
    try:
        return any(_isnan(c) for dim in e.chunks for c in dim)
    except Exception:
        return None


def _array_deps(n):
    from dask_array._expr import ArrayExpr

    out, seen = [], set()
    for d in n.dependencies():
        if isinstance(d, ArrayExpr) and id(d) not in seen:
            seen.add(id(d))
            out.append(d)
    return out


def _fmt_chunks(e):
    try:
        return repr(e.chunks)[:160]
    except Exception as exc:
        return f"<chunks raise {type(exc).__name__}>"


def _owner(n):
    """Name of the class whose ``transfer_bytes`` implementation the node uses (one root cause per implementation)."""
    for cls in type(n).__mro__:
        if "transfer_bytes" in cls.__dict__:
            return cls.__name__
    return type(n).__name__


def check_estimate(tb, tname, context, unknown, fails, labs, expect_zero=None, zname=None):
    """Well-formedness of one estimate.  ``unknown``: True/False/None (None = cannot tell).

    ``tname``: the implementing class (bucket key).  ``expect_zero``: bucket kind when the estimate must be
    exactly (0, 0) (or NaN beside unknown chunks); that bucket is keyed by the node type ``zname``.
    """
    try:
        n_el = len(tb)
        lo, hi = (tb[0], tb[1]) if n_el == 2 else (None, None)
    except Exception:
        n_el, lo, hi = -1, None, None
    if n_el != 2:
        fails.append((f"shape|not-a-pair|{tname}", f"{context}: transfer_bytes = {tb!r}"))
        return
    if hasattr(tb, "min") and hasattr(tb, "max") and not callable(getattr(tb, "min")):
        a, b = tb.min, tb.max
        if not ((a == lo or (_isnan(a) and _isnan(lo))) and (b == hi or (_isnan(b) and _isnan(hi)))):
            fails.append((f"shape|min-max-fields-differ|{tname}", f"{context}: {tb!r}"))
            return
    if not (_is_real(lo) and _is_real(hi)):
        fails.append((f"shape|not-real|{tname}", f"{context}: transfer_bytes = {tb!r} ({type(lo).__name__}, {type(hi).__name__})"))
        return
    lo_f, hi_f = float(lo), float(hi)
    lo_nan, hi_nan = math.isnan(lo_f), math.isnan(hi_f)
    if lo_nan or hi_nan:
        labs.append("nan-estimate")
        labs.append("nan-estimate:" + (zname or tname))
        if lo_nan != hi_nan:
            labs.append("nan-one-bound-only")
        if unknown is False:
            fails.append((f"nan|known-chunks|{tname}", f"{context}: estimate {tb!r} although every chunk size of the node and its inputs is known"))
        elif unknown is None:
            labs.append("nan-unjudged-chunks-unreadable")
    for nm, v in (("min", lo_f), ("max", hi_f)):
        if math.isinf(v):
            fails.append((f"estimate|infinite-{nm}|{tname}", f"{context}: {tb!r}"))
            return
    scale = max(abs(v) for v in (lo_f, hi_f) if not math.isnan(v)) if not (lo_nan and hi_nan) else 0.0
    tol = REL_TOL * scale
    if not lo_nan and lo_f < -tol:
        fails.append((f"order|min-negative|{tname}", f"{context}: {tb!r}"))
    if not hi_nan and hi_f < -tol:
        fails.append((f"order|max-negative|{tname}", f"{context}: {tb!r}"))
    if not lo_nan and not hi_nan and lo_f > hi_f + tol:
        fails.append((f"order|min-gt-max|{tname}", f"{context}: {tb!r}"))
    if expect_zero is not None:
        if lo_nan or hi_nan:
            return  # judged above: NaN is only acceptable beside unknown chunks
        if lo_f != 0.0 or hi_f != 0.0:
            fails.append((f"{expect_zero}|nonzero|{zname or tname}", f"{context}: {tb!r} but this node moves nothing"))


def check_node(n, phase, fails, labs, expect_zero=None, prefix="node:"):
    """Evaluate and judge one node.  Returns True when the node is non-trivial."""
    tname = type(n).__name__
    labs.append("nodes-evaluated")
    labs.append(prefix + tname)
    try:
        deps = _array_deps(n)
    except Exception:
        deps = []
    unk = _chunks_unknown(n)
    dunk = [_chunks_unknown(d) for d in deps]
    if unk is True or any(u is True for u in dunk):
        unknown = True
        labs.append("unknown-chunks")
    elif unk is None or any(u is None for u in dunk):
        unknown = None
        labs.append("chunks-unreadable")
    else:
        unknown = False
    is_alias = tname in ALIAS_TYPES
    if is_alias:
        labs.append("alias-node" if prefix == "node:" else "alias-node-constructed")
        expect_zero = expect_zero or "alias"

    owner = _owner(n)

    def context():
        return f"phase={phase} node={tname} (transfer_bytes of {owner}) chunks={_fmt_chunks(n)} deps=[{', '.join(type(d).__name__ + ':' + _fmt_chunks(d) for d in deps)}]"

    try:
        tb = n.transfer_bytes
    except NotImplementedError:
        labs.append("refused-node")
        return False
    except Exception as e:
        fails.append((util.exc_bucket(f"transfer_bytes[{owner}]", e), f"{context()}\n{util.exc_detail(e)}"))
        return False
    check_estimate(tb, owner, context(), unknown, fails, labs, expect_zero=expect_zero, zname=tname)
    try:
        nb = 1
        for k in n.numblocks:
            nb *= k
    except Exception:
        nb = 0
    return nb >= 2 and len(deps) >= 1


def walk_tree(expr, phase, seen, keep, fails, labs):
    from dask_array._expr import ArrayExpr

    nt = False
    for n in expr.walk():
        if not isinstance(n, ArrayExpr) or id(n) in seen:
            continue
        seen.add(id(n))
        keep.append(n)
        if check_node(n, phase, fails, labs):
            nt = True
    return nt


def phase_trees(x, labs):
    """[(phase, expr)] of one collection; phases that cannot be produced are counted, not judged."""
    out = [("raw", x.expr)]
    simp = low = None
    try:
        simp = x.expr.simplify()
        out.append(("simplified", simp))
    except Exception:
        labs.append("phase-unavailable:simplified")
    if simp is not None:
        try:
            low = simp.lower_completely()
            out.append(("lowered", low))
        except Exception:
            labs.append("phase-unavailable:lowered")
    if low is not None:
        try:
            out.append(("fused", low.fuse()))
        except Exception:
            labs.append("phase-unavailable:fused")
    try:
        out.append(("lowered-raw", x.expr.lower_completely()))
    except Exception:
        labs.append("phase-unavailable:lowered-raw")
    try:
        out.append(("materialized", x._lowered_expr))
    except Exception:
        labs.append("phase-unavailable:materialized")
    return out


def check_constructed(x, tag, seen, keep, fails, labs):
    """Directly constructed no-op nodes over collection ``x``."""
    from dask_array._expr import ChunksFreeze, ChunksOverride
    from dask_array._rechunk import Rechunk, TasksRechunk

    e = x.expr
    try:
        chunks = e.chunks
    except Exception:
        labs.append("chunks-unreadable")
        return
    builders = [
        ("Rechunk", "rechunk-same", lambda: Rechunk(e, chunks, None, None, False, None)),
        ("Rechunk-dict", "rechunk-same", lambda: Rechunk(e, {}, None, None, False, None)),
        ("TasksRechunk", "rechunk-same", lambda: TasksRechunk(e, chunks, None, None)),
        ("ChunksFreeze", "alias", lambda: ChunksFreeze(e, chunks)),
        ("ChunksOverride", "alias", lambda: ChunksOverride(e, chunks)),
    ]
    for name, kind, build in builders:
        try:
            node = build()
            same = node.chunks == chunks or all(
                len(a) == len(b) and all(p == q or (_isnan(p) and _isnan(q)) for p, q in zip(a, b)) for a, b in zip(node.chunks, chunks)
            )
        except Exception:
            labs.append(f"constructed-unavailable:{name}")
            continue
        if not same or len(node.chunks) != len(chunks):
            labs.append(f"constructed-unavailable:{name}")
            continue
        keep.append(node)
        seen.add(id(node))
        if kind == "rechunk-same":
            labs.append("rechunk-same-chunks")
        check_node(node, f"constructed[{tag}:{name}]", fails, labs, expect_zero=kind, prefix="constructed:")
    if len(chunks) == 2 and x.dtype.kind in "iuf" and not any(_isnan(c) for ax in chunks for c in ax):
        # a raw blockwise contraction (concatenate=True): every operand is gathered along the contracted index
        # AND replicated over the output blocks of the other one - the shape tensordot/matmul never build
        import dask_array as da

        from vf import funcs

        try:
            node = da.blockwise(funcs.contract_blocks, "ij", x, "ik", x.T, "kj", concatenate=True, dtype="f8").expr
        except Exception:
            labs.append("constructed-unavailable:blockwise-contraction")
        else:
            keep.append(node)
            seen.add(id(node))
            labs.append("blockwise-contraction")
            check_node(node, f"constructed[{tag}:blockwise-contraction]", fails, labs, prefix="constructed:")


def _cond(x, k):
    kind = x.dtype.kind
    if kind == "b":
        return x
    if kind == "c":
        return abs(x) > k
    return x > k


def apply_append(x, ap):
    """Producer + follow-on of the 'append' family.  Exceptions propagate (the caller rejects)."""
    import dask_array as da

    from vf import funcs

    prod, k, follow = ap["producer"], ap["k"], ap["follow"]
    if x.ndim == 0:
        raise ValueError("rank-0")
    if prod == "mask":
        u = x[_cond(x, k)]
    elif prod == "mask-rows":
        c = _cond(x, k)
        if x.ndim >= 2:
            c = c.any(axis=tuple(range(1, x.ndim)))
        u = x[c]
    elif prod == "nonzero":
        u = da.nonzero(x)[x.ndim - 1]
    elif prod == "argwhere":
        u = da.argwhere(x)
    elif prod == "flatnonzero":
        u = da.flatnonzero(x)
    elif prod == "unique":
        u = da.unique(x)
    elif prod == "freeze":
        u = x.freeze_chunks()
    else:
        raise AssertionError(prod)
    if follow == "none":
        y = u
    elif follow == "add1":
        y = u + 1
    elif follow == "sum":
        y = u.sum()
    elif follow == "sum-split2":
        y = u.sum(axis=0, split_every=2)
    elif follow == "mean":
        y = u.mean(axis=-1)
    elif follow == "concat":
        y = da.concatenate([u, u])
    elif follow == "stack":
        y = da.stack([u, u])
    elif follow == "cumsum":
        y = da.cumsum(u, axis=0)
    elif follow == "cumsum-blelloch":
        y = da.cumsum(u, axis=0, method="blelloch")
    elif follow == "where":
        y = da.where(_cond(u, k), u, 0)
    elif follow == "T":
        y = u.T
    elif follow == "map_blocks":
        y = u.map_blocks(funcs.identity, dtype=u.dtype)
    elif follow == "blocks0":
        y = u.blocks[0]
    elif follow == "mask-again":
        y = u[_cond(u, k)]
    elif follow == "topk":
        y = da.topk(u, 1, axis=0)
    elif follow == "astype":
        y = u.astype("f8")
    else:
        raise AssertionError(follow)
    return u, y


def _validate_append(ap):
    assert isinstance(ap, dict) and set(ap) == {"producer", "k", "follow"}
    assert ap["producer"] in PRODUCERS and ap["follow"] in FOLLOWS
    assert isinstance(ap["k"], int) and not isinstance(ap["k"], bool)


def check_collection(x, tag, fails, labs, seen, keep):
    """All phases + accessor + constructed nodes for one collection. Returns non-trivial flag."""
    nt = False
    for phase, ex in phase_trees(x, labs):
        labs.append("phase:" + phase)
        try:
            if walk_tree(ex, phase, seen, keep, fails, labs):
                nt = True
        except Exception as e:  # walk()/dependencies() of the tree itself
            fails.append((util.exc_bucket("walk", e), f"{tag} phase={phase}\n{util.exc_detail(e)}"))
    # the public accessor
    # (what the root node answers was judged above; the accessor is judged again only where it answers differently)
    labs.append("collection-accessor")
    try:
        root_tb, root_exc = x.expr.transfer_bytes, None
    except BaseException as e:
        root_tb, root_exc = None, type(e)
    try:
        tb = x.transfer_bytes
    except NotImplementedError:
        labs.append("refused-node")
    except Exception as e:
        if root_exc is type(e):
            labs.append("collection-accessor-same-as-root")
        else:
            fails.append((util.exc_bucket("Array.transfer_bytes", e), f"{tag}\n{util.exc_detail(e)}"))
    else:
        try:
            same = root_tb is not None and len(tb) == len(root_tb) == 2 and all(a == b or (_isnan(a) and _isnan(b)) for a, b in zip(tb, root_tb))
        except Exception:
            same = False
        if same:
            labs.append("collection-accessor-same-as-root")
            check_constructed(x, tag, seen, keep, fails, labs)
            return nt
        unk = _chunks_unknown(x.expr)
        try:
            dunk = [_chunks_unknown(d) for d in _array_deps(x.expr)]
        except Exception:
            dunk = [None]
        unknown = True if (unk is True or any(u is True for u in dunk)) else (None if (unk is None or any(u is None for u in dunk)) else False)
        sub = []
        check_estimate(tb, "Array", f"{tag} Array.transfer_bytes (root {type(x.expr).__name__})", unknown, sub, [])
        fails.extend(("collection|" + b, d) for b, d in sub)
    check_constructed(x, tag, seen, keep, fails, labs)
    return nt


def check(case, vals=None):
    prog = case["program"]
    ap = case.get("append")
    if ap is not None:
        _validate_append(ap)
    vars_, status = progrun.build_or_reject(prog)
    if vars_ is None:
        return status, [], []
    fails, labs = [], []
    seen, keep = set(), []
    nt = False
    for o in prog["outputs"]:
        x = vars_[o]
        targets = [(f"output {o}", x)]
        if ap is not None:
            try:
                u, y = apply_append(x, ap)
            except NotImplementedError:
                labs.append("append-refused")
                u = y = None
            except Exception as e:
                labs.append("append-not-buildable")
                labs.append(f"append-not-buildable:{ap['producer']}+{ap['follow']}")
                u = y = None
            if y is not None:
                labs.append("producer:" + ap["producer"])
                labs.append("follow:" + ap["follow"])
                targets = [(f"output {o} -> {ap['producer']} -> {ap['follow']}", y)]
                if u is not y:
                    targets.append((f"output {o} -> {ap['producer']}", u))
            elif len(prog["outputs"]) == 1:
                return "rejected:append-not-buildable", [], []
        for tag, t in targets:
            if check_collection(t, tag, fails, labs, seen, keep):
                nt = True
    if nt:
        labs.append("nt-node")
    # one failure per bucket per case is enough
    uniq, out = set(), []
    for b, d in fails:
        if b not in uniq:
            uniq.add(b)
            out.append((b, d))
    return "ok", out, labs


def nontrivial(case, labels):
    return "nt-node" in labels


def run_append_shard(spec, seed):
    """Like progrun.run_program_shard, with the appended producer/follow-on drawn by Hypothesis too."""
    col = Collector()

    @hypothesis.seed(seed)
    @settings(max_examples=spec["cases"], database=None, deadline=None, derandomize=False, phases=[Phase.generate], suppress_health_check=list(HealthCheck))
    @given(P.program_strategy(max_stmts=spec.get("max_stmts", 4), n_outputs=(1, 1)), st.sampled_from(PRODUCERS), st.sampled_from(FOLLOWS), st.integers(-2, 6))
    def body(pg, prod, follow, k):
        prog, stats = pg
        if stats["discarded"]:
            col.rejected["generator-discarded-statements"] += stats["discarded"]
        vals = P.eval_np(prog)
        fid = exclusions.excluded(prog, vals, only=EXCLUDE)
        if fid:
            col.exclude(fid)
            return
        case = {"program": prog, "append": {"producer": prod, "k": k, "follow": follow}}
        status, fails, labs = check(case, vals)
        if status.startswith("rejected"):
            col.reject(status[:120])
            return
        labels = progrun.base_labels(prog) + ["family:append"] + list(labs)
        col.case(case, nontrivial(case, labels), labels)
        for b, d in fails:
            col.fail(b, case, d)

    body()
    return col.result()


# ---------------------------------------------------------------------------
# Part B: moved_fraction


def compositions(n):
    if n == 0:
        yield (0,)
        return
    for bits in itertools.product((0, 1), repeat=n - 1):
        out, cur = [], 1
        for b in bits:
            if b:
                out.append(cur)
                cur = 1
            else:
                cur += 1
        out.append(cur)
        yield tuple(out)


def _bounds(layout):
    """Set of interior boundaries (positions strictly inside (0, n))."""
    n = sum(layout)
    out, pos = set(), 0
    for c in layout:
        pos += c
        if 0 < pos < n:
            out.add(pos)
    return out


def mf_class(src, dst):
    if tuple(src) == tuple(dst):
        return "mf:identical"
    bs, bd = _bounds(src), _bounds(dst)
    if bs == bd:
        return "mf:same-boundaries"  # differ only in zero-length blocks
    if bs <= bd:
        return "mf:pure-split"
    if bd <= bs:
        return "mf:merge"
    return "mf:mixed"


def mf_model(src, dst):
    """Docstring model: every dst block stays with its largest single-src piece; the rest moves."""
    total = sum(src)
    if not total:
        return 0.0
    owner = []
    for i, c in enumerate(src):
        owner.extend([i] * c)
    moved, pos = 0, 0
    for c in dst:
        if c:
            counts = {}
            for o in owner[pos : pos + c]:
                counts[o] = counts.get(o, 0) + 1
            moved += c - max(counts.values())
        pos += c
    return moved / total


def _validate_layout(L, allow_nan=False):
    assert isinstance(L, list) and len(L) >= 1
    for c in L:
        if allow_nan and c == "nan":
            continue
        assert isinstance(c, int) and not isinstance(c, bool) and c >= 0


def chk_mf(case):
    from dask_array._expr import moved_fraction

    _validate_layout(case["src"])
    _validate_layout(case["dst"])
    src, dst = tuple(case["src"]), tuple(case["dst"])
    assert sum(src) == sum(dst)
    cls = mf_class(src, dst)
    fails = []
    try:
        got = moved_fraction(src, dst)
    except Exception as e:
        return cls, [(util.exc_bucket("moved_fraction", e), util.exc_detail(e))]
    ctx = f"moved_fraction(src={src}, dst={dst}) = {got!r}"
    if not _is_real(got) or math.isnan(float(got)):
        return cls, [("moved_fraction|not-a-number", ctx)]
    g = float(got)
    if g < 0.0 or g > 1.0 + 1e-12:
        fails.append(("moved_fraction|out-of-range", ctx))
    if cls == "mf:identical" and g != 0.0:
        fails.append(("moved_fraction|identical-nonzero", ctx))
    if cls in ("mf:pure-split", "mf:same-boundaries") and g != 0.0:
        fails.append(("moved_fraction|pure-split-nonzero", ctx))
    exp = mf_model(src, dst)
    if abs(g - exp) > 1e-12:
        fails.append(("moved_fraction|model", f"{ctx}, brute-force largest-piece-stays model gives {exp!r}"))
    return cls, fails


def _record_layout_case(col, case, cls, fails, extra_labels=()):
    labs = [cls] + list(extra_labels)
    a, b = case.get("src", case.get("old")), case.get("dst", case.get("new"))
    col.case(case, a != b, labs)
    for bk, d in fails:
        col.fail(bk, case, d)


def run_mf_exhaustive(spec, col):
    k, m = spec["k"], spec["m"]
    for n in spec["ns"]:
        comps = list(compositions(n))
        for i, src in enumerate(comps):
            if i % m != k:
                continue
            for dst in comps:
                case = {"part": "mf", "src": list(src), "dst": list(dst)}
                cls, fails = chk_mf(case)
                _record_layout_case(col, case, cls, fails, ("mf:exhaustive", f"mf:n={n}"))
    col.exhaustive = True


@st.composite
def layout_st(draw, n, maxblocks, zeros=True):
    """A layout of an axis of length n."""
    if n == 0:
        return [0] * draw(st.integers(1, 2)) if zeros else [0]
    k = draw(st.integers(1, min(maxblocks, n)))
    cuts = sorted(draw(st.lists(st.integers(1, n - 1), min_size=k - 1, max_size=k - 1, unique=True))) if k > 1 else []
    b = [0] + cuts + [n]
    out = [b[i + 1] - b[i] for i in range(len(b) - 1)]
    if zeros and draw(st.integers(0, 5)) == 0:
        out.insert(draw(st.integers(0, len(out))), 0)
    return out


@st.composite
def layout_pair_st(draw, maxn, maxblocks, zeros=True):
    n = draw(st.one_of(st.integers(0, 24), st.integers(2, maxn)))
    src = draw(layout_st(n, maxblocks, zeros))
    mode = draw(st.sampled_from(["free"] * 5 + ["split"] * 2 + ["merge"] * 2 + ["jitter"] * 2 + ["identical"]))
    if mode == "identical":
        return src, list(src)
    if mode == "split":
        flags = [c >= 2 and draw(st.booleans()) for c in src]
        can = [i for i, c in enumerate(src) if c >= 2]
        if can and not any(flags):
            flags[draw(st.sampled_from(can))] = True
        dst = []
        for c, f in zip(src, flags):
            if f:
                dst.extend(draw(layout_st(c, 3, False).filter(lambda p: len(p) >= 2)))
            else:
                dst.append(c)
        return src, dst
    if mode == "merge":
        flags = [draw(st.booleans()) for _ in src[1:]]
        if flags and not any(flags):
            flags[draw(st.integers(0, len(flags) - 1))] = True
        dst = [src[0]]
        for c, f in zip(src[1:], flags):
            if f:
                dst[-1] += c
            else:
                dst.append(c)
        return src, dst
    if mode == "jitter" and n >= 4 and len(src) >= 2:
        # shift every interior boundary by a small amount (kept strictly increasing)
        pos, bs = 0, []
        for c in src[:-1]:
            pos += c
            bs.append(pos)
        nb = sorted({min(n - 1, max(1, p + draw(st.integers(-2, 2)))) for p in bs})
        b = [0] + nb + [n]
        return src, [b[i + 1] - b[i] for i in range(len(b) - 1)]
    return src, draw(layout_st(n, maxblocks, zeros))


def run_mf_random(spec, seed, col):
    @hypothesis.seed(seed)
    @settings(max_examples=spec["cases"], database=None, deadline=None, derandomize=False, phases=[Phase.generate], suppress_health_check=list(HealthCheck))
    @given(layout_pair_st(500, 12))
    def body(pair):
        src, dst = pair
        case = {"part": "mf", "src": list(src), "dst": list(dst)}
        cls, fails = chk_mf(case)
        extra = ["mf:random"]
        if 0 in src or 0 in dst:
            extra.append("mf:zero-length-block")
        if sum(src) > 60:
            extra.append("mf:n>60")
        _record_layout_case(col, case, cls, fails, extra)

    body()
    col.exhaustive = False


# ---------------------------------------------------------------------------
# Part C: _rechunk_stage_transfer


def _dec_layout(L):
    return tuple(math.nan if c == "nan" else c for c in L)


def chk_stage(case):
    from dask_array._rechunk import _rechunk_stage_transfer

    old_j, new_j, itemsize = case["old"], case["new"], case["itemsize"]
    assert isinstance(itemsize, int) and itemsize >= 1
    assert isinstance(old_j, list) and isinstance(new_j, list) and 1 <= len(old_j) == len(new_j) <= 4
    has_nan = False
    for a, b in zip(old_j, new_j):
        _validate_layout(a, True)
        _validate_layout(b, True)
        if "nan" in a or "nan" in b:
            has_nan = True
        else:
            assert sum(a) == sum(b)
    old = tuple(_dec_layout(a) for a in old_j)
    new = tuple(_dec_layout(b) for b in new_j)
    identical = old_j == new_j
    labs = [f"stage:rank{len(old)}"]
    if has_nan:
        labs.append("stage:nan-chunks")
    if identical:
        labs.append("stage:identical")
    fails = []
    try:
        res = _rechunk_stage_transfer(old, new, itemsize)
    except Exception as e:
        return labs, [(util.exc_bucket("_rechunk_stage_transfer", e), util.exc_detail(e))]
    sub_labs = []
    check_estimate(res, "stage", f"_rechunk_stage_transfer(old={old}, new={new}, itemsize={itemsize})", has_nan, fails, sub_labs, expect_zero="stage-identical" if identical else None)
    if "nan-estimate" in sub_labs:
        labs.append("stage:nan-estimate")
    return labs, [("stage|" + b, d) for b, d in fails]


def run_stage_random(spec, seed, col):
    @st.composite
    def stage_st(draw):
        rank = draw(st.integers(1, 3))
        same = draw(st.integers(0, 11)) == 0
        old, new = [], []
        for _ in range(rank):
            a, b = draw(layout_pair_st(40, 6))
            if same or draw(st.integers(0, 5)) == 0:
                b = list(a)
            old.append(list(a))
            new.append(list(b))
        if not same and draw(st.integers(0, 11)) == 0:
            side = draw(st.sampled_from([old, new]))
            ax = draw(st.integers(0, rank - 1))
            side[ax] = list(side[ax])
            side[ax][draw(st.integers(0, len(side[ax]) - 1))] = "nan"
        return {"part": "stage", "old": old, "new": new, "itemsize": draw(st.sampled_from([1, 2, 4, 8, 16]))}

    @hypothesis.seed(seed)
    @settings(max_examples=spec["cases"], database=None, deadline=None, derandomize=False, phases=[Phase.generate], suppress_health_check=list(HealthCheck))
    @given(stage_st())
    def body(case):
        labs, fails = chk_stage(case)
        _record_layout_case(col, case, "stage", fails, labs)

    body()
    col.exhaustive = False


# ---------------------------------------------------------------------------
# protocol


def replay(case):
    assert isinstance(case, dict)
    if "program" in case:
        _, fails, _ = check(case)
        return fails
    if case.get("part") == "mf":
        return chk_mf(case)[1]
    if case.get("part") == "stage":
        return chk_stage(case)[1]
    raise AssertionError("unknown case kind")


def _shrink_layout_pair(a, b):
    """Smaller (a, b) pairs of equal total: merge neighbours, take one element off both."""
    for which in (0, 1):
        L = (a, b)[which]
        for i in range(len(L) - 1):
            new = L[:i] + [L[i] + L[i + 1]] + L[i + 2 :]
            yield (new, b) if which == 0 else (a, new)
    for i in range(len(a)):
        if isinstance(a[i], int) and a[i] > 0:
            for j in range(len(b)):
                if isinstance(b[j], int) and b[j] > 0:
                    na, nb = list(a), list(b)
                    na[i] -= 1
                    nb[j] -= 1
                    if na[i] == 0 and len(na) > 1:
                        del na[i]
                    if nb[j] == 0 and len(nb) > 1:
                        del nb[j]
                    yield na, nb


def shrink(case):
    if "program" in case:
        ap = case.get("append")
        if ap is not None and ap["follow"] != "none":
            new = dict(case)
            new["append"] = dict(ap, follow="none")
            yield new
        if ap is not None and ap["k"] != 0:
            new = dict(case)
            new["append"] = dict(ap, k=0)
            yield new
        yield from progrun.shrink_case(case)
        return
    if case.get("part") == "mf":
        for a, b in _shrink_layout_pair(list(case["src"]), list(case["dst"])):
            if all(isinstance(c, int) for c in a + b):
                yield {"part": "mf", "src": a, "dst": b}
        return
    if case.get("part") == "stage":
        old, new = case["old"], case["new"]
        if len(old) > 1:
            for ax in range(len(old)):
                yield dict(case, old=old[:ax] + old[ax + 1 :], new=new[:ax] + new[ax + 1 :])
        if case["itemsize"] != 1:
            yield dict(case, itemsize=1)
        for ax in range(len(old)):
            if "nan" in old[ax] or "nan" in new[ax]:
                continue
            for a, b in _shrink_layout_pair(list(old[ax]), list(new[ax])):
                yield dict(case, old=old[:ax] + [a] + old[ax + 1 :], new=new[:ax] + [b] + new[ax + 1 :])


def run_shard(spec, seed):
    part = spec["part"]
    if part == "programs":
        return progrun.run_program_shard(spec, seed, check, nontrivial, exclude_only=EXCLUDE, extra_labels=lambda prog: ["family:programs"])
    if part == "append":
        return run_append_shard(spec, seed)
    col = Collector()
    if part == "mf-exhaustive":
        run_mf_exhaustive(spec, col)
    elif part == "mf-random":
        run_mf_random(spec, seed, col)
    elif part == "stage-random":
        run_stage_random(spec, seed, col)
    else:
        raise ValueError(part)
    return col.result()


def plan(tier):
    scale = float(os.environ.get("VERIF_SCALE", "1"))
    specs = []
    if tier == "quick":  # 16 shards
        nmax, prog_total, prog_shards, app_total, app_shards, rnd, mf_shards, stage_shards = 7, 4000, 8, 1800, 4, 1500, 2, 1
    else:  # 48 shards
        nmax, prog_total, prog_shards, app_total, app_shards, rnd, mf_shards, stage_shards = 10, 60000, 24, 21600, 9, 8000, 4, 4
    # exhaustive moved_fraction: the big n split over shards (by src index), the small ones together
    small = min(nmax, 8)
    for n in range(nmax, small, -1):
        m = 4 if n >= 10 else 2
        for k in range(m):
            specs.append({"part": "mf-exhaustive", "ns": [n], "k": k, "m": m})
    specs.append({"part": "mf-exhaustive", "ns": list(range(small, -1, -1)), "k": 0, "m": 1})
    specs += progrun.plan_cases(tier, prog_total, prog_total, shards_quick=prog_shards, shards_thorough=prog_shards, part="programs")
    specs += progrun.plan_cases(tier, app_total, app_total, shards_quick=app_shards, shards_thorough=app_shards, part="append")
    for _ in range(mf_shards):
        specs.append({"part": "mf-random", "cases": max(10, int(rnd * scale))})
    for _ in range(stage_shards):
        specs.append({"part": "stage-random", "cases": max(10, int(rnd * scale))})
    return specs


_COMMON = [
    "family:programs",
    "family:append",
    "phase:raw",
    "phase:simplified",
    "phase:lowered",
    "phase:fused",
    "phase:materialized",
    "node:Rechunk",
    "node:TasksRechunk",
    "node:RootAlias",
    "node:ChunksOverride",
    "node:ChunksFreeze",
    "node:Concatenate",
    "node:PartialReduce",
    "node:SliceSlicesIntegers",
    "node:Elemwise",
    "node:FusedBlockwise",
    "node:Blocks",
    "alias-node",
    "alias-node-constructed",
    "rechunk-same-chunks",
    "constructed:Rechunk",
    "constructed:TasksRechunk",
    "constructed:ChunksFreeze",
    "constructed:ChunksOverride",
    "nan-estimate",
    "unknown-chunks",
    "collection-accessor",
    "nt-node",
    "mf:exhaustive",
    "mf:random",
    "mf:identical",
    "mf:pure-split",
    "mf:merge",
    "mf:mixed",
    "mf:zero-length-block",
    "stage:rank1",
    "stage:rank3",
    "stage:identical",
    "stage:nan-chunks",
]
REQUIRED_CLASSES = {"quick": list(_COMMON), "thorough": _COMMON + ["node:Shuffle", "node:CumReduction", "node:Stack", "node:Blockwise", "mf:n=10"]}
