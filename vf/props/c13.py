"""C13 — slice algebra helpers are exact.

Oracle: brute force on ``list(range(n))``.  Domains are the helpers' callers'
domains (see DESIGN §4 C13): ``_slice_1d``/``new_blockdim`` receive indices that
went through ``normalize_slice``/``posify_index``; ``fuse_slice`` receives two
normalised index tuples (SliceSlicesIntegers fusion) or a user region + a unit
step block slice (store); ``_compose_slices``/``_compute_sliced_chunks`` receive
unit-step slices (FromArray._accept_slice declines the rest).
"""

from __future__ import annotations

import itertools
import os
from numbers import Integral

import numpy as np

from vf import util
from vf.runner import Collector

PROPERTY = "C13"
RULE = (
    "Exhaustive enumeration for small n (all slices with start/stop in {None} U [-n-2,n+2], step in "
    "{None,+-1,+-2,+-3}, all ints, all chunk compositions of n) of normalize_slice, posify_index, _slice_1d, "
    "new_blockdim, fuse_slice (1-d pairs and 2-d tuples with ints/None), _compose_slices, _compute_sliced_chunks, "
    "SliceSlicesIntegers._slice_chunks; plus Hypothesis-drawn larger cases (n<=60, <=8 blocks). Oracle = brute "
    "force on list(range(n)). Non-trivial: the index has a negative step, a non-None stop, or the axis has >=2 "
    "blocks; distinct = distinct (function, arguments) tuples (enumerated cases are distinct by construction)."
)
ASSUMPTIONS = [
    "_slice_1d/new_blockdim are only called with indices already passed through normalize_slice/posify_index (their callers do this)",
    "chunk lengths are positive except the single (0,) chunk of a zero-length axis",
    "fuse_slice raising NotImplementedError is an allowed refusal (callers catch it)",
]

STEPS = (None, 1, 2, 3, -1, -2, -3)


def _imports():
    from dask_array.slicing import _basic, _utils

    return _utils, _basic


def all_slices(n):
    rng = [None] + list(range(-n - 2, n + 3))
    for start in rng:
        for stop in rng:
            for step in STEPS:
                yield slice(start, stop, step)


def compositions(n):
    if n == 0:
        yield (0,)
        return
    for bits in itertools.product((0, 1), repeat=n - 1):
        out = []
        cur = 1
        for b in bits:
            if b:
                out.append(cur)
                cur = 1
            else:
                cur += 1
        out.append(cur)
        yield tuple(out)


def sl(s):
    return [s.start, s.stop, s.step]


def enc(i):
    if isinstance(i, slice):
        return {"slice": sl(i)}
    if isinstance(i, tuple):
        return {"tuple": [enc(j) for j in i]}
    if isinstance(i, list):
        return {"list": [int(j) for j in i]}
    if isinstance(i, np.ndarray):
        return {"list": [int(j) for j in i.tolist()]}
    if i is None:
        return None
    return int(i)


def dec(o):
    if isinstance(o, dict):
        if "slice" in o:
            return slice(*o["slice"])
        if "tuple" in o:
            return tuple(dec(j) for j in o["tuple"])
        if "list" in o:
            return list(o["list"])
    return o


# ---------------------------------------------------------------------------
# single-case oracles; each returns None or (bucket, detail)


def chk_normalize(n, s):
    U, _ = _imports()
    R = list(range(n))
    try:
        ns = U.normalize_slice(s, n)
        got = R[ns]
    except Exception as e:
        return (util.exc_bucket("normalize_slice", e), util.exc_detail(e))
    if got != R[s]:
        kind = "negstep" if (s.step or 1) < 0 else "posstep"
        return (f"normalize_slice|selects-different|{kind}", f"n={n} s={s} -> {ns}: {got} != {R[s]}")
    return None


def chk_posify(n, idx):
    U, _ = _imports()
    R = np.arange(n)
    try:
        p = U.posify_index(n, idx)
    except Exception as e:
        return (util.exc_bucket("posify_index", e), util.exc_detail(e))
    if isinstance(idx, list):
        p = np.asarray(p)
        if (p < 0).any() or not np.array_equal(R[p], R[np.asarray(idx, dtype=int)]):
            return ("posify_index|list", f"n={n} idx={idx} -> {p}")
    else:
        if p < 0 or R[p] != R[idx]:
            return ("posify_index|int", f"n={n} idx={idx} -> {p}")
    return None


def chk_slice1d(n, lengths, index):
    """index already normalised (slice) or posified (int)."""
    U, _ = _imports()
    R = list(range(n))
    bounds = np.cumsum((0,) + tuple(lengths))
    blocks = [R[bounds[i] : bounds[i + 1]] for i in range(len(lengths))]
    try:
        plan = U._slice_1d(n, list(lengths), index)
    except Exception as e:
        return (util.exc_bucket("_slice_1d", e), util.exc_detail(e))
    if isinstance(index, Integral):
        if len(plan) != 1:
            return ("_slice_1d|int-plan-size", f"{n} {lengths} {index} -> {plan}")
        ((b, off),) = plan.items()
        if not (0 <= b < len(lengths)) or not isinstance(off, Integral) or not (0 <= off < lengths[b]) or blocks[b][off] != R[index]:
            return ("_slice_1d|int-wrong", f"{n} {lengths} {index} -> {plan}")
        return None
    exp = R[index]
    neg = bool(index.step and index.step < 0)
    order = sorted(plan, reverse=neg)
    got = []
    piece_lens = []
    for b in order:
        if not (0 <= b < len(lengths)):
            return ("_slice_1d|block-out-of-range", f"{n} {lengths} {index} -> {plan}")
        piece = blocks[b][plan[b]]
        piece_lens.append(len(piece))
        got.extend(piece)
    if got != exp:
        return (f"_slice_1d|selects-different|{'neg' if neg else 'pos'}", f"n={n} lengths={lengths} index={index} plan={plan}: {got} != {exp}")
    # "If the slice won't return any elements in the block, that block will not be
    # in the output" (_slice_1d docstring).  An empty piece makes a zero-size chunk
    # on a non-empty axis, which chunk unification downstream cannot broadcast
    # (x[::3, :3:3, 5] + x raised): callers rely on it.  Exception: the documented
    # x[:0] special case (a single empty piece for an empty selection).
    if any(p == 0 for p in piece_lens) and not (len(plan) == 1 and not exp):
        return ("_slice_1d|empty-piece", f"n={n} lengths={lengths} index={index} plan={plan}")
    try:
        nb = list(U.new_blockdim(n, list(lengths), index))
    except Exception as e:
        return (util.exc_bucket("new_blockdim", e), util.exc_detail(e))
    if index == slice(None, None, None):
        want = list(lengths)
    else:
        want = piece_lens
    if [int(x) for x in nb] != want:
        return ("new_blockdim|differs", f"n={n} lengths={lengths} index={index}: {nb} != {want}")
    return None


def chk_fuse(n, a, b, normalise_after=True):
    """R[a][b] == R[fuse(a, b)] for 1-d a, b (slice/int/list)."""
    U, _ = _imports()
    R = np.arange(n)
    try:
        exp = R[a][b]
    except IndexError:
        return "skip"
    try:
        f = U.fuse_slice(a, b)
    except NotImplementedError:
        return "refused"
    except Exception as e:
        return (util.exc_bucket("fuse_slice", e), util.exc_detail(e))
    try:
        f2 = U.normalize_slice(f, n) if normalise_after else f
        got = R[f2]
    except Exception as e:
        return (f"fuse_slice|result-unusable|{type(e).__name__}", f"n={n} a={a} b={b} -> {f}: {e}")
    if not np.array_equal(got, exp):
        return ("fuse_slice|selects-different", f"n={n} a={a} b={b} -> {f}: {got.tolist()} != {np.asarray(exp).tolist()}")
    return None


def chk_fuse_nd(shape, a, b):
    """Tuples: a over shape, b over R[a]."""
    U, _ = _imports()
    R = np.arange(int(np.prod(shape))).reshape(shape)
    try:
        mid = R[a]
        exp = mid[b]
    except IndexError:
        return "skip"
    try:
        f = U.fuse_slice(a, b)
    except NotImplementedError:
        return "refused"
    except Exception as e:
        return (util.exc_bucket("fuse_slice_nd", e), util.exc_detail(e))
    try:
        got = R[f]
    except Exception as e:
        return (f"fuse_slice_nd|result-unusable|{type(e).__name__}", f"shape={shape} a={a} b={b} -> {f}: {e}")
    if got.shape != np.asarray(exp).shape or not np.array_equal(got, exp):
        return ("fuse_slice_nd|selects-different", f"shape={shape} a={a} b={b} -> {f}")
    return None


def chk_compose(n, outer, inner):
    _, B = _imports()
    R = list(range(n))
    try:
        c = B._compose_slices(outer, inner, n)
        got = R[c]
    except Exception as e:
        return (util.exc_bucket("_compose_slices", e), util.exc_detail(e))
    if got != R[outer][inner]:
        return ("_compose_slices|selects-different", f"n={n} outer={outer} inner={inner} -> {c}: {got} != {R[outer][inner]}")
    # FromArray._layer adds block offsets to region.start: it must be a plain in-bounds slice
    st, sp, stp = c.start, c.stop, c.step
    if st is None or sp is None or not (0 <= st <= n) or not (0 <= sp <= n) or (stp not in (None, 1)):
        return ("_compose_slices|not-plain-inbounds", f"n={n} outer={outer} inner={inner} -> {c}")
    return None


def _rle_blocks(n, lengths, sel):
    owner = np.repeat(np.arange(len(lengths)), lengths)
    o = owner[sel]
    if len(o) == 0:
        return (0,)
    out = []
    cur, cnt = o[0], 0
    for v in o:
        if v == cur:
            cnt += 1
        else:
            out.append(cnt)
            cur, cnt = v, 1
    out.append(cnt)
    return tuple(out)


def chk_sliced_chunks(n, lengths, s):
    _, B = _imports()
    try:
        got = tuple(int(c) for c in B._compute_sliced_chunks(tuple(lengths), s, n))
    except Exception as e:
        return (util.exc_bucket("_compute_sliced_chunks", e), util.exc_detail(e))
    want = _rle_blocks(n, lengths, s)
    if got != want:
        return ("_compute_sliced_chunks|differs", f"n={n} lengths={lengths} s={s}: {got} != {want}")
    return None


def chk_slice_chunks(n, lengths, start, length):
    _, B = _imports()
    try:
        got = tuple(int(c) for c in B.SliceSlicesIntegers._slice_chunks(None, tuple(lengths), start, length))
    except Exception as e:
        return (util.exc_bucket("_slice_chunks", e), util.exc_detail(e))
    want = _rle_blocks(n, lengths, slice(start, start + length))
    if got != want:
        return ("_slice_chunks|differs", f"n={n} lengths={lengths} start={start} length={length}: {got} != {want}")
    return None


# ---------------------------------------------------------------------------


def _nontrivial_idx(idx, nblocks=1):
    if nblocks >= 2:
        return True
    if isinstance(idx, slice):
        return (idx.step or 1) < 0 or idx.stop is not None
    return False


def _validate(case):
    """Reject malformed cases (the generic shrinker can produce them)."""
    n = case.get("n")
    if n is not None:
        assert isinstance(n, int) and n >= 0
    if "lengths" in case:
        L = case["lengths"]
        assert sum(L) == n and len(L) >= 1 and (all(x > 0 for x in L) or L == [0])

    def ok(o):
        if isinstance(o, dict):
            if "slice" in o:
                assert len(o["slice"]) == 3 and o["slice"][2] != 0
            for v in o.values():
                ok(v)
        elif isinstance(o, list):
            for v in o:
                ok(v)

    ok(case)
    if case["f"] == "fuse_nd":
        assert len(case["shape"]) == 2 and all(x >= 1 for x in case["shape"])


def run_case(case):
    """Dispatch a JSON case to its oracle. Returns None / 'skip' / 'refused' / (bucket, detail)."""
    _validate(case)
    f = case["f"]
    if f == "normalize":
        return chk_normalize(case["n"], dec(case["s"]))
    if f == "posify":
        return chk_posify(case["n"], dec(case["i"]) if isinstance(case["i"], dict) else case["i"])
    if f == "slice1d":
        U, _ = _imports()
        idx = dec(case["i"])
        n = case["n"]
        if isinstance(idx, slice):
            idx = U.normalize_slice(idx, n)
        else:
            idx = U.posify_index(n, idx)
        return chk_slice1d(n, tuple(case["lengths"]), idx)
    if f == "fuse":
        U, _ = _imports()
        n = case["n"]
        a = dec(case["a"])
        b = dec(case["b"])
        if case.get("normalise_inputs", True):
            a = U.normalize_slice(a, n) if isinstance(a, slice) else (U.posify_index(n, a) if isinstance(a, Integral) else a)
            m = len(np.arange(n)[a]) if not isinstance(a, Integral) else None
            if m is None:
                return "skip"
            if isinstance(b, slice):
                b = U.normalize_slice(b, m)
            elif isinstance(b, Integral):
                if not (-m <= b < m):
                    return "skip"
                b = U.posify_index(m, b)
            elif isinstance(b, list):
                if any(not (-m <= j < m) for j in b):
                    return "skip"
                b = [int(j) for j in U.posify_index(m, b)]
        return chk_fuse(n, a, b)
    if f == "fuse_nd":
        return chk_fuse_nd(tuple(case["shape"]), dec(case["a"]), dec(case["b"]))
    if f == "compose":
        return chk_compose(case["n"], dec(case["outer"]), dec(case["inner"]))
    if f == "sliced_chunks":
        return chk_sliced_chunks(case["n"], tuple(case["lengths"]), dec(case["s"]))
    if f == "slice_chunks":
        return chk_slice_chunks(case["n"], tuple(case["lengths"]), case["start"], case["length"])
    raise ValueError(f)


def replay(case):
    r = run_case(case)
    if r in (None, "skip", "refused"):
        return []
    return [r]


def _record(col, case, r, nontrivial, labels):
    if r == "skip":
        col.reject("numpy-indexerror")
        return
    labs = list(labels)
    if r == "refused":
        labs.append("fuse:refused")
    col.case(case, nontrivial, labs)
    if isinstance(r, tuple):
        col.fail(r[0], case, r[1])


def _unit_slices(n):
    rng = [None] + list(range(-n - 1, n + 2))
    for start in rng:
        for stop in rng:
            for step in (None, 1):
                yield slice(start, stop, step)


def run_exhaustive(spec, col):
    U, _ = _imports()
    part, n = spec["part"], spec["n"]
    if part == "normalize":
        for s in all_slices(n):
            case = {"f": "normalize", "n": n, "s": enc(s)}
            _record(col, case, run_case(case), _nontrivial_idx(s), ["normalize", f"n={n}", "negstep" if (s.step or 1) < 0 else "posstep"])
        for i in range(-n, n):
            case = {"f": "posify", "n": n, "i": i}
            _record(col, case, run_case(case), i < 0, ["posify"])
    elif part == "slice1d":
        seen_norm = set()
        for s in all_slices(n):
            ns = U.normalize_slice(s, n)
            key = (ns.start, ns.stop, ns.step)
            if key in seen_norm:
                continue
            seen_norm.add(key)
            for lengths in compositions(n):
                case = {"f": "slice1d", "n": n, "lengths": list(lengths), "i": enc(s)}
                labs = ["slice1d", f"n={n}", "negstep" if (s.step or 1) < 0 else "posstep"]
                if len(lengths) >= 2:
                    labs.append("multi-block")
                    if (s.step or 1) < 0:
                        labs.append("negstep-multi-block")
                _record(col, case, run_case(case), _nontrivial_idx(ns, len(lengths)), labs)
        for i in range(-n, n):
            for lengths in compositions(n):
                case = {"f": "slice1d", "n": n, "lengths": list(lengths), "i": i}
                _record(col, case, run_case(case), len(lengths) >= 2, ["slice1d-int"])
    elif part == "fuse":
        R = list(range(n))
        seen_a = set()
        a_list = []
        for s in all_slices(n):
            ns = U.normalize_slice(s, n)
            k = (ns.start, ns.stop, ns.step)
            if k not in seen_a:
                seen_a.add(k)
                a_list.append(ns)
        for a in a_list:
            m = len(R[a])
            seen_b = set()
            for s in all_slices(m):
                nb = U.normalize_slice(s, m)
                k = (nb.start, nb.stop, nb.step)
                if k in seen_b:
                    continue
                seen_b.add(k)
                case = {"f": "fuse", "n": n, "a": enc(a), "b": enc(nb), "normalise_inputs": False}
                r = chk_fuse(n, a, nb)
                _record(col, case, r, True, ["fuse:slice-slice", f"n={n}"])
            for i in range(m):
                case = {"f": "fuse", "n": n, "a": enc(a), "b": i, "normalise_inputs": False}
                _record(col, case, chk_fuse(n, a, i), True, ["fuse:slice-int"])
            if m:
                for lst in ([0], [m - 1, 0], list(range(m))[::-1], [0, 0, m - 1]):
                    case = {"f": "fuse", "n": n, "a": enc(a), "b": enc(lst), "normalise_inputs": False}
                    _record(col, case, chk_fuse(n, a, lst), True, ["fuse:slice-list"])
    elif part == "fuse_nd":
        # 2-d tuples: a in {slice,int}^k, b in {slice,int,None}^j over the intermediate
        shape = (n, 3)
        R = np.arange(n * 3).reshape(shape)
        el_a0 = [slice(None), slice(1, None), slice(None, n - 1 if n > 1 else None), slice(0, None, 2)] + list(range(min(n, 2)))
        el_a1 = [slice(None), slice(1, 3), slice(None, None, 2), 0, 2]
        for a in itertools.chain(itertools.product(el_a0, el_a1), ((x,) for x in el_a0)):
            try:
                mid = R[a]
            except IndexError:
                continue
            el_b = []
            for dlen in mid.shape:
                el_b.append([slice(None), slice(1, None), slice(None, max(dlen - 1, 0)), slice(None, None, 2)] + ([0, dlen - 1] if dlen else []))
            nones = [None]
            choices = []
            for k in range(0, mid.ndim + 1):
                for combo in itertools.product(*el_b[:k]):
                    choices.append(tuple(combo))
                    for pos in range(k + 1):
                        choices.append(tuple(combo[:pos]) + (None,) + tuple(combo[pos:]))
            for b in choices:
                case = {"f": "fuse_nd", "shape": list(shape), "a": enc(tuple(a)), "b": enc(tuple(b))}
                r = chk_fuse_nd(shape, tuple(a), tuple(b))
                _record(col, case, r, True, ["fuse:nd", "fuse:nd-none" if any(x is None for x in b) else "fuse:nd-plain"])
    elif part == "compose":
        R = list(range(n))
        for outer in _unit_slices(n):
            m = len(R[outer])
            for inner in _unit_slices(m):
                case = {"f": "compose", "n": n, "outer": enc(outer), "inner": enc(inner)}
                _record(col, case, run_case(case), True, ["compose"])
        for s in _unit_slices(n):
            for lengths in compositions(n):
                case = {"f": "sliced_chunks", "n": n, "lengths": list(lengths), "s": enc(s)}
                _record(col, case, run_case(case), len(lengths) >= 2, ["sliced_chunks"])
        for start in range(0, n + 1):
            for length in range(0, n - start + 1):
                for lengths in compositions(n):
                    case = {"f": "slice_chunks", "n": n, "lengths": list(lengths), "start": start, "length": length}
                    _record(col, case, run_case(case), len(lengths) >= 2, ["slice_chunks"])
    else:
        raise ValueError(part)
    col.exhaustive = True


def run_random(spec, seed, col):
    import hypothesis
    from hypothesis import HealthCheck, Phase, given, settings
    from hypothesis import strategies as st

    @st.composite
    def axis(draw, maxn=60, maxblocks=8):
        n = draw(st.integers(0, maxn))
        if n == 0:
            return 0, (0,)
        k = draw(st.integers(1, min(maxblocks, n)))
        cuts = sorted(draw(st.lists(st.integers(1, n - 1), min_size=k - 1, max_size=k - 1, unique=True))) if n > 1 and k > 1 else []
        b = [0] + cuts + [n]
        return n, tuple(b[i + 1] - b[i] for i in range(len(b) - 1))

    def slices(n):
        bound = st.one_of(st.none(), st.integers(-n - 3, n + 3))
        return st.builds(slice, bound, bound, st.sampled_from([None, 1, 2, 3, 5, 7, -1, -2, -3, -5, -7]))

    @st.composite
    def case_st(draw):
        f = draw(st.sampled_from(["normalize", "slice1d", "slice1d", "fuse", "fuse", "compose", "sliced_chunks", "posify"]))
        n, lengths = draw(axis())
        if f == "normalize":
            return {"f": f, "n": n, "s": enc(draw(slices(n)))}
        if f == "posify":
            if n == 0:
                return {"f": "normalize", "n": n, "s": enc(draw(slices(n)))}
            return {"f": f, "n": n, "i": enc(draw(st.lists(st.integers(-n, n - 1), min_size=1, max_size=6)))}
        if f == "slice1d":
            if n and draw(st.integers(0, 5)) == 0:
                return {"f": f, "n": n, "lengths": list(lengths), "i": draw(st.integers(-n, n - 1))}
            return {"f": f, "n": n, "lengths": list(lengths), "i": enc(draw(slices(n)))}
        if f == "fuse":
            a = draw(slices(n))
            m = len(range(n)[a])
            kind = draw(st.sampled_from(["slice", "slice", "int", "list"]))
            if kind == "slice" or m == 0:
                b = enc(draw(slices(m)))
            elif kind == "int":
                b = draw(st.integers(-m, m - 1))
            else:
                b = enc(draw(st.lists(st.integers(-m, m - 1), min_size=1, max_size=5)))
            return {"f": f, "n": n, "a": enc(a), "b": b}
        if f == "compose":
            bound = st.one_of(st.none(), st.integers(-n - 2, n + 2))
            outer = slice(draw(bound), draw(bound), draw(st.sampled_from([None, 1])))
            m = len(range(n)[outer])
            boundm = st.one_of(st.none(), st.integers(-m - 2, m + 2))
            inner = slice(draw(boundm), draw(boundm), draw(st.sampled_from([None, 1])))
            return {"f": f, "n": n, "outer": enc(outer), "inner": enc(inner)}
        bound = st.one_of(st.none(), st.integers(-n - 2, n + 2))
        s = slice(draw(bound), draw(bound), draw(st.sampled_from([None, 1])))
        return {"f": "sliced_chunks", "n": n, "lengths": list(lengths), "s": enc(s)}

    @hypothesis.seed(seed)
    @settings(
        max_examples=spec["cases"],
        database=None,
        deadline=None,
        derandomize=False,
        phases=[Phase.generate],
        suppress_health_check=list(HealthCheck),
    )
    @given(case_st())
    def body(case):
        r = run_case(case)
        nb = len(case.get("lengths", [1]))
        idx = dec(case.get("i", case.get("s", case.get("a", case.get("outer")))))
        _record(col, case, r, _nontrivial_idx(idx, nb), ["random:" + case["f"]])

    body()
    col.exhaustive = False


def plan(tier):
    scale = float(os.environ.get("VERIF_SCALE", "1"))
    if tier == "quick":
        nmax, fmax, rnd = 5, 4, 1500
    else:
        nmax, fmax, rnd = 7, 6, 120000
    specs = []
    for n in range(0, nmax + 1):
        specs.append({"part": "normalize", "n": n})
        specs.append({"part": "slice1d", "n": n})
        specs.append({"part": "compose", "n": n})
    for n in range(0, fmax + 1):
        specs.append({"part": "fuse", "n": n})
    for n in range(1, 4):
        specs.append({"part": "fuse_nd", "n": n})
    specs.sort(key=lambda s: -s["n"])
    for _ in range(16):
        specs.append({"part": "random", "cases": max(10, int(rnd * scale))})
    return specs


def run_shard(spec, seed):
    col = Collector()
    if spec["part"] == "random":
        run_random(spec, seed, col)
    else:
        run_exhaustive(spec, col)
    return col.result()


REQUIRED_CLASSES = {
    "quick": ["normalize", "slice1d", "negstep-multi-block", "fuse:slice-slice", "fuse:nd-none", "compose", "sliced_chunks", "slice_chunks", "random:slice1d"],
    "thorough": ["normalize", "slice1d", "negstep-multi-block", "fuse:slice-slice", "fuse:nd-none", "compose", "sliced_chunks", "slice_chunks", "random:slice1d"],
}
