"""C28 — unknown chunk sizes are resolved exactly or refused."""

from __future__ import annotations

import math
import warnings

import hypothesis
import numpy as np
from hypothesis import HealthCheck, Phase, given, settings
from hypothesis import strategies as st

from vf import progrun, util
from vf.gen import chunks as gchunks
from vf.gen import indices as gidx
from vf.gen.draw import D
from vf.props import c03
from vf.runner import Collector

PROPERTY = "C28"
RULE = (
    "Hypothesis draws (base array of rank 1-3, axis lengths 0-9, distinct int64 values arange in C or F order, five "
    "chunking families) x (selection condition: >p, <=p, band, outside-band, modulo, none, all) x (producer: x[dask "
    "mask] with the mask's own/other chunks, x[NumPy mask], x[..., 1-d dask/NumPy mask on one axis], nonzero[i], "
    "where(cond)[i], argwhere, flatnonzero, unique plain/return_counts/return_inverse/return_index, compress(dask/"
    "NumPy/list cond, axis or None, cond possibly shorter), extract) x (one of 35 follow-on operations: slices "
    "unit/step/negative, int, int list, take, rechunk by size/-1/auto/explicit tuples on the unknown or a known axis, "
    "ravel, reshape, concatenate/stack with itself or a known array, + scalar / same-producer array / mirrored-"
    "selection array of equal length / known array of the true shape in four chunkings / broadcast known vector, sum/"
    "max/mean over all or one axis, len, shape, size, topk, cumsum, map_blocks, blocks[0], transpose, store, a second "
    "boolean mask, where, diff, argmax, newaxis, tensordot, astype, flip, repeat; each applied "
    "(A) to the array with sizes still unknown and (B) after compute_chunk_sizes()). Oracle 1 (resolve): "
    "compute_chunk_sizes returns an array (itself) whose chunks have no NaN, sum to NumPy's shape, equal the shape of "
    "every block produced by executing the graph with the harness' executor (c03.check_array), equal the harness' own "
    "per-source-block selection counts where the source block layout is determined, and whose compute() equals NumPy "
    "(values, shape, dtype); the unresolved array's compute() equals NumPy too. Oracle 2 (B): the follow-on on the "
    "resolved array equals its NumPy twin (NotImplementedError = refusal). Oracle 3 (A): the follow-on on the "
    "unresolved array raises (any type; build or compute counted separately) or its COMPUTED result equals NumPy; "
    "len/shape/size may report NaN but never a wrong number. Non-trivial: the resolved unknown axis has >= 2 blocks of "
    "different true sizes including an empty one; distinct = distinct case JSON. A failing follow-on after resolving "
    "is re-run on da.from_array(NumPy result, chunks=resolved chunks); buckets ending in |also-plain-array fail there "
    "too (the operation mishandles zero-length chunks as such). Regions of listed open findings are skipped and counted."
)
ASSUMPTIONS = [
    "NumPy on the same data is the reference for producers and follow-on operations",
    "blocks are produced by the harness' executor over __dask_graph__() (c03.check_array)",
    "the layout of a flattened >=2-d source (which elements share a block) is taken from x.ravel().chunks of the known source array; only the per-block counts are then predicted by the harness",
    "with sizes unknown ANY exception is an allowed refusal; NaN entries in .shape/.size are the documented 'unknown' marker and are not a wrong value",
    "after resolving, NotImplementedError is a refusal, every other exception a failure",
]

PRODUCERS = (
    "mask_dask",
    "mask_np",
    "rowmask",
    "nonzero",
    "where1",
    "argwhere",
    "flatnonzero",
    "unique",
    "unique_counts",
    "unique_inverse",
    "unique_index",
    "compress",
    "extract",
)
RAVEL_PRODUCERS = ("mask_dask", "mask_np", "nonzero", "where1", "argwhere", "flatnonzero", "unique", "unique_counts", "unique_inverse", "unique_index", "extract")

OPS = (
    "slice",
    "int",
    "intlist",
    "take",
    "rechunk",
    "ravel",
    "reshape",
    "concat",
    "stack",
    "add_scalar",
    "add_same",
    "add_mirror",
    "add_known",
    "add_bcast",
    "sum",
    "max",
    "mean",
    "len",
    "shape",
    "size",
    "topk",
    "cumsum",
    "map_blocks",
    "blocks0",
    "transpose",
    "store",
    "mask_again",
    "where3",
    "diff",
    "argmax",
    "newaxis",
    "tensordot",
    "astype",
    "flip",
    "repeat",
)


# ---- data, conditions --------------------------------------------------------------------


def base_data(shape, order):
    shape = tuple(shape)
    size = int(np.prod(shape)) if shape else 1
    if order == "F":
        return np.ascontiguousarray(np.arange(size, dtype=np.int64).reshape(shape[::-1]).T)
    return np.arange(size, dtype=np.int64).reshape(shape)


def cond_apply(v, c):
    """Boolean condition on ``v`` (NumPy or dask array), elementwise operators only."""
    k, p, q = c["kind"], c.get("p", 0), c.get("q", 0)
    if k == "gt":
        return v > p
    if k == "le":
        return v <= p
    if k == "band":
        return (v > p) & (v <= q)
    if k == "out":
        return (v <= p) | (v > q)
    if k == "mod":
        return (v % max(1, p)) == q
    if k == "none":
        return v < 0
    if k == "all":
        return v >= 0
    raise AssertionError(f"bad cond {c!r}")


def _affine(b):
    return b * 2 + 1


def _isnan(v):
    return isinstance(v, float) and math.isnan(v)


def _tt(chunks):
    return tuple(tuple(c) for c in chunks)


# ---- producers ---------------------------------------------------------------------------


def _base(case, variant=None):
    """Condition source.  variant 'mirror': the same data flipped along every axis (same selection count, mirrored over the blocks)."""
    a = base_data(case["shape"], case["order"])
    if variant == "mirror":
        a = np.ascontiguousarray(np.flip(a))
    return a


def _line(n, variant=None):
    line = np.arange(n, dtype=np.int64)
    return np.ascontiguousarray(line[::-1]) if variant == "mirror" else line


def _values(case, variant=None):
    a = _base(case, variant)
    if variant != "partner":
        return a
    if case["prod"]["name"].startswith("unique"):
        return a + 3 * max(1, case["prod"].get("m", 1))
    return a * 2 + 1


def _nz_src(cond, base, form):
    return cond if form == "bool" else cond * (base + 1)


def np_produce(case, variant=None):
    a = _base(case, variant)
    av = _values(case, variant)
    p, c = case["prod"], case["cond"]
    name = p["name"]
    if name in ("mask_dask", "mask_np"):
        return av[cond_apply(a, c)]
    if name == "rowmask":
        ax = p["axis"]
        m = cond_apply(_line(a.shape[ax], variant), c)
        return av[(slice(None),) * ax + (m,)]
    if name in ("nonzero", "where1", "argwhere", "flatnonzero"):
        src = _nz_src(cond_apply(a, c), a, p.get("src", "bool"))
        if name == "nonzero":
            return np.nonzero(src)[p["pick"]]
        if name == "where1":
            return np.where(src)[p["pick"]]
        if name == "argwhere":
            return np.argwhere(src)
        return np.flatnonzero(src)
    if name.startswith("unique"):
        u = av % max(1, p["m"])
        if name == "unique":
            return np.unique(u)
        kw = {"unique_counts": "return_counts", "unique_inverse": "return_inverse", "unique_index": "return_index"}[name]
        return np.unique(u, **{kw: True})[p["pick"]]
    if name == "compress":
        c1 = cond_apply(_line(p["clen"], variant), c)
        return np.compress(c1, av, axis=p["axis"])
    if name == "extract":
        return np.extract(cond_apply(a, c), av)
    raise AssertionError(f"bad producer {name!r}")


def da_produce(case, variant=None):
    import dask_array as da

    a = _base(case, variant)
    chunks = _tt(case["chunks"])
    xb = da.from_array(a, chunks=chunks)
    xv = xb if variant != "partner" else da.from_array(_values(case, variant), chunks=chunks)
    p, c = case["prod"], case["cond"]
    name = p["name"]
    if name == "mask_dask":
        form = p.get("mform", "same")
        if form == "same":
            m = cond_apply(xb, c)
        elif form == "rechunk":
            m = cond_apply(xb, c).rechunk(_tt(p["mchunks"]))
        else:
            m = da.from_array(cond_apply(a, c), chunks=_tt(p["mchunks"]))
        return xv[m]
    if name == "mask_np":
        return xv[cond_apply(a, c)]
    if name == "rowmask":
        ax = p["axis"]
        line = _line(a.shape[ax], variant)
        if p.get("mform", "dask") == "numpy":
            m = cond_apply(line, c)
        else:
            m = cond_apply(da.from_array(line, chunks=(tuple(p["mchunks"]),)), c)
        return xv[(slice(None),) * ax + (m,)]
    if name in ("nonzero", "where1", "argwhere", "flatnonzero"):
        src = _nz_src(cond_apply(xb, c), xb, p.get("src", "bool"))
        if name == "nonzero":
            return da.nonzero(src)[p["pick"]]
        if name == "where1":
            return da.where(src)[p["pick"]]
        if name == "argwhere":
            return da.argwhere(src)
        return da.flatnonzero(src)
    if name.startswith("unique"):
        u = xv % max(1, p["m"])
        if name == "unique":
            return da.unique(u)
        kw = {"unique_counts": "return_counts", "unique_inverse": "return_inverse", "unique_index": "return_index"}[name]
        return da.unique(u, **{kw: True})[p["pick"]]
    if name == "compress":
        line = _line(p["clen"], variant)
        form = p.get("cform", "dask")
        if form == "dask":
            cnd = cond_apply(da.from_array(line, chunks=(tuple(p["cchunks"]),)), c)
        elif form == "numpy":
            cnd = cond_apply(line, c)
        else:
            cnd = [bool(v) for v in cond_apply(line, c)]
        return da.compress(cnd, xv, axis=p["axis"])
    if name == "extract":
        return da.extract(cond_apply(xb, c), xv)
    raise AssertionError(f"bad producer {name!r}")


def static_unknown_axes(case):
    """Which axes of the producer's result are expected to have unknown sizes (generator weighting only)."""
    p = case["prod"]
    name = p["name"]
    if name == "rowmask":
        return [] if p.get("mform") == "numpy" else [p["axis"]]
    if name == "compress":
        return [] if p.get("cform") != "dask" else [p["axis"] or 0]
    if name == "unique_inverse" and p["pick"] == 1:
        return []
    return [0]


def _blocks_count(sel, layout):
    out, pos = [], 0
    for n in layout:
        out.append(int(np.count_nonzero(sel[pos : pos + n])))
        pos += n
    return tuple(out)


def model(case):
    """Harness' own prediction -> (axis, expected sizes, source block sizes) or None.

    Only where the source block layout is determined: same-chunk masks, per-axis
    masks chunked like the axis, full-length compress conditions chunked like the axis, unique.
    """
    import dask_array as da

    a = base_data(case["shape"], case["order"])
    chunks = _tt(case["chunks"])
    p, c = case["prod"], case["cond"]
    name = p["name"]

    def flat_layout():
        if a.ndim == 1:
            return chunks[0]
        lay = da.from_array(a, chunks=chunks).ravel().chunks[0]
        return tuple(int(v) for v in lay)

    if name in ("mask_dask", "mask_np", "nonzero", "where1", "argwhere", "flatnonzero", "extract"):
        if name == "mask_dask" and p.get("mform", "same") != "same" and _tt(p["mchunks"]) != chunks:
            return None
        lay = flat_layout()
        return 0, _blocks_count(cond_apply(a, c).ravel(), lay), lay
    if name == "rowmask":
        ax = p["axis"]
        if p.get("mform", "dask") == "numpy" or tuple(p["mchunks"]) != chunks[ax]:
            return None
        m = cond_apply(np.arange(a.shape[ax], dtype=np.int64), c)
        return ax, _blocks_count(m, chunks[ax]), chunks[ax]
    if name == "compress":
        if p.get("cform", "dask") != "dask":
            return None
        ax = p["axis"]
        n = a.size if ax is None else a.shape[ax]
        lay = flat_layout() if ax is None else chunks[ax]
        if p["clen"] != n or tuple(p["cchunks"]) != tuple(lay):
            return None
        m = cond_apply(np.arange(n, dtype=np.int64), c)
        return (ax or 0), _blocks_count(m, lay), lay
    if name in ("unique", "unique_counts", "unique_index") or (name == "unique_inverse" and p["pick"] == 0):
        n = int(np.unique(_values(case) % max(1, p["m"])).size)
        return 0, (n,), None
    return None


# ---- follow-on operations ----------------------------------------------------------------


def _known_np(shape, salt):
    size = int(np.prod(shape)) if len(shape) else 1
    return (np.arange(size, dtype=np.int64).reshape(shape) * 7 + salt) % 101


class Ctx:
    """What a follow-on needs besides the array itself."""

    def __init__(self, lib, partner, resolved_chunks, true_shape, fill):
        self.lib = lib
        self.partner = partner
        self.resolved = resolved_chunks
        self.ts = tuple(true_shape)
        self.fill = fill

    def known(self, arr, style, like_axes=None):
        if self.lib == "np":
            return arr
        import dask_array as da

        if style == "resolved" and like_axes is not None:
            ch = tuple(self.resolved[d] if (d is not None and self.resolved[d] and sum(self.resolved[d]) == arr.shape[k]) else -1 for k, d in enumerate(like_axes))
        elif style == "single" or style == "resolved":
            ch = -1
        elif style == "ones":
            ch = 1
        else:
            ch = int(style)
        return da.from_array(arr, chunks=ch)


def apply_op(op, y, ctx):
    """The follow-on in NumPy (ctx.lib == 'np') or dask_array terms."""
    if ctx.lib == "np":
        lib = np
    else:
        import dask_array as lib
    n = op["name"]
    ax = op.get("axis")
    nd = y.ndim

    def at(e):
        return (slice(None),) * ax + (e,)

    if n == "slice":
        return y[at(slice(*op["s"]))]
    if n == "int":
        return y[at(int(op["i"]))]
    if n == "intlist":
        return y[at([int(v) for v in op["l"]])]
    if n == "take":
        return lib.take(y, [int(v) for v in op["l"]], axis=ax)
    if n == "rechunk":
        if ctx.lib == "np":
            return y
        c = op["c"]
        if isinstance(c, list):  # explicit chunks: flat for one axis, nested for all axes
            c = tuple(tuple(v) if isinstance(v, list) else v for v in c)
        return y.rechunk(c if ax is None else {ax: c})
    if n == "ravel":
        return y.ravel()
    if n == "reshape":
        return y.reshape(tuple(op["shape"]))
    if n in ("concat", "stack"):
        if op["other"] == "self":
            other = y
        else:
            oshape = list(ctx.ts)
            if n == "concat":
                oshape[ax] = op["olen"]
            other = ctx.known(_known_np(tuple(oshape), 500), op.get("kstyle", "single"), like_axes=list(range(nd)))
        seq = [y, other] if op.get("first", True) else [other, y]
        return lib.concatenate(seq, axis=ax) if n == "concat" else lib.stack(seq, axis=ax)
    if n == "add_scalar":
        return y + 3
    if n in ("add_same", "add_mirror"):
        return y + ctx.partner
    if n == "add_known":
        return y + ctx.known(_known_np(ctx.ts, 11), op.get("kstyle", "single"), like_axes=list(range(nd)))
    if n == "add_bcast":
        return y + ctx.known(_known_np(ctx.ts[-1:], 13), op.get("kstyle", "single"), like_axes=[nd - 1])
    if n in ("sum", "max", "mean"):
        return getattr(y, n)(axis=ax)
    if n == "len":
        return len(y)
    if n == "shape":
        return tuple(y.shape)
    if n == "size":
        return y.size
    if n == "topk":
        k = op["k"]
        if ctx.lib == "np":
            s = np.sort(y, axis=ax)
            if k > 0:
                return np.flip(s, axis=ax)[at(slice(0, k))]
            return s[at(slice(0, -k))]
        return lib.topk(y, k, axis=ax)
    if n == "cumsum":
        return lib.cumsum(y, axis=ax)
    if n == "map_blocks":
        return _affine(y) if ctx.lib == "np" else y.map_blocks(_affine)
    if n == "blocks0":
        if ctx.lib == "np":
            return y[: ctx.resolved[0][0]]
        return y.blocks[0]
    if n == "transpose":
        return y.transpose(tuple(op["perm"])) if op.get("perm") is not None else y.T
    if n == "store":
        if ctx.lib == "np":
            return np.array(y)
        t = np.full(ctx.ts, ctx.fill, dtype=y.dtype)
        lib.store(y, t)
        return t
    if n == "mask_again":
        return y[y > op["t"]]
    if n == "where3":
        return lib.where(y > op["t"], y, -1)
    if n == "diff":
        return lib.diff(y, axis=ax)
    if n == "argmax":
        return lib.argmax(y, axis=ax)
    if n == "newaxis":
        return y[None] if op.get("pos", "front") == "front" else y[..., None]
    if n == "tensordot":
        k = ctx.known(_known_np((ctx.ts[ax], 2), 17), op.get("kstyle", "single"), like_axes=[ax, None])
        return lib.tensordot(y, k, axes=([ax], [0]))
    if n == "astype":
        return y.astype("f8")
    if n == "flip":
        return lib.flip(y, ax)
    if n == "repeat":
        return lib.repeat(y, op.get("r", 2), axis=ax)
    raise AssertionError(f"bad op {n!r}")


def op_label(op, unk):
    n = op["name"]
    lab = n
    if n == "slice":
        a, b, s = op["s"]
        if a is None and b is None and s in (None, 1):
            lab = "slice-full"
        elif s is None or s == 1:
            lab = "slice-unit"
        elif s > 1:
            lab = "slice-step"
        else:
            lab = "slice-neg"
    if n in ("concat", "stack"):
        lab += "-" + op["other"]
    if n == "add_known":
        lab += "-" + str(op.get("kstyle", "single") if op.get("kstyle") in ("single", "resolved", "ones") else "c")
    ax = op.get("axis", "-")
    if ax == "-":
        return lab
    if ax is None:
        return lab + "-all"
    if n == "stack":
        return lab
    return lab + ("@unk" if ax in unk else "@known")


# ---- regions of known findings (steered around, counted) -------------------------------------


def _has_empty_block(chunks):
    return any(len(c) > 1 and 0 in c for c in chunks)


def steer(case, a_true, resolved):
    """Finding id when the case lies in the region of a listed known finding, else None."""
    p, op = case["prod"], case["op"]
    shape = case["shape"]
    if len(shape) >= 2 and 0 in shape:
        if p["name"] in RAVEL_PRODUCERS or (p["name"] == "compress" and p["axis"] is None):
            return "KF-reshape-zero-size"
    n = op["name"]
    if a_true is None:
        return None
    if a_true.size == 0 and n in ("ravel", "reshape", "mask_again") and (a_true.ndim >= 2 or (n == "reshape" and len(op["shape"]) >= 2)):
        return "KF-reshape-zero-size"
    if n in ("max", "argmax", "topk") and a_true.size == 0:
        return "KF-minmax-empty"
    return None


def _style_chunks(n, style):
    """Chunks da.from_array(arr, chunks=style) gives an axis of length n."""
    if style in ("single", "resolved") or n == 0:
        return (n,)
    c = 1 if style == "ones" else int(style)
    return (c,) * (n // c) + ((n % c,) if n % c else ())


def _inner_zero_before_nonempty(c):
    """A zero-length chunk that is not the first one and is followed by a non-empty chunk (e.g. (1, 0, 1), (0, 0, 2))."""
    return any(c[i] == 0 and c[i + 1] > 0 for i in range(1, len(c) - 1))


def own_region(case, a_true, resolved, unk, partner_resolved=None):
    """Ids of the findings OF THIS ENGINE in whose regions the follow-on lies (possibly several, possibly none).

    The KF-zero-chunk-* / KF-boolmask-* / KF-rechunk-* ones live on arrays that compute_chunk_sizes gave a zero-length
    chunk (the engine's core domain) and reproduce on da.from_array(..., chunks=<the same chunks>); the KF-unknown-*
    ones are wrong results of operations on arrays whose sizes are still unknown.
    """
    op = case["op"]
    n, ax = op["name"], op.get("axis")
    empty = _has_empty_block(resolved)
    ids = []
    if n in ("ravel", "reshape") and empty:
        ids.append("KF-zero-chunk-reshape")
    if n == "mask_again":
        if a_true.ndim >= 2 and empty:
            ids.append("KF-zero-chunk-reshape")  # the resolved >=2-d array is ravelled first
        if any(sum(c) == 1 and len(c) > 1 for c in resolved):
            ids.append("KF-boolmask-len1-multiblock")
        if unk and a_true.ndim >= 2:
            # documented by a warning in slice_with_bool_dask_array: block-wise order instead of C order
            ids.append("KF-unknown-nd-boolmask-order")
    if n == "repeat" and 0 in resolved[ax]:
        ids.append("KF-zero-chunk-repeat")
    if n == "argmax" and a_true.size and any(0 in c for c in resolved):
        ids.append("KF-zero-chunk-argreduce")
    if n == "max" and a_true.size and a_true.ndim >= 2 and any(0 in c for c in resolved):
        ids.append("KF-zero-chunk-minmax")
    if (n == "flip" or (n == "slice" and (op["s"][2] or 1) < 0)) and _inner_zero_before_nonempty(resolved[ax]):
        ids.append("KF-zero-chunk-negstep")
    if n == "rechunk" and op["c"] == "auto" and a_true.size == 0:
        ids.append("KF-rechunk-auto-zero-size")
    # elemwise of an array with unknown sizes and a known one: the known operand is not re-chunked at all (neither along
    # the unknown axis, where blocks are paired by position, nor along the known axes) when the block counts agree
    if n in ("add_known", "add_bcast") and op.get("kstyle", "single") != "resolved":
        nd = len(resolved)
        axes = list(range(nd)) if n == "add_known" else [nd - 1]
        if any(d in unk for d in axes):
            kcs = {d: _style_chunks(sum(resolved[d]), op.get("kstyle", "single")) for d in axes}
            if all(len(kcs[d]) == len(resolved[d]) for d in axes if d in unk) and any(tuple(kcs[d]) != tuple(resolved[d]) for d in axes):
                ids.append("KF-unknown-elemwise-positional-blocks")
    if n == "add_mirror" and unk and partner_resolved is not None and tuple(partner_resolved) != tuple(resolved):
        ids.append("KF-unknown-elemwise-positional-blocks")
    # concatenate drops zero-size operands while the unknown operand's size (NaN) counts as non-zero
    if n == "concat" and op["other"] == "known" and unk and op["olen"] > 0 and any(s == 0 for d, s in enumerate(a_true.shape) if d != ax):
        ids.append("KF-unknown-concat-drops-zero-size")
    return ids


OWN_IDS = (
    "KF-zero-chunk-reshape",
    "KF-boolmask-len1-multiblock",
    "KF-zero-chunk-repeat",
    "KF-zero-chunk-argreduce",
    "KF-zero-chunk-minmax",
    "KF-zero-chunk-negstep",
    "KF-rechunk-auto-zero-size",
    "KF-unknown-elemwise-positional-blocks",
    "KF-unknown-concat-drops-zero-size",
    "KF-unknown-nd-boolmask-order",
)


def _region_pred(fid):
    """Case-only predicate for vf.known (recomputes the resolved chunks with the code under test)."""

    def pred(case):
        with warnings.catch_warnings():
            warnings.simplefilter("ignore")
            validate(case)
            a_true = np_produce(case)
            y = da_produce(case)
            unk = [d for d, c in enumerate(y.chunks) if any(_isnan(v) for v in c)]
            y.compute_chunk_sizes()
            pres = None
            if case["op"]["name"] == "add_mirror":
                m = da_produce(case, "mirror")
                m.compute_chunk_sizes()
                pres = _tt(m.chunks)
            return fid in own_region(case, a_true, _tt(y.chunks), unk, pres)

    return pred


def _register_regions():
    from vf import known

    for fid in OWN_IDS:
        known.PREDICATES["c28:" + fid] = _region_pred(fid)


_register_regions()


_OPEN = None


def open_ids():
    """Ids open in known_findings.json: a region of this engine is steered around only while its id is listed there."""
    global _OPEN
    if _OPEN is None:
        import os

        from vf import exclusions

        _OPEN = exclusions._open_ids()
        if os.environ.get("VERIF_C28_ASSUME_LISTED") == "1":
            # development aid only (never set by ./check): search as if this engine's own findings were already listed
            _OPEN = frozenset(_OPEN) | frozenset(OWN_IDS)
    return _OPEN


# ---- the check ---------------------------------------------------------------------------


def validate(case):
    shape = tuple(case["shape"])
    chunks = _tt(case["chunks"])
    assert 1 <= len(shape) <= 3 and len(shape) == len(chunks)
    assert all(isinstance(n, int) and 0 <= n <= 12 for n in shape)
    assert all(len(c) >= 1 and all(isinstance(v, int) and v >= 0 for v in c) and sum(c) == n for c, n in zip(chunks, shape))
    assert all(n == 0 or 0 not in c for c, n in zip(chunks, shape))
    assert case["order"] in ("C", "F")
    p = case["prod"]
    assert p["name"] in PRODUCERS
    assert case["op"]["name"] in OPS
    size = int(np.prod(shape))
    if p["name"] == "mask_dask" and p.get("mform", "same") != "same":
        mch = _tt(p["mchunks"])
        assert len(mch) == len(shape) and all(sum(c) == n and all(v >= 0 for v in c) and len(c) >= 1 for c, n in zip(mch, shape))
    if p["name"] == "rowmask":
        assert 0 <= p["axis"] < len(shape)
        if p.get("mform", "dask") != "numpy":
            assert sum(p["mchunks"]) == shape[p["axis"]] and len(p["mchunks"]) >= 1 and all(v >= 0 for v in p["mchunks"])
    if p["name"] in ("nonzero", "where1"):
        assert 0 <= p["pick"] < len(shape)
    if p["name"].startswith("unique"):
        assert p["m"] >= 1
        if p["name"] != "unique":
            assert p["pick"] in (0, 1)
    if p["name"] == "compress":
        ax = p["axis"]
        assert ax is None or 0 <= ax < len(shape)
        n = size if ax is None else shape[ax]
        assert 0 <= p["clen"] <= n
        if p.get("cform", "dask") == "dask":
            assert sum(p["cchunks"]) == p["clen"] and len(p["cchunks"]) >= 1 and all(v >= 0 for v in p["cchunks"])


def validate_op(op, ts):
    """Follow-on parameters that NumPy's twin cannot reject by itself."""
    nd = len(ts)
    ax = op.get("axis", None)
    if op["name"] == "stack":
        assert ax in (0, nd)
    elif ax is not None:
        assert isinstance(ax, int) and 0 <= ax < nd
    elif op["name"] in ("slice", "int", "intlist", "take", "concat", "topk", "cumsum", "diff", "argmax", "tensordot", "flip", "repeat"):
        raise AssertionError("axis required")
    if op["name"] == "rechunk":
        c = op["c"]
        if isinstance(c, list):
            if ax is None:
                assert len(c) == nd and all(isinstance(v, list) and len(v) >= 1 and all(isinstance(k, int) and k >= 0 for k in v) and sum(v) == n for v, n in zip(c, ts))
                assert all(n == 0 or 0 not in v for v, n in zip(c, ts))
            else:
                assert len(c) >= 1 and all(isinstance(k, int) and k >= 0 for k in c) and sum(c) == ts[ax] and (ts[ax] == 0 or 0 not in c)
        else:
            assert c == "auto" or (isinstance(c, int) and (c == -1 or c >= 1))
    if op["name"] == "repeat":
        assert isinstance(op.get("r", 2), int) and 0 <= op.get("r", 2) <= 4
    if op["name"] == "topk":
        assert isinstance(op["k"], int) and op["k"] != 0
    if op["name"] == "concat":
        assert 0 <= op["olen"] <= 4
    if op["name"] == "transpose" and op.get("perm") is not None:
        assert sorted(op["perm"]) == list(range(nd))
    if "kstyle" in op:
        assert op["kstyle"] in ("single", "resolved", "ones") or (isinstance(op["kstyle"], int) and op["kstyle"] >= 1)


def _exc_bucket(kind, exc):
    """util.exc_bucket with runs of 'nan, nan, ...' and of 'N, N, ...' collapsed (one bucket per message, not per block count)."""
    import re

    b = util.exc_bucket(kind, exc)
    b = re.sub(r"\(+nan.*$", "(nan..)", b)  # the message is cut at 90 characters, so drop everything from the first chunk tuple on
    b = re.sub(r"N(, N)+", "N..", b)
    return b


def _compare(got, exp, allow_nan=False):
    """None or (kind, text). got/exp: arrays, ints or shape tuples."""
    if isinstance(exp, tuple):
        if not isinstance(got, tuple) or len(got) != len(exp):
            return "shape", f"{got!r} != {exp!r}"
        for g, e in zip(got, exp):
            if allow_nan and _isnan(g):
                continue
            if g != e:
                return "shape", f"{got!r} != {exp!r}"
        return None
    if isinstance(exp, (int, np.integer)) and not isinstance(exp, np.ndarray) and not hasattr(got, "shape"):
        if allow_nan and _isnan(got):
            return None
        return None if got == exp else ("values", f"{got!r} != {exp!r}")
    why = util.same(got, exp)
    if why is None:
        return None
    return why.split(" ")[0], f"{why}\n got={util.short(got)}\n exp={util.short(exp)}"


def _run_op(op, y, ctx):
    """-> ('ok', value, adv_chunks) | ('build'|'compute', exc, None)"""
    stage = "build"
    try:
        r = apply_op(op, y, ctx)
        adv = getattr(r, "chunks", None) if hasattr(r, "compute") else None
        stage = "compute"
        if hasattr(r, "compute"):
            r = r.compute()
        return "ok", r, adv
    except Exception as e:
        return stage, e, None


def run_case(case, steering=True):
    """-> (labels, failures, excluded id or None, nontrivial).  ``steering``: skip regions of open listed findings."""
    import dask_array as da

    validate(case)
    p, op = case["prod"], case["op"]
    labs = ["prod:" + p["name"], "gen-op:" + op["name"]]
    skip = open_ids() if steering else frozenset()
    fid = steer(case, None, None)
    if fid in skip:
        return labs, [], fid, False
    pvariant = {"add_same": "partner", "add_mirror": "mirror"}.get(op["name"])
    with warnings.catch_warnings():
        warnings.simplefilter("ignore")
        try:
            a_true = np_produce(case)
            a_part = np_produce(case, pvariant) if pvariant else None
        except Exception as e:
            raise AssertionError(f"invalid producer for NumPy: {type(e).__name__}: {e}")
        validate_op(op, a_true.shape)
        # ---- oracle 1: resolve
        fails = []
        try:
            yA = da_produce(case)
            yB = da_produce(case)
        except Exception as e:
            return labs, [(util.exc_bucket(f"producer-build-raises|{p['name']}", e), util.exc_detail(e))], None, False
        unk = [d for d, c in enumerate(yA.chunks) if any(_isnan(v) for v in c)]
        labs.append("unknown-axes:%d" % len(unk))
        if not unk:
            labs.append("known-producer:" + p["name"])
        try:
            ret = yB.compute_chunk_sizes()
        except Exception as e:
            return labs, [(util.exc_bucket(f"resolve-raises|{p['name']}", e), util.exc_detail(e))], None, False
        labs.append("ret-is-self" if ret is yB else "ret-is-other")
        objs = [("orig", yB)] + ([("ret", ret)] if ret is not yB else [])
        for tag, obj in objs:
            ch = getattr(obj, "chunks", None)
            if ch is None:
                fails.append((f"resolve|{tag}-not-an-array", repr(obj)[:200]))
                continue
            if any(_isnan(v) for c in ch for v in c):
                fails.append((f"resolve|{tag}-nan-left", f"chunks {ch}"))
                continue
            if any(not isinstance(v, int) or isinstance(v, bool) for c in ch for v in c):
                fails.append((f"resolve|{tag}-non-int-chunks", f"chunks {ch!r}"))
            if tuple(obj.shape) != a_true.shape:
                fails.append((f"resolve|{tag}-shape", f"resolved shape {tuple(obj.shape)} chunks {ch}, NumPy {a_true.shape}"))
                continue
            st_, f, _ = c03.check_array(obj, "resolved-" + tag)
            fails.extend(f)
            try:
                why = _compare(obj.compute(), a_true)
                if why:
                    fails.append((f"resolve|{tag}-compute-{why[0]}", why[1]))
            except Exception as e:
                fails.append((util.exc_bucket(f"resolved-compute-raises|{p['name']}", e), util.exc_detail(e)))
        if fails:
            return labs, fails, None, False
        resolved = tuple(tuple(int(v) for v in c) for c in yB.chunks)
        # producers that come back with known sizes (NumPy masks on one axis, ...) are free to use any layout
        mdl = model(case) if unk else None
        if mdl is not None:
            labs.append("model")
            max_, exp_sizes, src_sizes = mdl
            if tuple(resolved[max_]) != tuple(exp_sizes):
                fails.append(("resolve|block-sizes-vs-model", f"axis {max_}: resolved {resolved[max_]}, harness counts per source block {exp_sizes} (source blocks {src_sizes})"))
                return labs, fails, None, False
            if src_sizes is not None and any(s > 0 and e == s for e, s in zip(exp_sizes, src_sizes)):
                labs.append("all-selected-block")
        else:
            labs.append("model:none")
        labs.append("resolved")
        ublocks = [resolved[d] for d in unk]
        if any(0 in c for c in ublocks):
            labs.append("empty-block")
        nontrivial = any(len(c) >= 2 and 0 in c and len(set(c)) >= 2 for c in ublocks)
        if any(len(c) >= 3 for c in ublocks):
            labs.append("unknown-axis>=3-blocks")
        # unresolved compute
        try:
            why = _compare(yA.compute(), a_true)
            if why:
                fails.append((f"before-resolve|compute|{why[0]}", why[1]))
        except Exception as e:
            fails.append((util.exc_bucket(f"unresolved-compute-raises|{p['name']}", e), util.exc_detail(e)))
        if fails:
            return labs, fails, None, nontrivial
        # ---- follow-on
        fid = steer(case, a_true, resolved)
        if fid in skip:
            return labs, [], fid, nontrivial
        opl = op_label(op, unk)
        ctx_np = Ctx("np", a_part, resolved, a_true.shape, 0)
        try:
            exp = apply_op(op, a_true, ctx_np)
        except Exception as e:
            raise AssertionError(f"invalid follow-on for NumPy: {type(e).__name__}: {e}")
        partA = partB = None
        if pvariant:
            partA = da_produce(case, pvariant)
            partB = da_produce(case, pvariant)
            partB.compute_chunk_sizes()
        for fid in own_region(case, a_true, resolved, unk, _tt(partB.chunks) if partB is not None else None):
            if fid in skip:
                return labs, [], fid, nontrivial
        labs.append("op:" + opl)
        # (A) sizes unknown
        if unk:
            st_, val, adv = _run_op(op, yA, Ctx("da", partA, resolved, a_true.shape, -1))
            if st_ != "ok":
                labs += ["A-raises", "A-raises:" + opl, f"A-raises-at-{st_}", "A-raises-type:" + type(val).__name__]
            else:
                why = _compare(val, exp, allow_nan=True)
                if why:
                    fails.append((f"before-resolve|{opl}|{why[0]}", f"{why[1]}\n advertised chunks of the result: {adv}"))
                else:
                    labs += ["A-ok", "A-ok:" + opl]
                    if op["name"] in ("shape", "size") and (_isnan(val) or (isinstance(val, tuple) and any(_isnan(v) for v in val))):
                        labs.append("A-nan:" + opl)
        else:
            labs.append("A-skipped-known-sizes")
        # (B) sizes resolved
        st_, val, adv = _run_op(op, yB, Ctx("da", partB, resolved, a_true.shape, -2))
        bfail = None
        if st_ != "ok":
            if isinstance(val, NotImplementedError):
                labs.append("B-notimplemented:" + opl)
            else:
                bfail = (_exc_bucket(f"after-resolve-raises|{opl}", val), util.exc_detail(val))
        else:
            why = _compare(val, exp)
            if why:
                bfail = (f"after-resolve|{opl}|{why[0]}", f"{why[1]}\n resolved chunks {resolved}; advertised chunks of the result: {adv}")
            else:
                labs += ["B-ok", "B-ok:" + opl]
        if bfail is not None:
            # control: the same follow-on on a plain from_array with the resolved chunks
            try:
                yC = da.from_array(a_true, chunks=resolved)
                pC = da.from_array(a_part, chunks=tuple(partB.chunks)) if partB is not None else None
                stc, valc, _ = _run_op(op, yC, Ctx("da", pC, resolved, a_true.shape, -3))
                if stc != "ok":
                    same_way = st_ != "ok" and type(valc) is type(val)
                else:
                    whyc = _compare(valc, exp)
                    same_way = st_ == "ok" and whyc is not None
                note = "also fails on da.from_array(NumPy result, chunks=resolved chunks)" if same_way else "passes on da.from_array(NumPy result, chunks=resolved chunks)"
            except Exception as e:
                same_way, note = False, f"control could not be built: {type(e).__name__}: {e}"
            bfail = (bfail[0] + ("|also-plain-array" if same_way else ""), f"control: {note}\n{bfail[1]}")
            fails.append(bfail)
    return labs, fails, None, nontrivial


def replay(case):
    _, fails, _, _ = run_case(case, steering=False)
    return fails


# ---- generation --------------------------------------------------------------------------


class RD(D):
    """``D`` whose bounded draws are rotated by a per-case offset (itself a Hypothesis draw).

    Hypothesis' generate phase mutates earlier examples; choices that no longer line up are replaced by the
    simplest value (0), which made the first entry of every weighted table take about half of all cases.  With the
    rotation the value 0 maps to a different entry in every case, so the tables' weights are what is measured.
    """

    def __init__(self, draw):
        super().__init__(draw)
        self._rot = draw(st.integers(0, 1 << 20))
        self._calls = 0

    def int(self, lo, hi):
        if hi < lo:
            raise ValueError((lo, hi))
        n = hi - lo + 1
        self._calls += 1
        k = self._draw(st.integers(0, n - 1))
        return lo + (k + self._rot + 7 * self._calls) % n

    def bool(self):
        return bool(self.int(0, 1))

    def chance(self, num, den):
        return self.int(0, den - 1) < num

    def choice(self, seq):
        seq = list(seq)
        return seq[self.int(0, len(seq) - 1)]

    def weighted(self, pairs):
        pairs = [(i, w) for i, w in pairs if w > 0]
        k = self.int(0, sum(w for _, w in pairs) - 1)
        for item, w in pairs:
            if k < w:
                return item
            k -= w
        raise AssertionError


def gen_cond(D_, n):
    kind = D_.weighted([("gt", 6), ("le", 3), ("band", 4), ("out", 3), ("mod", 3), ("none", 1), ("all", 1)])
    if kind in ("gt", "le"):
        return {"kind": kind, "p": D_.int(-1, max(0, n))}
    if kind in ("band", "out"):
        p = D_.int(-1, max(0, n - 1))
        return {"kind": kind, "p": p, "q": D_.int(p, max(p, n))}
    if kind == "mod":
        m = D_.int(2, 4)
        return {"kind": kind, "p": m, "q": D_.int(0, m - 1)}
    return {"kind": kind}


def gen_producer(D_, shape, chunks):
    rank = len(shape)
    size = int(np.prod(shape))
    name = D_.weighted(
        [
            ("mask_dask", 6),
            ("mask_np", 2),
            ("rowmask", 7),
            ("nonzero", 2),
            ("where1", 2),
            ("argwhere", 3),
            ("flatnonzero", 2),
            ("unique", 1),
            ("unique_counts", 1),
            ("unique_inverse", 1),
            ("unique_index", 1),
            ("compress", 5),
            ("extract", 2),
        ]
    )
    p = {"name": name}
    dom = size
    if name == "mask_dask":
        form = D_.weighted([("same", 5), ("rechunk", 1), ("fromnp", 2)])
        p["mform"] = form
        if form != "same":
            p["mchunks"] = [list(c) for c in (chunks if D_.bool() else gchunks.array_chunks(D_, shape, max_blocks_total=24))]
    elif name == "rowmask":
        ax = D_.int(0, rank - 1)
        p["axis"] = ax
        p["mform"] = D_.weighted([("dask", 6), ("numpy", 1)])
        if p["mform"] == "dask":
            p["mchunks"] = list(chunks[ax] if D_.chance(3, 4) else gchunks.axis_chunks(D_, shape[ax]))
        dom = shape[ax]
    elif name in ("nonzero", "where1"):
        p["pick"] = D_.int(0, rank - 1)
        p["src"] = D_.choice(["bool", "int"])
    elif name in ("argwhere", "flatnonzero"):
        p["src"] = D_.choice(["bool", "int"])
    elif name.startswith("unique"):
        p["m"] = D_.int(1, max(1, min(size, 6)))
        if name != "unique":
            p["pick"] = D_.int(0, 1)
    elif name == "compress":
        ax = D_.weighted([(None, 1)] + [(k, 3) for k in range(rank)])
        p["axis"] = ax
        n = size if ax is None else shape[ax]
        p["clen"] = n if D_.chance(3, 4) else D_.int(0, n)
        p["cform"] = D_.weighted([("dask", 6), ("numpy", 1), ("list", 1)])
        if p["cform"] == "dask":
            if ax is not None and p["clen"] == n and D_.chance(3, 4):
                p["cchunks"] = list(chunks[ax])
            else:
                p["cchunks"] = list(gchunks.axis_chunks(D_, p["clen"]))
        dom = p["clen"]
    return p, dom


def gen_op(D_, ts, unk):
    """A follow-on that NumPy accepts on an array of shape ``ts``."""
    nd = len(ts)
    size = int(np.prod(ts))

    def pick_axis(need_nonempty=False):
        cands = [d for d in range(nd) if not need_nonempty or ts[d] > 0]
        if not cands:
            return None
        u = [d for d in cands if d in unk]
        if u and D_.chance(1, 2):
            return D_.choice(u)
        return D_.choice(cands)

    name = D_.weighted(
        [
            ("slice", 8),
            ("int", 3),
            ("intlist", 3),
            ("take", 2),
            ("rechunk", 5),
            ("ravel", 2),
            ("reshape", 3),
            ("concat", 5),
            ("stack", 3),
            ("add_scalar", 2),
            ("add_same", 3),
            ("add_mirror", 3),
            ("add_known", 4),
            ("add_bcast", 2),
            ("sum", 3),
            ("max", 3),
            ("mean", 3),
            ("len", 2),
            ("shape", 1),
            ("size", 1),
            ("topk", 3),
            ("cumsum", 3),
            ("map_blocks", 2),
            ("blocks0", 2),
            ("transpose", 2),
            ("store", 3),
            ("mask_again", 2),
            ("where3", 2),
            ("diff", 2),
            ("argmax", 2),
            ("newaxis", 1),
            ("tensordot", 2),
            ("astype", 1),
            ("flip", 2),
            ("repeat", 2),
        ]
    )
    op = {"name": name}
    kstyles = [("single", 3), ("resolved", 3), ("ones", 1), (2, 1)]
    if name == "slice":
        ax = pick_axis()
        n = ts[ax]
        form = D_.weighted([("head", 3), ("unit", 3), ("any", 4)])
        if form == "head":
            s = [None, D_.int(0, n + 1), None]
        elif form == "unit":
            u = gidx.gen_unit_slice(D_, n)
            s = [u.start, u.stop, u.step]
        else:
            g = gidx.gen_slice(D_, n, plain_bias=False)
            s = [g.start, g.stop, g.step]
        op.update(axis=ax, s=s)
    elif name in ("int", "argmax"):
        ax = pick_axis(need_nonempty=True)
        if ax is None:
            return {"name": "add_scalar"}
        op["axis"] = ax
        if name == "int":
            op["i"] = D_.int(-ts[ax], ts[ax] - 1)
    elif name in ("intlist", "take"):
        ax = pick_axis(need_nonempty=True)
        if ax is None:
            return {"name": "add_scalar"}
        op.update(axis=ax, l=gidx.gen_int_list(D_, ts[ax], 1, 4))
    elif name == "rechunk":
        ax = pick_axis() if D_.chance(4, 5) else None
        if D_.chance(2, 5):  # explicit chunk tuples that add up to the true lengths
            c = list(gchunks.axis_chunks(D_, ts[ax])) if ax is not None else [list(gchunks.axis_chunks(D_, n)) for n in ts]
        else:
            c = D_.choice([-1, 1, 2, 3, "auto"])
        op.update(axis=ax, c=c)
    elif name == "reshape":
        form = D_.weighted([("flat", 2), ("expand", 2), ("merge", 2 if nd >= 2 else 0), ("split1", 1)])
        if form == "flat":
            shp = [-1] if size > 0 and D_.bool() else [size]
        elif form == "expand":
            shp = list(ts) + [1]
            if unk and ts[unk[0]] > 0 and size > 0 and D_.bool():
                shp[unk[0]] = -1
        elif form == "merge":
            shp = list(ts[:-2]) + [ts[-2] * ts[-1]]
            if size > 0 and D_.bool():
                shp[-1] = -1
        else:
            shp = [1] + list(ts)
        op["shape"] = shp
    elif name == "concat":
        op.update(axis=pick_axis(), other=D_.choice(["self", "known"]), olen=D_.int(0, 3), first=D_.chance(3, 4), kstyle=D_.weighted(kstyles))
    elif name == "stack":
        op.update(axis=D_.choice([0, nd]), other=D_.choice(["self", "known"]), first=D_.chance(3, 4), kstyle=D_.weighted(kstyles))
    elif name in ("add_known", "add_bcast"):
        op["kstyle"] = D_.weighted(kstyles)
    elif name in ("sum", "mean"):
        op["axis"] = None if D_.chance(1, 3) else pick_axis()
    elif name == "max":
        if D_.chance(1, 3) and size > 0:
            op["axis"] = None
        else:
            ax = pick_axis(need_nonempty=True)
            if ax is None:
                return {"name": "add_scalar"}
            op["axis"] = ax
    elif name == "topk":
        op.update(axis=pick_axis(), k=D_.choice([1, 2, 3, -1, -2]))
    elif name in ("cumsum", "diff", "flip"):
        op["axis"] = pick_axis()
    elif name == "repeat":
        op.update(axis=pick_axis(), r=D_.int(1, 3))
    elif name == "transpose":
        op["perm"] = D_.perm(nd) if nd >= 2 and D_.bool() else None
    elif name in ("mask_again", "where3"):
        op["t"] = D_.int(-1, max(0, 2 * size))
    elif name == "newaxis":
        op["pos"] = D_.choice(["front", "back"])
    elif name == "tensordot":
        op.update(axis=pick_axis(), kstyle=D_.weighted(kstyles))
    return op


@st.composite
def case_strategy(draw):
    D_ = RD(draw)
    rank = D_.weighted([(1, 4), (2, 5), (3, 2)])
    shape = tuple(D_.weighted([(0, 1), (1, 1), (2, 2), (3, 3), (4, 3), (5, 3), (6, 3), (7, 2), (8, 2), (9, 2)]) for _ in range(rank))
    chunks = gchunks.array_chunks(D_, shape, max_blocks_total=24)
    case = {"shape": list(shape), "chunks": [list(c) for c in chunks], "order": D_.weighted([("C", 3), ("F", 1)])}
    p, dom = gen_producer(D_, shape, chunks)
    case["prod"] = p
    case["cond"] = gen_cond(D_, dom)
    with warnings.catch_warnings():
        warnings.simplefilter("ignore")
        a_true = np_produce(case)
    case["op"] = gen_op(D_, a_true.shape, static_unknown_axes(case))
    return case


def run_shard(spec, seed):
    col = Collector()

    @hypothesis.seed(seed)
    @settings(max_examples=spec["cases"], database=None, deadline=None, derandomize=False, phases=[Phase.generate], suppress_health_check=list(HealthCheck))
    @given(case_strategy())
    def body(case):
        try:
            labs, fails, fid, nontrivial = run_case(case)
        except AssertionError as e:
            col.reject("numpy-undefined:" + str(e)[:60])
            return
        if fid:
            col.exclude(fid)
            if "resolved" not in labs:
                return
        col.case(case, nontrivial, labs + (["nontrivial"] if nontrivial else []))
        for b, d in fails:
            col.fail(b, case, d)

    body()
    return col.result()


# ---- shrinking -----------------------------------------------------------------------------


def shrink(case):
    """Candidates of ``_shrink_raw`` that are well-formed and stay outside the regions of findings other engines list
    (a C28 failure must not be minimised into, say, the zero-size reshape defect that shares its bucket text)."""
    for cand in _shrink_raw(case):
        try:
            validate(cand)
            with warnings.catch_warnings():
                warnings.simplefilter("ignore")
                a = np_produce(cand)
            if steer(cand, None, None) or steer(cand, a, None):
                continue
        except Exception:
            continue
        yield cand


def _shrink_raw(case):
    """Structure-aware candidates first (keep shape/chunks consistent), then the generic JSON ones."""
    import json

    from vf.runner import _generic_shrink

    def clone():
        return json.loads(json.dumps(case))

    shape, chunks = case["shape"], case["chunks"]
    for ax in range(len(shape)):
        if len(chunks[ax]) > 1:
            for j in range(len(chunks[ax]) - 1):
                c = clone()
                c["chunks"][ax][j : j + 2] = [chunks[ax][j] + chunks[ax][j + 1]]
                _fix_aux(c, ax)
                yield c
        if shape[ax] > 0:
            c = clone()
            c["shape"][ax] -= 1
            c["chunks"][ax][-1] -= 1
            if c["chunks"][ax][-1] == 0 and len(c["chunks"][ax]) > 1:
                c["chunks"][ax].pop()
            _fix_aux(c, ax)
            yield c
    if case["order"] != "C":
        c = clone()
        c["order"] = "C"
        yield c
    if case["cond"]["kind"] not in ("gt",):
        c = clone()
        c["cond"] = {"kind": "gt", "p": case["cond"].get("p", 0)}
        yield c
    p = case["prod"]
    if p.get("mform") in ("rechunk", "fromnp"):
        c = clone()
        c["prod"]["mform"] = "same"
        c["prod"].pop("mchunks", None)
        yield c
    yield from _generic_shrink(case)


def _fix_aux(c, ax):
    """After changing axis ``ax`` of the base array keep the producer's own chunk lists consistent."""
    p = c["prod"]
    shape, chunks = c["shape"], c["chunks"]
    if p["name"] == "mask_dask" and "mchunks" in p:
        p["mchunks"] = [list(x) for x in chunks]
    if p["name"] == "rowmask" and "mchunks" in p:
        p["mchunks"] = list(chunks[p["axis"]])
    if p["name"] == "compress":
        n = int(np.prod(shape)) if p["axis"] is None else shape[p["axis"]]
        p["clen"] = min(p["clen"], n)
        if "cchunks" in p:
            p["cchunks"] = list(chunks[p["axis"]]) if (p["axis"] is not None and p["clen"] == n) else [p["clen"]]


def plan(tier):
    return progrun.plan_cases(tier, 9600, 120000)


# Required classes describe what the GENERATOR reaches (every producer, every follow-on, empty blocks) plus the
# aggregate raise/succeed split and a few per-op classes that a removed guard cannot empty (a defect that turns every
# "raises" of one operation into a wrong result must surface as a VIOLATION, not as a missing class).
_REQ = (
    ["prod:" + n for n in PRODUCERS]
    + ["gen-op:" + n for n in OPS]
    + ["empty-block", "all-selected-block", "resolved", "nontrivial", "model", "unknown-axis>=3-blocks"]
    + ["A-ok", "A-raises", "A-raises-at-build", "B-ok"]
    + ["A-ok:add_scalar", "A-ok:sum-all", "A-ok:map_blocks", "A-ok:concat-self@unk"]
)
REQUIRED_CLASSES = {"quick": list(_REQ), "thorough": list(_REQ)}
