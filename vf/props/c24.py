"""C24 — source reads return exactly the requested elements, within bounds."""

from __future__ import annotations

import gc
import math
import os
from functools import reduce

import hypothesis
import numpy as np
from hypothesis import HealthCheck, Phase, given, settings
from hypothesis import strategies as st

from vf import exclusions, progrun, rewrites, util
from vf import sources as S
from vf.gen import indices as gidx
from vf.gen import programs as P
from vf.gen.draw import D
from vf.runner import Collector

PROPERTY = "C24"
RULE = (
    "Programs (vf.gen.programs JSON, NumPy twin) of unary statements over ONE leaf whose leaf is da.from_array over a "
    "RecordingSource: a non-NumPy array-like logging every __getitem__, with drawn storage grid (none / aligned with / "
    "finer than / coarser than / misaligned with the dask chunks; exposed as .chunks, .shards or both; behind 0-2 adapter "
    "objects linked by .array/._array), lock (False, True, threading.Lock), fancy, inline_array, asarray and getitem "
    "(default, a 4-argument user getter, the documented 2-argument user getter); 1 leaf in 10 is a plain small ndarray. "
    "Two generators, by shard: (1/3) program_strategy restricted to getitem (ints, unit / non-unit / negative steps, "
    "newaxis, Ellipsis; weight 30), rechunk / rechunk_auto (14), neg/abs/add_s/mul_s and T/transpose/copy (13), 1-5 "
    "statements, rank 0-3, axis lengths 0-8; (2/3) a chain generator in the same format, rank 1-3, axis lengths 0-12, "
    "2-5 statements mostly applied to the newest variable, slices mostly unit-step with in-range / negative / "
    "out-of-range bounds and ints, half of the programs starting from the template slice -> (rechunk | x.simplify() / "
    "x.optimize() of the intermediate collection | elemwise / transpose) -> slice, so that a slice meets a FromArray "
    "that already carries a region. 1-2 outputs (shared reads). Oracle: every output equals the NumPy twin (shape, "
    "dtype, values); every request logged while the graph executes is a tuple of slices/ints with 0 <= start <= stop "
    "<= n, step None or >= 1, ints in [0, n); the elements requested cover the elements the output needs (id-array "
    "twin); metamorphic: for an output y = v[b] whose whole chain has unit steps and no newaxis and whose result is not "
    "empty, the elements requested when computing y are a subset of those requested when computing v alone. Thorough "
    "tier adds <= 1% cases on a real 3000x3000 float64 ndarray (72 MB) sliced 1-2 times (optionally through a "
    "transpose / elemwise / rechunk) so the region stays above the 64 MiB eager-copy limit and the NumPy region path of "
    "FromArray._layer runs. Non-trivial: a slice was pushed into a FromArray that already had a region (nested "
    "region), or a rechunk was pushed into a read of a source with a storage grid, or the large NumPy region path ran; "
    "distinct = distinct case JSON."
)
ASSUMPTIONS = [
    "NumPy indexing of the wrapped ndarray is the reference; the recorder delegates to it and only observes",
    "bounds are asserted on what is requested (slices are not silently clipped by the oracle: stop > n is a failure even though NumPy would clip it)",
    "the subset relation is asserted only for chains of unit-step slices and ints: a (fused) slice with a non-unit step or a newaxis is not pushed into the read and legitimately reads whole blocks (class 'unpushable-slice-reads-beyond-prefix'); nor for empty results, which read one block to cut a 0-length piece from it (class 'empty-selection-reads-a-block')",
    "a request made with phase 'execute' includes the 0-size meta requests of the optimisation that compute() runs; they satisfy the same bounds",
    "sync scheduler",
    "family numpy-scaled-limit lowers dask_array.io._from_array._NUMPY_SLICE_PUSHDOWN_NBYTES_LIMIT in-process from 64 MiB to 2048 bytes for the duration of a case (a harness-side rebinding of a module constant, no source change) so that the deferred-region branch, the eager-copy branch and the transition between them inside one chain of windows are reached with 40x40 arrays; the thorough tier also runs the unscaled family on 72 MB arrays",
]
from vf import exclusions as _ex

EXCLUDE = _ex.ALL  # every program-level region of a listed open finding

ELEMWISE = ("neg", "abs", "add_s", "mul_s")
SHAPE = ("T", "transpose", "copy")
ALLOWED = ("getitem", "rechunk", "rechunk_auto", "optimize_here") + ELEMWISE + SHAPE


class OptimizeHereError(Exception):
    """simplify()/optimize() of an intermediate collection raised."""


@P.op("optimize_here", "c24-only")  # a family no other generator gives weight to
class _OptimizeHere:
    """y = x.simplify() / x.optimize(): the user optimises an intermediate collection
    and keeps working on the result (identity for NumPy).  A slice taken afterwards
    meets a FromArray that already carries a region."""

    @staticmethod
    def gen(D_, vals):
        i = P._pick(D_, vals, lambda v: v.ndim >= 1)
        return None if i is None else {"op": "optimize_here", "args": [i], "how": D_.choice(["simplify", "simplify", "optimize"])}

    @staticmethod
    def np(s, a):
        return a[0]

    @staticmethod
    def da(s, a):
        assert s["how"] in ("simplify", "optimize")
        try:
            return a[0].simplify() if s["how"] == "simplify" else a[0].optimize()
        except NotImplementedError:
            raise
        except Exception as e:  # an optimiser failure is a finding, not an invalid program
            raise OptimizeHereError(e) from e

WEIGHTS = {"index": 30, "rechunk": 14, "elemwise": 6, "shape": 7}
STORAGE_KINDS = ("none", "aligned", "finer", "coarser", "misaligned")
LARGE_LIMIT = 64 * 1024 * 1024


# ---------------------------------------------------------------------------
# generation of the source options (all draws through Hypothesis)


def _divisors(n):
    return [d for d in range(1, n + 1) if n % d == 0]


def _storage_axis(D_, kind, n, chunks):
    """One storage chunk length for an axis of length n read with dask ``chunks``."""
    bounds = list(np.cumsum(chunks)[:-1])
    g = reduce(math.gcd, [int(b) for b in bounds], 0) or max(int(n), 1)
    top = max(int(n), 1)
    if kind == "aligned":
        return g
    if kind == "finer":
        return D_.choice([d for d in _divisors(g) if d < g] or [1])
    if kind == "coarser":
        return D_.int(max(max(chunks), 1), top + 2)
    cands = [s for s in range(1, top + 2) if any(b % s for b in bounds)]
    return D_.choice(cands or list(range(1, top + 2)))


def gen_src(D_, leaf):
    nd = len(leaf["shape"])
    src = {"kind": D_.weighted([("recording", 9), ("numpy", 1)])}
    src["lock"] = D_.weighted([("false", 5), ("true", 2), ("threading", 2)])
    src["fancy"] = D_.chance(3, 4)
    src["inline_array"] = D_.chance(1, 3)
    src["asarray"] = D_.weighted([(None, 4), (True, 1), (False, 1)])
    src["getitem"] = D_.weighted([(None, 6), ("custom4", 2), ("custom2", 1)])
    if src["kind"] == "recording":
        kind = D_.weighted([("none", 3), ("aligned", 3), ("finer", 2), ("coarser", 2), ("misaligned", 3)]) if nd else "none"
        src["storage_kind"] = kind
        if kind != "none":
            src["storage"] = [_storage_axis(D_, kind, n, c) for n, c in zip(leaf["shape"], leaf["chunks"])]
            src["storage_attr"] = D_.weighted([("chunks", 6), ("shards", 2), ("both", 1)])
        src["adapter"] = D_.weighted([(0, 6), (1, 2), (2, 1)])
        src["tokenizable"] = D_.chance(4, 5)
    return src


def gen_unit_index(D_, shape):
    """Basic index made mostly of what FromArray._accept_slice takes (unit-step
    slices with in-range, negative or out-of-range bounds, ints), sometimes any slice."""
    ndim = len(shape)
    k = ndim if D_.chance(3, 4) else D_.int(1, ndim)
    elems = []
    for ax in range(k):
        n = shape[ax]
        kind = D_.weighted([("unit", 7), ("full", 2), ("int", 2 if n > 0 else 0), ("loose-bounds", 2), ("any", 2)])
        if kind == "unit":
            elems.append(gidx.gen_unit_slice(D_, n))
        elif kind == "full":
            elems.append(slice(None))
        elif kind == "int":
            elems.append(D_.int(-n, n - 1))
        elif kind == "loose-bounds":
            lo = None if D_.chance(1, 4) else D_.int(-n - 2, n + 2)
            hi = None if D_.chance(1, 4) else D_.int(-n - 2, n + 2)
            elems.append(slice(lo, hi, D_.choice([None, 1])))
        else:
            elems.append(gidx.gen_slice(D_, n))
    return tuple(elems)


def chain_program_strategy():
    """Same program format and drawing loop as programs.program_strategy, but the
    slices are mostly unit-step (pushable), so slices stack up on one read:
    x[a] -> (transpose | elemwise | rechunk)* -> [b] -> ..."""

    @st.composite
    def strat(draw):
        D_ = D(draw)
        rank = D_.weighted([(1, 4), (2, 6), (3, 3)])
        lengths = [(0, 1), (1, 1), (2, 1), (3, 2), (4, 3), (5, 3), (6, 3), (7, 3), (8, 3), (9, 2), (10, 2), (12, 1)]
        shape = tuple(D_.weighted(lengths) for _ in range(rank))
        leaf = P.gen_leaf(D_, shape=shape)
        vals = [P.leaf_data(leaf)]
        stmts, discarded, attempts = [], 0, 0
        target = D_.int(2, 5)
        # half of the programs start from the template slice -> (optimize | rechunk | other) -> slice
        forced = ["slice", D_.weighted([("optimize", 3), ("rechunk", 3), ("between", 2)]), "slice"] if D_.bool() else []
        if forced:
            target = max(target, 3)
        while len(stmts) < target and attempts < target * 4:
            attempts += 1
            if forced:
                i, kind = len(vals) - 1, forced[0]
            else:
                # chains: work on the newest variable 5 times in 6 (sharing otherwise)
                i = len(vals) - 1 if D_.chance(5, 6) else D_.int(0, len(vals) - 1)
                prev = stmts[i - 1]["op"] if i >= 1 else "leaf"
                if prev == "getitem":
                    kind = D_.weighted([("slice", 4), ("rechunk", 6), ("between", 5), ("optimize", 5)])
                else:
                    kind = D_.weighted([("slice", 12), ("rechunk", 3), ("between", 3), ("optimize", 1)])
            if vals[i].ndim == 0:
                s = None
            elif kind == "slice":
                s = {"op": "getitem", "args": [0], "index": gidx.enc(gen_unit_index(D_, vals[i].shape))}
            elif kind == "rechunk":
                s = P.OPS[D_.choice(["rechunk", "rechunk", "rechunk_auto"])].gen(D_, [vals[i]])
            elif kind == "optimize":
                s = P.OPS["optimize_here"].gen(D_, [vals[i]])
            else:
                s = P.OPS[D_.choice(ELEMWISE + SHAPE)].gen(D_, [vals[i]])
            if s is not None:
                s["args"] = [i]  # the unary generators saw a one-variable program
            if s is None:
                discarded += 1
                continue
            try:
                v = P.np_apply(s, vals)
            except P.NumpyUndefined:
                discarded += 1
                continue
            stmts.append(s)
            vals.append(v)
            forced = forced[1:]
        nvars = len(vals)
        outs = [nvars - 1]
        if nvars >= 3 and D_.chance(1, 4):
            o2 = D_.int(1, nvars - 2)
            if o2 not in outs:
                outs.append(o2)
        return {"leaves": [leaf], "stmts": stmts, "outputs": outs}, {"discarded": discarded}

    return strat()


def case_strategy(gen="program"):
    if gen == "chain":
        base = chain_program_strategy()
    else:
        base = P.program_strategy(
            min_stmts=1,
            max_stmts=5,
            max_leaves=1,
            family_weights=WEIGHTS,
            op_filter=lambda n: n in ALLOWED,
            ensure_ops=("getitem",),
            max_rank=3,
            max_len=8,
        )

    @st.composite
    def strat(draw):
        prog, stats = draw(base)
        D_ = D(draw)
        for leaf in prog["leaves"]:
            leaf["src"] = gen_src(D_, leaf)
        return {"program": prog}, stats

    return strat()


# ---------------------------------------------------------------------------
# building


def validate(case):
    prog = case["program"]
    assert isinstance(prog.get("leaves"), list) and prog["leaves"] and isinstance(prog.get("stmts"), list)
    nvars = len(prog["leaves"]) + len(prog["stmts"])
    assert prog.get("outputs") and all(isinstance(o, int) and 0 <= o < nvars for o in prog["outputs"])
    for k, s in enumerate(prog["stmts"]):
        assert s["op"] in ALLOWED and len(s["args"]) == 1 and 0 <= s["args"][0] < len(prog["leaves"]) + k
    for leaf in prog["leaves"]:
        assert len(leaf["shape"]) == len(leaf["chunks"])
        for n, c in zip(leaf["shape"], leaf["chunks"]):
            assert c and sum(c) == n and all(isinstance(v, int) and v >= 0 for v in c) and (n == 0 or all(v > 0 for v in c))
        src = leaf.get("src") or {}
        assert src.get("kind", "recording") in ("recording", "numpy")
        assert src.get("lock", "false") in ("false", "true", "threading")
        assert src.get("getitem") in (None, "custom4", "custom2")
        assert src.get("asarray") in (None, True, False)
        if src.get("storage") is not None:
            assert len(src["storage"]) == len(leaf["shape"]) and all(isinstance(v, int) and v >= 1 for v in src["storage"])
            assert src.get("storage_attr", "chunks") in ("chunks", "shards", "both")
        assert src.get("adapter", 0) in (0, 1, 2)


def make_leaf(leaf, data, registry):
    return S.leaf_from_json(leaf, data, registry)


def eval_ids(prog):
    """Twin on element ids: ids[v] holds, for each element of variable v, the flat
    index of the leaf element it is (a copy of / computed from)."""
    ids, leaf_of = [], []
    for li, leaf in enumerate(prog["leaves"]):
        shape = tuple(leaf["shape"])
        ids.append(np.arange(int(np.prod(shape)) if shape else 1).reshape(shape))
        leaf_of.append(li)
    for s in prog["stmts"]:
        a = s["args"][0]
        if s["op"] in ELEMWISE:
            ids.append(ids[a])
        else:
            ids.append(np.asarray(P.OPS[s["op"]].np(s, [ids[a]])))
        leaf_of.append(leaf_of[a])
    return ids, leaf_of


def _index_steps(enc):
    """Steps of all slices of an encoded basic index."""
    idx = gidx.dec(enc)
    idx = idx if isinstance(idx, tuple) else (idx,)
    return [i.step for i in idx if isinstance(i, slice)]


def chain_unit_step(prog, var):
    """True when every getitem on the path from ``var`` to its leaf is made of
    unit-step slices and ints only (the form FromArray._accept_slice takes: it
    declines newaxis and non-unit steps, and a declined slice reads whole blocks)."""
    L = len(prog["leaves"])
    while var >= L:
        s = prog["stmts"][var - L]
        if s["op"] == "getitem":
            idx = gidx.dec(s["index"])
            idx = idx if isinstance(idx, tuple) else (idx,)
            if any(i is None for i in idx) or any(isinstance(i, slice) and i.step not in (None, 1) for i in idx):
                return False
        var = s["args"][0]
    return True


def static_labels(prog):
    labs = []
    for leaf in prog["leaves"]:
        src = leaf.get("src") or {}
        if src.get("kind", "recording") == "numpy":
            labs.append("numpy-small")
            continue
        labs.append("storage-grid:" + src.get("storage_kind", "none"))
        if src.get("storage") is not None:
            labs.append("storage-attr:" + src.get("storage_attr", "chunks"))
        if src.get("adapter", 0):
            labs.append(f"adapter:{src['adapter']}")
        if not src.get("tokenizable", True):
            labs.append("untokenizable-source")
        labs.append("lock:" + src.get("lock", "false"))
        if src.get("getitem"):
            labs += ["custom-getitem", "custom-getitem:" + src["getitem"]]
        if src.get("inline_array"):
            labs.append("inline_array")
        if src.get("asarray") is not None:
            labs += ["asarray", f"asarray:{src['asarray']}"]
        if not src.get("fancy", True):
            labs.append("fancy=False")
    for s in prog["stmts"]:
        if s["op"] == "getitem":
            steps = _index_steps(s["index"])
            if any(t is not None and t < 0 for t in steps):
                labs.append("negative-step")
            if any(t is not None and abs(t) > 1 for t in steps):
                labs.append("nonunit-step")
            idx = gidx.dec(s["index"])
            if any(isinstance(i, int) for i in (idx if isinstance(idx, tuple) else (idx,))):
                labs.append("int-index")
    return labs


def rewrite_labels(prog):
    """Classes read off the rewrites that fire when each output is optimised (fresh build)."""
    labs = set()
    registry = []
    with S.phase("optimize"):
        try:
            with rewrites.recording() as recs0:  # optimize_here statements rewrite while building
                vars_ = P.build_da(prog, leaf_factory=lambda leaf, data: make_leaf(leaf, data, registry))
        except Exception:
            return labs
        for k, o in enumerate(prog["outputs"]):
            try:
                with rewrites.recording() as recs:
                    opt = vars_[o].expr.optimize()
            except Exception:
                continue
            if k == 0:
                recs = list(recs0) + list(recs)
            for rule, before, after in recs:
                if rule != "FromArray._simplify_up":
                    continue
                fa = before.array
                src = S.unwrap(fa.array)
                grid = (getattr(src, "shards", None) or getattr(src, "chunks", None)) is not None
                if type(before).__name__ == "Rechunk":
                    labs.add("rechunk-into-io")
                    if fa.operand("_region") is not None:
                        labs.add("rechunk-into-region-read")
                    if grid:
                        labs.add("storage-aligned-rechunk")
                        labs.add("storage-rechunk:" + ("absorbed" if type(after).__name__ == "FromArray" else "read-grid+rechunk"))
                else:
                    labs.add("slice-into-io")
                    if fa.operand("_region") is not None:
                        labs.add("region-composed")
            for node in opt.walk():
                if type(node).__name__ == "FromArray" and node.operand("_region") is not None:
                    labs.add("region-read")
    return labs


# ---------------------------------------------------------------------------
# the check


def _run_output(prog, var):
    """Fresh build, compute ``var`` alone under phase 'execute'.
    Returns (value | exception, requests logged meanwhile, recording?)."""
    registry = []
    with S.phase("build"):
        vars_ = P.build_da(prog, leaf_factory=lambda leaf, data: make_leaf(leaf, data, registry))
    mark = len(S.REQUESTS)
    with S.phase("execute"):
        try:
            got = vars_[var].compute()
        except BaseException as e:  # noqa: BLE001 - reported by the caller
            got = e
    return got, S.REQUESTS[mark:], bool(registry)


def _leaf_requests(reqs, shape):
    """(index, result_shape, phase) of the requests made to a recording source of
    ``shape`` (programs have one leaf).  Not attributed by object identity:
    expressions are cached by token, so the FromArray that runs may hold an
    earlier, equal source object rather than the one built last."""
    out = []
    for sid, index, rshape, ph, _v, src_shape in reqs:
        if tuple(src_shape) == tuple(shape):
            out.append((index, rshape, ph))
    return out


def check(case, vals=None):
    validate(case)
    prog = case["program"]
    if vals is None:
        try:
            vals = P.eval_np(prog)
        except P.NumpyUndefined as e:
            raise AssertionError(f"invalid case: {e}")
    ids, leaf_of = eval_ids(prog)
    S.reset()
    fails = []
    labs = set(static_labels(prog))
    L = len(prog["leaves"])
    atol = util.float_tolerance(vals, [s["op"] for s in prog["stmts"]])
    # rejected at build?
    with S.phase("build"):
        try:
            P.build_da(prog, leaf_factory=lambda leaf, data: make_leaf(leaf, data, []))
        except NotImplementedError:
            return "rejected:NotImplementedError", [], []
        except OptimizeHereError as e:
            cause = e.__cause__
            return "ok", [(util.exc_bucket("optimize-here", cause), util.exc_detail(cause))], sorted(labs)
        except Exception as e:
            return "rejected:" + util.exc_bucket("build", e), [], []
    refused = False
    for o in prog["outputs"]:
        got, reqs, recording = _run_output(prog, o)
        if isinstance(got, NotImplementedError):
            refused = True
            continue
        if isinstance(got, BaseException):
            if not isinstance(got, Exception):
                raise got
            fails.append((util.exc_bucket("compute", got), f"output {o}: " + util.exc_detail(got)))
            continue
        why = util.same(got, vals[o], rtol=0.0, atol=atol)
        if why:
            last = prog["stmts"][o - L]["op"] if o >= L else "leaf"
            fails.append((f"values|{why.split(' ')[0]}|last={last}", f"output {o}: {why}\n got={util.short(got)}\n exp={util.short(vals[o])}"))
        if not recording:
            continue  # NumPy source: nothing to observe
        shape = tuple(prog["leaves"][leaf_of[o]]["shape"])
        mine = _leaf_requests(reqs, shape)
        for index, rshape, ph in mine:
            bad = S.check_request(index, shape)
            if bad:
                fails.append((f"request|{bad.split(':')[0]}", f"output {o}: source shape {shape}, request {index!r} -> result shape {rshape}: {bad}"))
        labs.add("requests-observed")
        grid = (prog["leaves"][leaf_of[o]].get("src") or {}).get("storage")
        if grid:
            # informational only (the property does not state alignment): does a read cut through a storage chunk?
            for index, rshape, ph in mine:
                if isinstance(index, tuple) and int(np.prod(rshape, dtype=object)) > 0 and all(isinstance(i, slice) for i in index):
                    cut = any((i.start or 0) % c or ((n if i.stop is None else i.stop) % c and (n if i.stop is None else i.stop) != n) for i, c, n in zip(index, grid, shape))
                    labs.add("read-cuts-storage-chunk" if cut else "read-on-storage-grid")
        try:
            requested = S.requested_elements(mine, shape)
        except Exception as e:
            fails.append((f"request|not-a-numpy-index|{type(e).__name__}", f"output {o}: {mine!r}: {e}"))
            continue
        needed = np.zeros(requested.size, dtype=bool)
        needed[np.asarray(ids[o]).ravel()] = True
        if (needed & ~requested).any():
            fails.append(("request|needed-elements-not-requested", f"output {o}: {int((needed & ~requested).sum())} of {int(needed.sum())} needed elements never requested; requests {[m[0] for m in mine]!r}"))
        if int(requested.sum()) > int(needed.sum()):
            labs.add("reads-more-than-needed")
        elif needed.any():
            labs.add("reads-exactly-needed")
        # metamorphic: y = v[b] requests a subset of what v alone requests
        if o >= L and prog["stmts"][o - L]["op"] == "getitem":
            v = prog["stmts"][o - L]["args"][0]
            got_v, reqs_v, _ = _run_output(prog, v)
            if isinstance(got_v, BaseException):
                continue
            mine_v = _leaf_requests(reqs_v, shape)
            try:
                requested_v = S.requested_elements(mine_v, shape)
            except Exception:
                continue
            extra = requested & ~requested_v
            if extra.any():
                if np.asarray(vals[o]).size == 0:
                    # an empty selection keeps one 0-length piece of some block and reads that block
                    labs.add("empty-selection-reads-a-block")
                elif chain_unit_step(prog, o):
                    # NOT a failure: the property asks for exactly NumPy's elements and in-bounds requests, not
                    # for minimal reads.  abs(x)[:3][:2][:1] reads rows 0:3 (the innermost window is absorbed
                    # first, the outer two are cut from it in the graph) while abs(x)[:3][:2] reads 0:2 - an
                    # over-read, still in bounds and still the right values (found by the thorough tier).
                    labs.add("slice-of-y-reads-beyond-y")
                else:
                    labs.add("unpushable-slice-reads-beyond-prefix")
            else:
                labs.add("metamorphic-subset-checked")
    labs |= rewrite_labels(prog)
    if any(n == "custom_getitem2" for n, _ in S.GETTER_LOG):
        labs.add("custom-getitem:2arg-called")
    status = "refused" if refused and not fails else "ok"
    return status, fails, sorted(labs)


# ---------------------------------------------------------------------------
# NumPy source above the eager-copy limit


SCALED_LIMIT = 2048  # bytes; see run_large


def large_strategy(scaled=False):
    """NumPy sources around the eager-copy limit.  ``scaled``: the module constant is lowered in-process to
    SCALED_LIMIT so that both sides of the threshold (deferred region / eager copy) and the transition
    between them inside one chain of windows are reached with 40x40 arrays instead of 72 MB ones."""

    @st.composite
    def strat(draw):
        D_ = D(draw)
        if scaled:
            n0 = n1 = D_.choice([40, 48])
            off, chunks, rech = 8, [[16, 16], [-1, -1], [20, 12], [n0, 8]], [None, None, [12, 12], [-1, 16]]
            nsl = D_.weighted([(1, 1), (2, 3), (3, 4), (4, 2)])
        else:
            n0, n1 = 3000, 3000
            off, chunks, rech = 35, [[1000, 1000], [-1, -1], [1500, 700], [3000, 512]], [None, None, [750, 750], [-1, 1000]]
            nsl = D_.weighted([(1, 1), (2, 3), (3, 2)])
        slices = []
        for _ in range(nsl):
            kind = D_.weighted([("both", 6), ("rows", 2), ("int", 1 if nsl >= 3 and slices else 0)])
            if kind == "both":
                slices.append([[D_.int(0, off), -D_.int(1, off)], [D_.int(0, off), -D_.int(1, off)]])
            elif kind == "rows":
                slices.append([[D_.int(0, 2 * off), None], [None, None]])
            else:
                slices.append([[D_.int(1, off), None], [None, None]])  # rows again, open-ended
        case = {
            "kind": "numpy-large",
            "shape": [n0, n1],
            "chunks": D_.choice(chunks),
            "slices": slices,
            "between": D_.choice([None, "T", "neg", "rechunk"]) if nsl >= 2 else None,
            "rechunk": D_.choice(rech),
            "lock": D_.weighted([("false", 4), ("true", 1)]),
        }
        if scaled:
            case["limit"] = SCALED_LIMIT
        return case

    return strat()


def run_large(case):
    import dask_array as da

    assert case.get("kind") == "numpy-large"
    n0, n1 = case["shape"]
    assert n0 * n1 <= 12_000_000 and 1 <= len(case["slices"]) <= 4
    import dask_array.io._from_array as _fa

    limit = case.get("limit")
    assert limit is None or (isinstance(limit, int) and limit >= 64)
    fails, labs = [], ["numpy-large" if limit is None else "numpy-scaled-limit"]
    a = np.arange(n0 * n1, dtype="f8").reshape(n0, n1)
    real_limit = _fa._NUMPY_SLICE_PUSHDOWN_NBYTES_LIMIT
    if limit is not None:
        _fa._NUMPY_SLICE_PUSHDOWN_NBYTES_LIMIT = limit
    small = (11, 13) if limit is not None else (700, 900)
    try:
        y = da.from_array(a, chunks=tuple(case["chunks"]), lock=S.make_lock(case.get("lock", "false")))
        exp = a
        for k, sl in enumerate(case["slices"]):
            idx = tuple(slice(p[0], p[1]) for p in sl)
            if k == 1 and case.get("between") == "T":
                y, exp = y.T, exp.T
            elif k == 1 and case.get("between") == "neg":
                y, exp = -y, -exp
            elif k == 1 and case.get("between") == "rechunk":
                y = y.rechunk(small)
            y, exp = y[idx], exp[idx]
        if case.get("rechunk"):
            y = y.rechunk(tuple(case["rechunk"]))
        try:
            with rewrites.recording() as recs:
                opt = y.expr.optimize()
            for node in opt.walk():
                if type(node).__name__ == "FromArray":
                    reg = node.operand("_region")
                    if reg is None and type(node.array) is np.ndarray and node.array.shape != (n0, n1):
                        labs.append("numpy-eager-copy")
                    if reg is not None and type(node.array) is np.ndarray:
                        labs.append("numpy-large-region")
                        nbytes = int(np.prod(node._effective_shape)) * node.array.dtype.itemsize
                        if nbytes <= (limit or LARGE_LIMIT):
                            labs.append("numpy-large-region-below-limit")
            for rule, before, after in recs:
                if rule == "FromArray._simplify_up" and type(before).__name__ != "Rechunk" and before.array.operand("_region") is not None:
                    labs.append("numpy-large-region-composed")
            del opt, recs
        except Exception as e:
            fails.append((util.exc_bucket("large-optimize", e), util.exc_detail(e)))
        try:
            got = y.compute()
        except Exception as e:
            fails.append((util.exc_bucket("large-compute", e), util.exc_detail(e)))
            got = None
        if got is not None:
            if got.shape != exp.shape or got.dtype != exp.dtype:
                fails.append(("large|shape-or-dtype", f"got {got.shape} {got.dtype}, expected {exp.shape} {exp.dtype}"))
            else:
                # corners and a strided sample first (cheap, good diagnostics), then everything
                sub = (slice(None, None, 97), slice(None, None, 89))
                why = util.same(got[sub], exp[sub]) or util.same(got[:3, :3], exp[:3, :3]) or util.same(got[-3:, -3:], exp[-3:, -3:])
                if why is None and not np.array_equal(got, exp):
                    why = "values differ outside the sampled sub-slices"
                if why:
                    fails.append((f"large|values|{why.split(' ')[0]}", f"{why}; got[0,0]={got[0, 0] if got.size else None} exp[0,0]={exp[0, 0] if exp.size else None}"))
    finally:
        _fa._NUMPY_SLICE_PUSHDOWN_NBYTES_LIMIT = real_limit
        a = y = exp = got = None
        gc.collect()
    if len(case["slices"]) >= 3:
        labs.append("numpy-region-three-windows")
    return fails, sorted(set(labs))


# ---------------------------------------------------------------------------
# engine protocol


def replay(case):
    if case.get("kind") == "numpy-large":
        return run_large(case)[0]
    _, fails, _ = check(case)
    return fails


def shrink(case):
    if case.get("kind") == "numpy-large":
        return
    yield from progrun.shrink_case(case)
    # simpler source options
    prog = case["program"]
    for i, leaf in enumerate(prog["leaves"]):
        src = leaf.get("src") or {}
        for key, plain in (("adapter", 0), ("lock", "false"), ("getitem", None), ("asarray", None), ("inline_array", False), ("fancy", True), ("tokenizable", True), ("storage_attr", "chunks")):
            if key in src and src[key] != plain:
                new = P._copy(case)
                new["program"]["leaves"][i]["src"][key] = plain
                yield new
        if src.get("storage") is not None:
            new = P._copy(case)
            s2 = new["program"]["leaves"][i]["src"]
            s2.pop("storage")
            s2.pop("storage_attr", None)
            s2["storage_kind"] = "none"
            yield new


def nontrivial(case, labels):
    return "region-composed" in labels or "storage-aligned-rechunk" in labels or "numpy-large-region" in labels


def run_shard(spec, seed):
    col = Collector()
    sett = settings(max_examples=spec["cases"], database=None, deadline=None, derandomize=False, phases=[Phase.generate], suppress_health_check=list(HealthCheck))

    if spec.get("large"):

        @hypothesis.seed(seed)
        @sett
        @given(large_strategy(scaled=bool(spec.get("scaled"))))
        def body_large(case):
            fails, labs = run_large(case)
            col.case(case, nontrivial(case, labs), labs)
            for b, d in fails:
                col.fail(b, case, d)

        body_large()
        return col.result()

    @hypothesis.seed(seed)
    @sett
    @given(case_strategy(spec.get("gen", "program")))
    def body(cs):
        case, stats = cs
        prog = case["program"]
        if stats["discarded"]:
            col.rejected["generator-discarded-statements"] += stats["discarded"]
        if not prog["stmts"]:
            col.reject("empty-program")
            return
        vals = P.eval_np(prog)
        fid = exclusions.excluded(prog, vals, only=EXCLUDE)
        if fid:
            col.exclude(fid)
            return
        status, fails, labs = check(case, vals)
        if status.startswith("rejected"):
            col.reject(status[:120])
            return
        labels = progrun.base_labels(prog) + list(labs)
        if status == "refused":
            labels.append("refused-NotImplementedError")
        col.case(case, nontrivial(case, labels), labels)
        for b, d in fails:
            col.fail(b, case, d)

    body()
    return col.result()


def plan(tier):
    specs = progrun.plan_cases(tier, 4800, 192000)
    for i, sp in enumerate(specs):
        sp["gen"] = "program" if i % 3 == 0 else "chain"
    scale = float(os.environ.get("VERIF_SCALE", "1"))
    for _ in range(1 if tier == "quick" else 8):
        specs.append({"cases": max(50, int((400 if tier == "quick" else 500) * scale)), "large": True, "scaled": True})
    if tier == "thorough":
        # <= 1% of the cases of the tier, on one shard (memory: ~220 MB while a case runs)
        specs.append({"cases": max(4, min(int(24 * scale), sum(s["cases"] for s in specs) // 100)), "large": True})
    return specs


_COMMON = [
    "region-composed",
    "storage-aligned-rechunk",
    "rechunk-into-io",
    "rechunk-into-region-read",
    "slice-into-io",
    "storage-rechunk:absorbed",
    "storage-rechunk:read-grid+rechunk",
    "metamorphic-subset-checked",
    "negative-step",
    "custom-getitem",
    "inline_array",
    "asarray",
    "fancy=False",
    "numpy-small",
    "adapter:1",
    "adapter:2",
    "storage-attr:shards",
] + ["storage-grid:" + k for k in STORAGE_KINDS] + ["lock:" + k for k in ("false", "true", "threading")]
_SCALED = ["numpy-scaled-limit", "numpy-large-region", "numpy-large-region-composed", "numpy-eager-copy", "numpy-region-three-windows"]
REQUIRED_CLASSES = {"quick": list(_COMMON) + _SCALED, "thorough": list(_COMMON) + _SCALED + ["numpy-large"]}
