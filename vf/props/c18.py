"""C18 — reductions are independent of chunking and tree shape."""

from __future__ import annotations

import warnings

import hypothesis
import numpy as np
from hypothesis import HealthCheck, Phase, given, settings
from hypothesis import strategies as st

from vf import exclusions, progrun, util
from vf.gen import chunks as gchunks
from vf.gen import indices as gidx
from vf.gen.draw import D
from vf.runner import Collector

PROPERTY = "C18"
RULE = (
    "Hypothesis draws (array rank 1-4, one axis with up to 17 blocks so split_every=2 gives a 5-level tree; dtypes "
    "f8/f4/i8/i4/u1/bool/c16; NaN placement none / sprinkled / whole block / all) x (reduction in sum, prod, min, max, "
    "any, all, mean, var, std, moment, nansum, nanprod, nanmin, nanmax, nanmean, nanvar, nanstd, argmin, argmax, "
    "nanargmin, nanargmax, count_nonzero, topk, ptp, average with weights) x axis (None, int, negative, tuple) x "
    "keepdims x split_every (None, 2, 3, 4, per-axis dict) x ddof/order/k, optionally followed by a basic index on the "
    "result (pushed through the reduction by the optimiser), and computed under 2 further chunkings of the same data. "
    "Oracle: NumPy (np.nan*, ptp, average; moment = mean((x-mean)^k); topk = sorted extreme k); NumPy raises => "
    "dask must raise. Non-trivial: >= 3 blocks along a reduced axis and tree depth >= 2; distinct = distinct case JSON."
)
ASSUMPTIONS = [
    "NumPy is the reference; float tolerance 256 eps * M^p (p=1 sums/means, 2 variances, k moments) plus 1024 eps relative",
    "arg-reductions compared exactly (first occurrence on ties); listed finding KF-argext-ties-axis-none excluded",
]

PLAIN = ["sum", "prod", "min", "max", "any", "all", "mean", "var", "std"]
NANS = ["nansum", "nanprod", "nanmin", "nanmax", "nanmean", "nanvar", "nanstd"]
ARGS = ["argmin", "argmax", "nanargmin", "nanargmax"]
OTHER = ["moment", "count_nonzero", "topk", "ptp", "average"]


def make_data(case):
    shape = tuple(case["shape"])
    size = int(np.prod(shape))
    dt = np.dtype(case["dtype"])
    base = np.arange(size, dtype=np.int64)
    # a fixed permutation-ish scramble so extremes are not at the ends, values distinct
    if size:
        base = (base * 7 + 3) % max(size, 1) if np.gcd(7, max(size, 1)) == 1 else base[::-1].copy()
    base = base.reshape(shape) + case.get("offset", 0)
    if case["red"] in ("prod", "nanprod") and dt != np.bool_:
        # keep products far from overflow in every association order
        lut = np.array([1, -1, 2, 1]) if dt.kind in "iu" else np.array([1.0, -1.0, 2.0, 0.5])
        if dt.kind == "u":
            lut = np.array([1, 3, 2, 1])
        a = lut[base % 4].astype(dt)
    elif dt == np.bool_:
        a = (base % 3) == 0
    elif dt.kind == "u":
        a = (base % 200).astype(dt)
    elif dt.kind == "c":
        a = base.astype(dt) * (1 + 0.5j)
    else:
        a = base.astype(dt)
    nan = case.get("nan", "none")
    if nan != "none" and dt.kind == "f" and size:
        a = a.copy()
        flat = a.reshape(-1)
        if nan == "sprinkle":
            flat[np.arange(size) % 5 == 2] = np.nan
        elif nan == "all":
            flat[:] = np.nan
        elif nan == "block":
            # first block along the long axis entirely NaN
            ax = case["long_axis"]
            first = case["chunks"][ax][0]
            sl = [slice(None)] * len(shape)
            sl[ax] = slice(0, first)
            a[tuple(sl)] = np.nan
    return a


def np_reduce(case, a):
    name = case["red"]
    axis = case["axis"]
    axis = tuple(axis) if isinstance(axis, list) else axis
    kd = case.get("keepdims", False)
    if name in PLAIN or name in NANS or name in ARGS:
        kw = {"axis": axis}
        if name not in ("argmin", "argmax", "nanargmin", "nanargmax") or True:
            kw["keepdims"] = kd
        if "ddof" in case:
            kw["ddof"] = case["ddof"]
        return getattr(np, name)(a, **kw)
    if name == "moment":
        k = case["order"]
        m = np.mean(a, axis=axis, keepdims=True)
        return np.mean((a - m) ** k, axis=axis, keepdims=kd)
    if name == "count_nonzero":
        return np.count_nonzero(a, axis=axis)
    if name == "ptp":
        return np.ptp(a, axis=axis)
    if name == "average":
        w = make_weights(case, a)
        return np.average(a, axis=axis, weights=w, keepdims=kd)
    if name == "topk":
        k = case["k"]
        s = np.sort(a, axis=axis)
        sl = [slice(None)] * a.ndim
        if k > 0:
            sl[axis] = slice(None, -k - 1, -1) if k < a.shape[axis] else slice(None, None, -1)
        else:
            sl[axis] = slice(0, -k)
        return s[tuple(sl)]
    raise ValueError(name)


def make_weights(case, a):
    wk = case.get("weights")
    if wk is None:
        return None
    if wk == "full":
        return (np.arange(a.size).reshape(a.shape) % 4 + 1).astype("f8")
    ax = case["axis"]
    return (np.arange(a.shape[ax]) % 3 + 1).astype("f8")


def da_reduce(case, x, a):
    import dask_array as da

    name = case["red"]
    axis = case["axis"]
    axis = tuple(axis) if isinstance(axis, list) else axis
    kd = case.get("keepdims", False)
    se = case.get("split_every")
    if isinstance(se, dict):
        se = {int(k): v for k, v in se.items()}
    kw = {}
    if se is not None:
        kw["split_every"] = se
    if name in PLAIN or name in NANS or name in ARGS:
        if "ddof" in case:
            kw["ddof"] = case["ddof"]
        return getattr(da, name)(x, axis=axis, keepdims=kd, **kw)
    if name == "moment":
        return da.moment(x, case["order"], axis=axis, keepdims=kd, **kw)
    if name == "count_nonzero":
        return da.count_nonzero(x, axis=axis)
    if name == "ptp":
        return da.ptp(x, axis=axis)
    if name == "average":
        w = make_weights(case, a)
        if w is not None:
            wch = x.chunks if w.ndim == x.ndim else (x.chunks[case["axis"]],)
            w = da.from_array(w, chunks=wch)
        return da.average(x, axis=axis, weights=w, keepdims=kd)
    if name == "topk":
        return da.topk(x, case["k"], axis=axis, **kw)
    raise ValueError(name)


def tolerances(case, a, exp):
    name = case["red"]
    dt = np.result_type(a.dtype, np.asarray(exp).dtype)
    if np.asarray(exp).dtype.kind not in "fc":
        return 0.0, None
    eps = float(np.finfo(np.asarray(exp).dtype).eps)
    if a.dtype.kind in "fc":
        eps = max(eps, float(np.finfo(a.dtype).eps))
    with np.errstate(all="ignore"):
        fin = np.abs(a[np.isfinite(a)]) if a.size else np.array([1.0])
    M = float(max(1.0, fin.max() if fin.size else 1.0))
    p = 1
    if name in ("var", "nanvar", "std", "nanstd"):
        p = 2
    if name == "moment":
        p = max(1, case["order"])
    if name in ("prod", "nanprod"):
        return 4096 * eps * max(1, a.size), 0.0
    atol = 256 * eps * (M**p) * max(1.0, np.sqrt(a.size))
    if name in ("std", "nanstd"):
        atol = max(atol, (256 * eps) ** 0.5 * M)
    return 1024 * eps, atol


def run_case(case):
    import dask_array as da

    shape = tuple(case["shape"])
    assert all(sum(c) == n for c, n in zip(case["chunks"], shape)) and len(case["chunks"]) == len(shape)
    a = make_data(case)
    labs = ["red:" + case["red"]]
    np_exc = None
    with warnings.catch_warnings():
        warnings.simplefilter("ignore")
        with np.errstate(all="ignore"):
            try:
                exp = np_reduce(case, a)
                if "index" in case:
                    exp = np.asarray(exp)[gidx.dec(case["index"])]
            except ZeroDivisionError:
                # data-dependent (weights summing to zero): a lazy array cannot raise at call time
                raise AssertionError("numpy ZeroDivisionError: reference undefined")
            except (ValueError, IndexError, TypeError) as e:
                if "All-NaN" in str(e) and "index" in case:
                    # data dependent, and the index on top may cull the all-NaN slice from the lazy computation
                    raise AssertionError("numpy All-NaN error under an index: reference undefined")
                np_exc = e
    if np_exc is None and np.asarray(exp).dtype.kind in "fc" and a.dtype.kind in "iufcb":
        with np.errstate(all="ignore"):
            if a.size and np.isfinite(a).all() and not np.isfinite(np.asarray(exp)).all() and case["red"] in ("prod", "nanprod", "sum", "moment", "var", "std", "mean"):
                # overflow in NumPy's own evaluation order (inf*0, inf-inf): not a defined reference value
                raise AssertionError("numpy overflow: reference undefined")
    fails = []
    layouts = [case["chunks"]] + case.get("alt_chunks", [])
    results = []
    for li, ch in enumerate(layouts):
        x = da.from_array(a.copy(), chunks=tuple(tuple(c) for c in ch))
        stage = "build"
        try:
            y = da_reduce(case, x, a)
            if "index" in case:
                y = y[gidx.dec(case["index"])]
            stage = "compute"
            with warnings.catch_warnings():
                warnings.simplefilter("ignore")
                got = y.compute()
        except NotImplementedError:
            labs.append("refused-NotImplementedError")
            continue
        except Exception as e:
            if np_exc is not None:
                labs.append("both-raise")
                continue
            fails.append((util.exc_bucket(f"{case['red']}-{stage}-raises", e), util.exc_detail(e)))
            continue
        if np_exc is not None:
            fails.append((f"{case['red']}|no-raise-where-numpy-raises", f"NumPy: {np_exc!r}; dask returned {util.short(got)}"))
            continue
        rtol, atol = tolerances(case, a, exp)
        why = util.same(got, exp, rtol=rtol, atol=atol)
        if why is not None:
            fails.append((f"{case['red']}|{why.split(' ')[0]}" + ("|sliced" if "index" in case else ""), f"layout {li} {ch}: {why}\n got={util.short(got)}\n exp={util.short(exp)}"))
        results.append(got)
    return labs, fails


def replay(case):
    _, fails = run_case(case)
    return fails


def region_minmax_empty(case):
    return case["red"] in ("min", "max", "nanmin", "nanmax", "ptp", "argmin", "argmax", "nanargmin", "nanargmax") and 0 in case["shape"]


def region_arg_ties(case):
    if case["red"] not in ARGS or case["axis"] is not None or len(case["shape"]) < 2:
        return False
    a = make_data(case)
    if not a.size:
        return False
    with warnings.catch_warnings():
        warnings.simplefilter("ignore")
        if a.dtype.kind == "f" and np.isnan(a).any():
            return True  # NaN ties / all-NaN: same first-occurrence question
        ext = a.min() if "min" in case["red"] else a.max()
    return int(np.sum(a == ext)) > 1


def region_moment_low_order(case):
    return case["red"] == "moment" and case.get("order", 2) < 2


REGIONS = {"KF-minmax-empty": region_minmax_empty, "KF-argext-ties-axis-none": region_arg_ties, "KF-moment-low-order": region_moment_low_order}


def _register():
    from vf import known

    for fid, fn in REGIONS.items():
        known.PREDICATES["c18:" + fid] = fn


_register()


@st.composite
def case_strategy(draw):
    D_ = D(draw)
    rank = D_.weighted([(1, 4), (2, 5), (3, 3), (4, 1)])
    long_axis = D_.int(0, rank - 1)
    # 1 in 4 (rank >= 2): a second axis with many blocks, so per-axis fan-ins need different tree depths
    second_long = D_.choice([ax for ax in range(rank) if ax != long_axis]) if rank >= 2 and D_.chance(1, 4) else None
    shape = []
    for ax in range(rank):
        if ax == long_axis:
            shape.append(D_.int(3, 34) if second_long is None else D_.int(3, 12))
        elif ax == second_long:
            shape.append(D_.int(3, 12))
        else:
            shape.append(D_.weighted([(0, 1), (1, 3), (2, 4), (3, 4), (4, 2)]))
    chunks = []
    for ax, n in enumerate(shape):
        if ax == long_axis:
            chunks.append(list(gchunks.axis_chunks(D_, n, family=D_.choice(["ones", "uniform", "irregular", "jitter", "uniform"]), max_blocks=17 if second_long is None else 9)))
        elif ax == second_long:
            chunks.append(list(gchunks.axis_chunks(D_, n, family=D_.choice(["ones", "uniform", "irregular"]), max_blocks=9)))
        else:
            chunks.append(list(gchunks.axis_chunks(D_, n, max_blocks=3)))
    fam = D_.weighted([("plain", 8), ("nan", 5), ("arg", 4), ("other", 4)])
    red = D_.choice({"plain": PLAIN, "nan": NANS, "arg": ARGS, "other": OTHER}[fam])
    dt = D_.choice(["f8", "f8", "f4", "i8", "i4", "u1", "bool", "c16"])
    if red in NANS + ["nanargmin", "nanargmax"]:
        dt = D_.choice(["f8", "f8", "f4", "i8"])
    if red in ("min", "max", "argmin", "argmax", "topk", "ptp", "nanargmin", "nanargmax", "nanmin", "nanmax") and dt == "c16":
        dt = "f8"
    if red in ("ptp", "topk") and dt == "bool":
        dt = "i8"
    if red in ("moment", "average", "mean", "var", "std") and dt == "bool":
        dt = "i4"
    if red == "moment" and dt == "c16":
        dt = "f8"  # NumPy has no moment; the reference definition is only unambiguous for real data
    case = {"shape": shape, "chunks": chunks, "dtype": dt, "red": red, "long_axis": long_axis, "offset": D_.choice([0, -5, 3])}
    if np.dtype(dt).kind == "f":
        case["nan"] = D_.weighted([("none", 4), ("sprinkle", 4), ("block", 2), ("all", 1)]) if (red.startswith("nan") or D_.chance(1, 5)) else "none"
    # axis
    if red in ARGS or red == "topk":
        kinds = [("int", 6)] + ([("none", 2)] if red in ARGS else [])
    else:
        kinds = [("none", 2), ("int", 5), ("tuple", 3)] if second_long is None else [("none", 3), ("int", 1), ("tuple", 6)]
    k = D_.weighted(kinds)
    if k == "none":
        axis = None
    elif k == "int":
        axis = long_axis if D_.chance(2, 3) else D_.int(0, rank - 1)
        if D_.chance(1, 4):
            axis -= rank
    else:
        axes = set(D_.subset(range(rank), 1))
        if D_.chance(2, 3):
            axes.add(long_axis)
        if second_long is not None:
            axes |= {long_axis, second_long}
        axis = sorted(axes)
    case["axis"] = axis
    if red == "average":
        if isinstance(axis, int) and D_.chance(1, 2):
            case["axis"] = axis % rank
            case["weights"] = "axis"
        elif axis is None and D_.chance(1, 3):
            case["weights"] = "full"
    if red not in ("count_nonzero", "ptp", "topk"):
        case["keepdims"] = D_.chance(1, 3)
    if red in ("var", "std", "nanvar", "nanstd") and D_.chance(1, 3):
        case["ddof"] = 1
    if red == "moment":
        case["order"] = D_.int(1, 4)
    if red == "topk":
        n = shape[case["axis"] % rank]
        kk = D_.int(1, max(1, n))
        case["k"] = kk if D_.chance(2, 3) else -kk
    if red not in ("count_nonzero", "ptp", "average"):
        se = D_.weighted([(None, 3), (2, 4), (3, 2), (4, 1), ("dict", 2 if second_long is None else 9)])
        if se == "dict":
            axs = list(range(rank)) if axis is None else ([axis % rank] if isinstance(axis, int) else list(axis))
            se = {str(ax): D_.choice([2, 3, 4]) for ax in axs}
            if len(se) >= 2 and D_.chance(1, 3):
                se.pop(str(D_.choice(axs)))  # an axis left out of the dict gets the default fan-in
        if se is not None:
            case["split_every"] = se
    # alternative chunkings of the same data
    nalt = D_.weighted([(0, 2), (1, 3), (2, 1)])
    case["alt_chunks"] = [[list(c) for c in gchunks.array_chunks(D_, shape)] for _ in range(nalt)]
    return case


def _result_shape(case):
    a = np.zeros(case["shape"])
    try:
        with warnings.catch_warnings():
            warnings.simplefilter("ignore")
            return np.asarray(np_reduce({**case, "dtype": "f8"}, a)).shape
    except Exception:
        return None


def labels_for(case):
    labs = []
    ax = case["axis"]
    rank = len(case["shape"])
    red_axes = list(range(rank)) if ax is None else ([ax % rank] if isinstance(ax, int) else ax)
    nb = max(len(case["chunks"][a]) for a in red_axes)
    se = case.get("split_every")
    k = se if isinstance(se, int) else (min(se.values()) if isinstance(se, dict) and se else 4)
    depth = 1
    m = nb
    while m > 1:
        m = -(-m // k)
        depth += 1
    if nb >= 3 and depth >= 3:
        labs.append("deep-tree")
    if nb >= 9:
        labs.append("blocks>=9-on-reduced-axis")
    if isinstance(se, dict):
        labs.append("split_every-dict")
    if case.get("nan", "none") != "none":
        labs.append("nan:" + case["nan"])
    if "index" in case:
        labs.append("sliced")
    if case.get("keepdims"):
        labs.append("keepdims")
    if isinstance(ax, list):
        labs.append("axis-tuple")
    if ax is None:
        labs.append("axis-none")
    if 0 in case["shape"]:
        labs.append("zero-length-axis")
    if case.get("alt_chunks"):
        labs.append("alt-chunkings")
    return labs


def run_shard(spec, seed):
    col = Collector()
    open_ids = exclusions._open_ids()

    @hypothesis.seed(seed)
    @settings(max_examples=spec["cases"], database=None, deadline=None, derandomize=False, phases=[Phase.generate], suppress_health_check=list(HealthCheck))
    @given(case_strategy(), st.data())
    def body(case, data):
        # optional index on top of the reduction result
        rs = _result_shape(case)
        if rs is not None and len(rs) >= 1 and data.draw(st.integers(0, 2)) == 0:
            idx = gidx.gen_basic_index(D(data.draw), rs, allow_none=False, allow_ellipsis=False)
            case = dict(case)
            case["index"] = gidx.enc(idx)
        for fid, fn in REGIONS.items():
            if fid in open_ids and fn(case):
                col.exclude(fid)
                return
        try:
            labs, fails = run_case(case)
        except AssertionError as e:
            col.reject("invalid:" + str(e)[:50])
            return
        labels = labs + labels_for(case)
        col.case(case, "deep-tree" in labels, labels)
        for b, d in fails:
            col.fail(b, case, d)

    body()
    return col.result()


def plan(tier):
    return progrun.plan_cases(tier, 4000, 300000)


REQUIRED_CLASSES = {
    "quick": ["red:" + r for r in PLAIN + NANS + ARGS + OTHER] + ["deep-tree", "split_every-dict", "nan:sprinkle", "nan:block", "sliced", "axis-tuple", "axis-none"],  # "both-raise" is reached ~0-10 times per quick run (most such inputs sit in a listed region): required in thorough only
    "thorough": ["red:" + r for r in PLAIN + NANS + ARGS + OTHER] + ["deep-tree", "split_every-dict", "nan:sprinkle", "nan:block", "nan:all", "sliced", "axis-tuple", "axis-none", "both-raise"],
}
