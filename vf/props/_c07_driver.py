"""Fresh-interpreter side of C07: rebuild programs and unpickle collections.

stdin: JSON {"jobs": [{"program": ..., "pickles": {"stage": base64, ...}}, ...]}
stdout: JSON {"results": [{"name":..., "keyhash":..., "error":..., "pickles": {stage: {...}}}]}
"""

import base64
import gc
import json
import pickle
import sys
import warnings

warnings.filterwarnings("ignore")


def main():
    import dask

    dask.config.set(scheduler="sync")
    from vf.props import c07

    job = json.load(sys.stdin)
    out = []
    for j in job["jobs"]:
        r = {}
        # unpickle BEFORE anything with the same names exists here, latest stage first, dropping each one:
        # an unpickled collection must stand on its own (no live twin expression to dedup against)
        pk = {}
        for stage, b64 in reversed(list((j.get("pickles") or {}).items())):
            try:
                y = pickle.loads(base64.b64decode(b64))
                pk[stage] = c07.describe(y, compute=True)
            except Exception as e:
                pk[stage] = {"error": f"{type(e).__name__}: {e}"[:300]}
            y = None
            gc.collect()
        r["pickles"] = pk
        try:
            x = c07.build_output(j["program"])
            r.update(c07.describe(x, compute=False))
        except Exception as e:
            r["error"] = f"{type(e).__name__}: {e}"[:300]
        x = None
        gc.collect()
        out.append(r)
    import dask_array

    json.dump({"results": out, "dask_array": dask_array.__file__, "hashseed": __import__("os").environ.get("PYTHONHASHSEED")}, sys.stdout)


if __name__ == "__main__":
    main()
