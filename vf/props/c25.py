"""C25 — ``da.store`` / npy-stack write exactly the array into the requested target positions.

Two kinds of cases (plain JSON, every derived quantity is recomputed from
construction parameters so that almost every JSON mutation is again a case):

``store``  1-3 (source, target) pairs.  A source is ``da.from_array`` over
           distinct values (+ 0-2 lazy ops, NumPy twin alongside); a target is a
           NumPy array (or a recording wrapper around one) pre-filled with a
           negative sentinel pattern.  Regions are described by per-axis
           offset / padding / form and turned into slices once the source shape
           is known; the target shape follows from them.  Oracle: target ==
           pre-image with ``pre[region] = source_np`` bitwise, for every target;
           nothing is written before a ``compute=False`` result is computed;
           ``return_stored`` arrays compute to the source's values.
``npy``    ``to_npy_stack(dir, x, axis)`` in a fresh scratch dir, then
           ``from_npy_stack``: one file per block along ``axis`` holding exactly
           that block, read-back equal in values/shape/dtype, chunks along
           ``axis`` preserved and the other axes single-chunk.
"""

from __future__ import annotations

import copy
import gc
import os
import re
import shutil
import tempfile
import threading
import traceback

import numpy as np

from vf import util
from vf.gen import chunks as C
from vf.gen.draw import D
from vf.runner import Collector, _generic_shrink

PROPERTY = "C25"
RULE = (
    "Hypothesis draws (a) store cases: 1-3 (source, target) pairs, source = da.from_array over distinct values "
    "(rank 1-3, axis lengths 0-8, dtypes f8/i8/i4/bool, 5 chunking families) + 0-2 lazy ops (x+1, x*2, x[::-1], "
    "x.T, rechunk, sum(axis), unit slice) with a NumPy twin; target = sentinel-filled NumPy array or a recording "
    "wrapper (logs every __setitem__ index), same shape without regions, larger with regions; regions=None / one "
    "tuple for all pairs / list per pair (entries may be None), slices with offsets in the forms a:b, a:b:1, "
    "None-open, strided, negative, plus an int element; two pairs may share one target with disjoint regions, a "
    "pair may be an exact twin of another writing to its own equal-content target, and an earlier never-computed "
    "store(compute=False) of the same sources into other equal-content targets may be kept alive (those targets "
    "must stay untouched); "
    "lock in {True, False, threading.Lock()}, compute in {True, False}, return_stored x load_stored in "
    "{None, True, False}, scheduler sync/threads via dask.config or the scheduler= kwarg, call forms list / bare "
    "/ Array.store; (b) npy-stack round trips (axis, mmap_mode, existing/new directory) in a per-case scratch "
    "dir. Oracle: NumPy assignment pre[region] = source_np on a copy of the pre-image, compared bitwise over the "
    "whole target; targets unchanged until a compute=False result is computed; returned arrays equal source_np; "
    "npy files hold exactly the blocks along axis, read-back equals the array and keeps the chunks along axis. "
    "Non-trivial: a region start not on a chunk boundary of the source, or >=2 pairs, or compute=False (npy: >=2 "
    "blocks along axis); distinct = distinct canonical case JSON."
)
ASSUMPTIONS = [
    "the source program itself computes what NumPy computes (C01); cases where it does not are rejected, not failed",
    "TypeError/ValueError raised directly by store()'s own argument validation is a rejection; any other exception of an accepted call is a failure",
    "NotImplementedError for a region written with negative slice bounds is an explicit refusal (class 'refused:neg-region'), not a failure",
    "return_stored=True with load_stored=False and compute=False returns blocks that are the targets themselves (documented); only the target contents are checked there",
    "local schedulers only (sync, threads); in-memory targets",
    "every case starts after gc.collect(): garbage of earlier cases must not be observable (the situation 'an equal store is still alive' is generated explicitly instead)",
]

DT = {"f8": np.float64, "i8": np.int64, "i4": np.int32, "bool": np.bool_}
FORMS = ("unit", "unit1", "open", "neg", "stride2", "stride3")
OPS = ("add1", "mul2", "rev", "T", "rechunk", "sum", "slice")


def _da():
    import dask_array as da

    return da


# ---------------------------------------------------------------------------
# recording target


class Recorder:
    """Plain Python write target around a NumPy array; logs every write index."""

    def __init__(self, arr):
        self.data = arr
        self.shape = arr.shape
        self.dtype = arr.dtype
        self.ndim = arr.ndim
        self.writes = []

    def __setitem__(self, index, value):
        self.writes.append((index, tuple(np.shape(value))))
        self.data[index] = value

    def __getitem__(self, index):
        return self.data[index]


# ---------------------------------------------------------------------------
# sources


def fit_chunks(lst, n):
    """Total function: any int list becomes a valid chunking of an axis of length n."""
    n = int(n)
    if n == 0:
        return (0,)
    out = []
    rem = n
    for c in lst or []:
        c = int(c)
        if rem <= 0:
            break
        if c <= 0:
            continue
        c = min(c, rem)
        out.append(c)
        rem -= c
    if rem > 0:
        out.append(rem)
    return tuple(out)


def _fit_all(chunk_lists, shape):
    chunk_lists = list(chunk_lists or [])
    return tuple(fit_chunks(chunk_lists[a] if a < len(chunk_lists) else [], n) for a, n in enumerate(shape))


def _data(shape, dtype, base):
    size = 1
    for n in shape:
        size *= n
    a = np.arange(size, dtype=np.int64).reshape(shape) + int(base)
    if dtype == "bool":
        out = (a % 3) == 0
    elif dtype == "f8":
        out = a.astype(np.float64) + 0.5
    else:
        out = a.astype(DT[dtype])
    return np.array(out, dtype=DT[dtype]).reshape(shape)  # 0-d stays an array


def _validate_source(s):
    assert isinstance(s, dict)
    shape = s["shape"]
    assert isinstance(shape, list) and len(shape) <= 3
    assert all(isinstance(n, int) and not isinstance(n, bool) and 0 <= n <= 10 for n in shape)
    assert s["dtype"] in DT
    assert isinstance(s["base"], int) and 0 <= s["base"] <= 10000
    assert isinstance(s["chunks"], list) and all(isinstance(c, list) and all(isinstance(v, int) for v in c) for c in s["chunks"])
    assert isinstance(s["ops"], list) and len(s["ops"]) <= 4
    for op in s["ops"]:
        assert isinstance(op, list) and op and op[0] in OPS
        if op[0] in ("rev", "sum"):
            assert len(op) == 2 and isinstance(op[1], int) and 0 <= op[1] <= 3
        elif op[0] == "slice":
            assert len(op) == 4 and all(isinstance(v, int) and 0 <= v <= 12 for v in op[1:])
        elif op[0] == "rechunk":
            assert len(op) == 2 and isinstance(op[1], list) and all(isinstance(c, list) and all(isinstance(v, int) for v in c) for c in op[1])
        else:
            assert len(op) == 1


def build_source(s):
    """(dask_array source, NumPy twin).  Ops are total: an axis is taken modulo the
    current rank and an op that needs an axis is a no-op on rank 0."""
    da = _da()
    shape = tuple(s["shape"])
    data = _data(shape, s["dtype"], s["base"])
    x = da.from_array(data, chunks=_fit_all(s["chunks"], shape))
    tw = data
    for op in s["ops"]:
        name = op[0]
        rank = tw.ndim
        if name == "add1":
            x, tw = x + 1, tw + 1
        elif name == "mul2":
            x, tw = x * 2, tw * 2
        elif name == "T":
            x, tw = x.T, tw.T
        elif name == "rechunk":
            x = x.rechunk(_fit_all(op[1], tw.shape))
        elif rank == 0:
            continue
        elif name == "rev":
            idx = [slice(None)] * rank
            idx[op[1] % rank] = slice(None, None, -1)
            x, tw = x[tuple(idx)], tw[tuple(idx)]
        elif name == "sum":
            ax = op[1] % rank
            x, tw = x.sum(axis=ax), tw.sum(axis=ax)
        elif name == "slice":
            idx = [slice(None)] * rank
            idx[op[1] % rank] = slice(op[2], op[3])
            x, tw = x[tuple(idx)], tw[tuple(idx)]
    return x, np.asarray(tw)


def _precheck(x, tw):
    """The source must be a correct program (C01's business); None when fine."""
    try:
        got = x.compute(scheduler="sync")
    except Exception as e:
        return "source-compute-raises:" + type(e).__name__
    why = util.same(got, tw)
    if why is not None:
        return "source-differs-from-numpy:" + why.split(" ")[0]
    if tuple(x.shape) != tw.shape:
        return "source-declared-shape-differs"
    return None


# ---------------------------------------------------------------------------
# regions / target layout


def _get(lst, a, default):
    return lst[a] if a < len(lst) else default


def _span(n, form):
    k = {"stride2": 2, "stride3": 3}.get(form, 1)
    return 0 if n == 0 else (n - 1) * k + 1


def _mk_slice(st, sp, N, form):
    stop = st + sp
    if form == "unit":
        return slice(st, stop)
    if form == "unit1":
        return slice(st, stop, 1)
    if form == "open":
        return slice(None if st == 0 else st, None if stop == N else stop)
    if form in ("stride2", "stride3"):
        return slice(st, stop, 2 if form == "stride2" else 3)
    if form == "neg":
        if st >= N:  # only for an empty span at the very end
            return slice(st, stop)
        return slice(st - N, None if stop == N else stop - N)
    raise AssertionError(form)


def _validate_region(r):
    if r is None:
        return
    assert isinstance(r, dict)
    for k in ("off", "pad"):
        assert isinstance(r[k], list) and len(r[k]) <= 3 and all(isinstance(v, int) and not isinstance(v, bool) and 0 <= v <= 8 for v in r[k])
    assert isinstance(r["form"], list) and len(r["form"]) <= 3 and all(f in FORMS for f in r["form"])
    ia = r.get("int_at")
    if ia is not None:
        assert isinstance(ia, list) and len(ia) == 3 and all(isinstance(v, int) and not isinstance(v, bool) for v in ia)
        assert 0 <= ia[0] <= 3 and 1 <= ia[1] <= 4 and 0 <= ia[2] < ia[1]


def layout(pairs, ntargets, shapes):
    """Target shapes, per-pair region tuples (None = no region) and per-pair
    axis starts (source axes) derived from the construction parameters."""
    users = {t: [i for i, p in enumerate(pairs) if p["target"] == t] for t in range(ntargets)}
    assert all(users[t] for t in users), "unused target"
    tshapes = [None] * ntargets
    regions = [None] * len(pairs)
    starts = [None] * len(pairs)
    for t, us in users.items():
        if any(pairs[i]["region"] is None for i in us):
            assert len(us) == 1, "a pair without region owns its target"
            tshapes[t] = tuple(shapes[us[0]])
            continue
        shared = len(us) > 1
        rank = len(shapes[us[0]])
        cursor = 0
        ext = [0] * rank
        geo = {}
        for i in us:
            r = pairs[i]["region"]
            shp = shapes[i]
            assert len(shp) == rank, "pairs sharing a target have one rank"
            if shared:
                assert rank >= 1 and r.get("int_at") is None
            g = []
            for a in range(rank):
                form = _get(r["form"], a, "unit")
                sp = _span(shp[a], form)
                st = (cursor if a == 0 else 0) + _get(r["off"], a, 0)
                end = st + sp + _get(r["pad"], a, 0)
                if a == 0:
                    cursor = end
                ext[a] = max(ext[a], end)
                g.append((st, sp, form))
            geo[i] = g
        for i in us:
            reg = [_mk_slice(st, sp, ext[a], form) for a, (st, sp, form) in enumerate(geo[i])]
            starts[i] = [st for st, _, _ in geo[i]]
            tshape = list(ext)
            ia = pairs[i]["region"].get("int_at")
            if ia is not None:
                pos = min(ia[0], rank)
                reg.insert(pos, ia[2])
                tshape.insert(pos, ia[1])
            regions[i] = tuple(reg)
            tshapes[t] = tuple(tshape)
    return tshapes, regions, starts


def _sentinel(shape, dtype):
    size = 1
    for n in shape:
        size *= n
    a = np.arange(size, dtype=np.int64).reshape(shape)
    if np.dtype(dtype) == np.bool_:
        return np.array((a % 2) == 1, dtype=np.bool_).reshape(shape)
    return np.array(-1 - a, dtype=dtype).reshape(shape)  # np.array: 0-d stays an array


def _facet(pair, shape):
    r = pair["region"]
    f = []
    if r is not None:
        forms = [_get(r["form"], a, "unit") for a in range(len(shape))]
        if "neg" in forms:
            f.append("neg-region")
        if any(x.startswith("stride") for x in forms):
            f.append("strided-region")
        if r.get("int_at") is not None:
            f.append("int-region")
    if len(shape) == 0:
        f.append("rank0")
    return "+".join(f) or "plain"


def _unaligned(start, chunks_axis):
    if start == 0:
        return False
    bounds = set(np.cumsum(chunks_axis).tolist())
    if start in bounds:
        return False
    c0 = chunks_axis[0]
    uniform = c0 > 0 and all(c == c0 for c in chunks_axis[:-1]) and chunks_axis[-1] <= c0
    return not (uniform and start % c0 == 0)


# ---------------------------------------------------------------------------
# store cases


def _validate_store(case):
    pairs = case["pairs"]
    assert isinstance(pairs, list) and 1 <= len(pairs) <= 3
    targets = case["targets"]
    assert isinstance(targets, list) and 1 <= len(targets) <= len(pairs)
    for t in targets:
        assert t["kind"] in ("numpy", "recorder") and t["dtype"] in ("same", "f8", "i8")
    for p in pairs:
        _validate_source(p["src"])
        assert isinstance(p["target"], int) and not isinstance(p["target"], bool) and 0 <= p["target"] < len(targets)
        _validate_region(p["region"])
    form = case["regions"]
    assert form in ("none", "tuple", "list")
    if form == "none":
        assert all(p["region"] is None for p in pairs)
    if form == "tuple":
        assert all(p["region"] is not None for p in pairs)
    assert case["lock"] in ("true", "false", "lock")
    assert isinstance(case["compute"], bool) and isinstance(case["return_stored"], bool)
    assert case["load_stored"] in (None, True, False)
    assert case["scheduler"] in ("sync", "threads") and case["sched_via"] in ("config", "kwarg")
    assert case["call"] in ("list", "bare", "method")
    if case["call"] != "list":
        assert len(pairs) == 1
    assert case["compute_form"] in ("dask.compute", "method")
    assert case.get("prior_lazy", False) in (True, False)


def _twin_pairs(pairs, twins=None):
    """Indices of pairs that have an identical twin (same source spec - or, given the NumPy twins, the same
    source CONTENT, dtype and chunking: bool sources built from different bases are both all-True - and the
    same region parameters) writing to a different target."""
    out = set()

    def same_src(i, j):
        if util.canon(pairs[i]["src"]) == util.canon(pairs[j]["src"]):
            return True
        if twins is None:
            return False
        a, b = twins[i], twins[j]
        return a.shape == b.shape and a.dtype == b.dtype and np.array_equal(a, b) and util.canon(pairs[i]["src"].get("chunks")) == util.canon(pairs[j]["src"].get("chunks")) and util.canon(pairs[i]["src"].get("ops")) == util.canon(pairs[j]["src"].get("ops"))

    for i in range(len(pairs)):
        for j in range(i + 1, len(pairs)):
            if pairs[i]["target"] != pairs[j]["target"] and same_src(i, j) and util.canon(pairs[i]["region"]) == util.canon(pairs[j]["region"]):
                out.update((i, j))
    return out


_SHAPE = re.compile(r"\((?:N,? ?)*\)")


def _exc_bucket(kind, exc):
    """util.exc_bucket with shape tuples of any rank collapsed (one message, one bucket)."""
    return _SHAPE.sub("(S)", util.exc_bucket(kind, exc))


def _is_store_validation(exc):
    if not isinstance(exc, (TypeError, ValueError)):
        return False
    tb = traceback.extract_tb(exc.__traceback__)
    if not tb:
        return False
    last = tb[-1]
    return last.filename.endswith("io/_store.py") and last.name == "store"


def _raw_get(arrays, scheduler):
    """Execute the output keys without assembling a result (blocks are targets)."""
    from dask.core import flatten

    if scheduler == "threads":
        from dask.threaded import get
    else:
        from dask.local import get_sync as get
    for a in arrays:
        get(dict(a.__dask_graph__()), list(flatten(a.__dask_keys__())))


def check_store(case):
    """-> (status, fails, info) with status 'ok' | 'rejected:..' | 'refused:..'."""
    import dask

    _validate_store(case)
    da = _da()
    pairs = case["pairs"]
    npairs = len(pairs)
    info = {"labels": [], "nontrivial": False}

    sources, twins = [], []
    for p in pairs:
        x, tw = build_source(p["src"])
        sources.append(x)
        twins.append(tw)
    shapes = [tw.shape for tw in twins]
    tshapes, regions, starts = layout(pairs, len(case["targets"]), shapes)
    if case["regions"] == "tuple":
        assert all(util.canon(r) == util.canon(regions[0]) for r in regions), "tuple form: one region for all pairs"

    # targets, pre-images, expected images (NumPy assignment is the reference)
    arrays, tobjs = [], []
    for t, spec in enumerate(case["targets"]):
        first = next(i for i, p in enumerate(pairs) if p["target"] == t)
        dt = twins[first].dtype if spec["dtype"] == "same" else np.dtype(DT[spec["dtype"]])
        arr = _sentinel(tshapes[t], dt)
        arrays.append(arr)
        tobjs.append(Recorder(arr) if spec["kind"] == "recorder" else arr)
    pre = [a.copy() for a in arrays]
    exp = [a.copy() for a in arrays]
    cover = [np.zeros(a.shape, dtype=np.int64) for a in arrays]
    ids = [np.arange(a.size, dtype=np.int64).reshape(a.shape) for a in arrays]
    for i, p in enumerate(pairs):
        t = p["target"]
        key = regions[i] if regions[i] is not None else Ellipsis
        assert ids[t][key].shape == shapes[i], f"region shape {ids[t][key].shape} != source shape {shapes[i]}"
        with np.errstate(all="ignore"):
            exp[t][key] = twins[i]
        cover[t][key] += 1
    assert all(int(c.max()) <= 1 for c in cover if c.size), "regions on one target are disjoint"

    for x, tw in zip(sources, twins):
        why = _precheck(x, tw)
        if why:
            return "rejected:" + why, [], info

    twins_set = _twin_pairs(pairs, twins)
    rfacets = [_facet(p, shapes[i]) for i, p in enumerate(pairs)]
    # bucket facet of a pair (kept coarse, one symptom should not fan out into a dozen buckets):
    # an identical twin pair is its own root cause whatever the region looks like; otherwise
    # plain (no region / a:b / a:b:1 / None-open) versus exotic (strided, negative, int element, rank 0)
    facets = ["twin-pairs" if i in twins_set else ("plain" if rfacets[i] == "plain" else "exotic-region") for i in range(npairs)]
    prior_lazy = bool(case.get("prior_lazy", False))
    if prior_lazy:
        # an earlier, never computed store of the same sources into other (equal-content) targets is alive
        facets = ["prior-lazy"] * npairs
    has_neg = any("neg-region" in f for f in rfacets)
    case_facet = "+".join(sorted({f for f in facets if f != "plain"})) or "plain"

    # ---- labels
    labs = info["labels"]
    labs.append("regions" if case["regions"] != "none" else "no-regions")
    if case["regions"] != "none":
        labs.append("regions:" + case["regions"])
    if npairs >= 2:
        labs.append("multi-pair")
    if not case["compute"]:
        labs.append("compute=False")
    if case["return_stored"]:
        labs.append("return_stored")
        labs.append(f"load_stored={case['load_stored']}")
    labs.append({"true": "lock=True", "false": "lock=False", "lock": "lock=Lock"}[case["lock"]])
    labs.append(case["scheduler"])
    if case["sched_via"] == "kwarg":
        labs.append("scheduler-kwarg")
    if case["call"] != "list":
        labs.append("call:" + case["call"])
    if any(0 in p["src"]["shape"] or 0 in shapes[i] for i, p in enumerate(pairs)):
        labs.append("zero-length-axis")
    if any(p["src"]["ops"] for p in pairs):
        labs.append("lazy-ops")
    if any(t["kind"] == "recorder" for t in case["targets"]):
        labs.append("recorder-target")
    if any(arrays[p["target"]].dtype != twins[i].dtype for i, p in enumerate(pairs)):
        labs.append("cast-target")
    if len(case["targets"]) < npairs:
        labs.append("shared-target")
    if twins_set:
        labs.append("twin-pairs")
    if prior_lazy:
        labs.append("prior-lazy-store")
    if any(p["region"] is None for p in pairs) and case["regions"] == "list":
        labs.append("regions:list-with-None")
    for part in sorted({part for f in rfacets for part in f.split("+")}):
        if part != "plain":
            labs.append("region:" + part if part.endswith("-region") else part)
    unaligned = False
    for i, p in enumerate(pairs):
        if starts[i] is None:
            continue
        ch = sources[i].chunks
        for a, st in enumerate(starts[i]):
            if shapes[i][a] > 0 and _unaligned(st, tuple(int(c) for c in ch[a])):
                unaligned = True
    if unaligned:
        labs.append("unaligned-region")
    if any(sources[i].numblocks and int(np.prod(sources[i].numblocks)) >= 2 for i in range(npairs)):
        labs.append("multi-block-source")
    info["nontrivial"] = unaligned or npairs >= 2 or not case["compute"]

    # ---- the call
    fails = []

    def fail(bucket, detail):
        fails.append((bucket, detail))

    def describe():
        return f"regions={regions} target_shapes={tshapes} source_shapes={shapes} source_chunks={[s.chunks for s in sources]}"

    prior_keepalive = []
    prior_arrays = []

    def check_prior(stage):
        for t, arr in enumerate(prior_arrays):
            if arr.tobytes() != pre[t].tobytes():
                fail("prior-target|written-by-later-store", f"{stage}: target {t} of an earlier store(compute=False) that was never computed has been written; {describe()}\n got={util.short(arr, 40)}")
                break

    def check_targets(stage):
        ok = True
        check_prior(stage)
        for t, arr in enumerate(arrays):
            if arr.dtype == exp[t].dtype and arr.shape == exp[t].shape and arr.tobytes() == exp[t].tobytes():
                continue
            ok = False
            with np.errstate(all="ignore"):
                diff = arr != exp[t]
            us = [i for i, p in enumerate(pairs) if p["target"] == t]
            if not diff.any():
                fail("target|bitwise-differs|" + case_facet, f"{stage}: target {t} equal by value but not bitwise; {describe()}")
                continue
            outside = diff & (cover[t] == 0)
            if outside.any():
                f = "+".join(sorted({facets[i] for i in us}))
                fail(f"target|outside-region-modified|{f}", f"{stage}: target {t}: {int(outside.sum())} positions outside every region changed; {describe()}\n got={util.short(arr, 40)}\n exp={util.short(exp[t], 40)}")
            for i in us:
                key = regions[i] if regions[i] is not None else Ellipsis
                if not diff[key].any():
                    continue
                got_r = arr[key]
                if twins[i].size and np.array_equal(got_r, pre[t][key]):
                    kind = "region-not-written"
                else:
                    kind = "region-values-wrong"
                fail(f"target|{kind}|{facets[i]}", f"{stage}: pair {i} -> target {t} region {regions[i]}: {int(diff[key].sum())}/{twins[i].size} positions differ; {describe()}\n got={util.short(got_r, 40)}\n exp={util.short(exp[t][key], 40)}")
        return ok

    def check_unchanged(stage):
        check_prior(stage)
        for t, arr in enumerate(arrays):
            if arr.tobytes() != pre[t].tobytes():
                fail("premature-write|compute=False", f"{stage}: target {t} changed before the lazy result was computed; {describe()}")

    def check_recorders():
        for t, obj in enumerate(tobjs):
            if not isinstance(obj, Recorder):
                continue
            allowed = cover[t] > 0
            for index, vshape in list(obj.writes):
                try:
                    sel = ids[t][index]
                except Exception as e:  # an index NumPy itself refuses would have raised in __setitem__
                    fail("recorder|unusable-index", f"target {t} index {index!r}: {e}")
                    continue
                if sel.size and not allowed.ravel()[np.asarray(sel).ravel()].all():
                    us = [i for i, p in enumerate(pairs) if p["target"] == t]
                    f = "+".join(sorted({facets[i] for i in us}))
                    fail(f"recorder|write-outside-region|{f}", f"target {t}: write at {index!r} (value shape {vshape}) leaves the region(s); {describe()}")
                    break

    kw = {}
    lock = {"true": True, "false": False, "lock": None}[case["lock"]]
    if lock is None:
        lock = threading.Lock()
    kw["lock"] = lock
    if case["regions"] == "tuple":
        kw["regions"] = regions[0]
    elif case["regions"] == "list":
        kw["regions"] = list(regions)
    kw["compute"] = case["compute"]
    kw["return_stored"] = case["return_stored"]
    if case["load_stored"] is not None:
        kw["load_stored"] = case["load_stored"]
    sched = case["scheduler"]
    ckw = {}
    if case["sched_via"] == "kwarg":
        ckw["scheduler"] = sched
        if case["compute"]:
            kw["scheduler"] = sched
    ambient = sched if case["sched_via"] == "config" else "sync"

    def refused_or_fail(kind, e):
        if isinstance(e, NotImplementedError) and has_neg:
            return "refused:neg-region"
        b = _exc_bucket(kind, e)
        if case_facet != "plain":
            b += "|" + case_facet
        fail(b, f"{describe()}\n{util.exc_detail(e)}")
        return "ok"

    def call_store(objs, kwargs):
        if case["call"] == "bare":
            return da.store(sources[0], objs[0], **kwargs)
        if case["call"] == "method":
            return sources[0].store(objs[0], **kwargs)
        return da.store(list(sources), [objs[p["target"]] for p in pairs], **kwargs)

    with dask.config.set(scheduler=ambient):
        if prior_lazy:
            # the same store, lazily, into other targets of equal content; kept alive, never computed
            p_arrays = [a.copy() for a in arrays]
            p_objs = [Recorder(a) if isinstance(o, Recorder) else a for a, o in zip(p_arrays, tobjs)]
            pkw = dict(kw)
            pkw["compute"] = False
            pkw.pop("scheduler", None)
            try:
                prior_keepalive.append(call_store(p_objs, pkw))
                prior_arrays.extend(p_arrays)
            except Exception:
                pass  # whatever is wrong with this call form shows in the call proper
        try:
            ret = call_store(tobjs, kw)
        except Exception as e:
            if _is_store_validation(e):
                return "rejected:store-validation:" + util.norm_msg(e, 60), [], info
            status = refused_or_fail("store-call", e)
            return status, fails, info

        rs = case["return_stored"]
        ls = case["load_stored"]
        returned = None
        if rs or not case["compute"]:
            returned = list(ret) if isinstance(ret, (tuple, list)) else [ret]
            if rs and (len(returned) != npairs or not all(isinstance(a, da.Array) for a in returned)):
                fail("returned|not-one-array-per-pair", f"store returned {type(ret).__name__} of {len(returned)} for {npairs} pairs")
                return "ok", fails, info

        def expected_value(i):
            with np.errstate(all="ignore"):
                return twins[i].astype(arrays[pairs[i]["target"]].dtype)

        # compute=True with an explicit load_stored=True: the persisted blocks are already the
        # loaded chunks and load_chunk indexes them again with the global block index; wrong
        # shape, wrong values or an IndexError are symptoms of that one cause -> one bucket.
        reload_combo = bool(case["compute"] and rs and ls is True)

        def compare_returned(values, how):
            for i, v in enumerate(values):
                why = util.same(v, expected_value(i), check_dtype=False)
                if why is not None:
                    if reload_combo:
                        b = "returned|compute=True,load_stored=True"
                    else:
                        b = f"returned|{why.split(' ')[0]}|compute={case['compute']}|{facets[i]}"
                    fail(b, f"{how}: returned array {i} ({returned[i]!r}) {why}; {describe()}\n got={util.short(v, 40)}\n exp={util.short(expected_value(i), 40)}")

        def compute_arrays(arrs):
            if case["compute_form"] == "method":
                return [a.compute(**ckw) for a in arrs]
            return list(dask.compute(list(arrs), **ckw)[0])

        try:
            if case["compute"]:
                written = check_targets("after store(compute=True)")
                if rs:
                    try:
                        values = compute_arrays(returned)
                    except Exception as e:
                        if not reload_combo:
                            raise
                        values = None
                        fail("returned|compute=True,load_stored=True", f"computing the returned arrays raises; {describe()}\n{util.exc_detail(e)}")
                    if values is not None:
                        compare_returned(values, "compute=True")
                    if written:
                        check_targets("after computing the returned arrays")
            else:
                check_unchanged("after store(compute=False)")
                if rs and ls is False:
                    _raw_get(returned, sched)
                else:
                    values = compute_arrays(returned)
                    if rs:
                        compare_returned(values, "compute=False")
                check_targets("after computing the lazy store")
            check_recorders()
        except Exception as e:
            status = refused_or_fail("store-compute", e)
            return status, fails, info
    return "ok", fails, info


# ---------------------------------------------------------------------------
# npy-stack cases


def _scratch():
    """Fresh per-case scratch directory (removed by the caller).  tmpfs when there is
    one: directory removal on the root file system costs ~60 ms a case."""
    shm = "/dev/shm"
    if os.path.isdir(shm) and os.access(shm, os.W_OK | os.X_OK):
        try:
            return tempfile.mkdtemp(prefix="vf-c25-", dir=shm)
        except OSError:
            pass
    return tempfile.mkdtemp(prefix="vf-c25-")


def _validate_npy(case):
    _validate_source(case["src"])
    assert isinstance(case["axis"], int) and not isinstance(case["axis"], bool) and -3 <= case["axis"] <= 2
    assert case["mmap"] in (None, "r", "default")
    assert case["scheduler"] in ("sync", "threads")
    assert isinstance(case["mkdir"], bool)


def check_npy(case):
    import dask

    _validate_npy(case)
    da = _da()
    info = {"labels": ["npy-stack"], "nontrivial": False}
    x, tw = build_source(case["src"])
    rank = tw.ndim
    axis = case["axis"]
    assert rank >= 1 and -rank <= axis < rank, "axis in range"
    why = _precheck(x, tw)
    if why:
        return "rejected:" + why, [], info
    xch = tuple(tuple(int(c) for c in ch) for ch in x.chunks)
    labs = info["labels"]
    labs.append("npy:axis=%d" % axis if axis >= 0 else "npy:neg-axis")
    labs.append(case["scheduler"])
    if 0 in tw.shape or 0 in case["src"]["shape"]:
        labs.append("zero-length-axis")
        labs.append("npy:zero-length-axis")
    if case["src"]["ops"]:
        labs.append("lazy-ops")
    nblk = len(xch[axis])
    if nblk >= 2:
        labs.append("npy:multi-block-axis")
    if any(len(c) >= 2 for a, c in enumerate(xch) if a != axis % rank):
        labs.append("npy:other-axes-chunked")
    labs.append("npy:mmap=%s" % case["mmap"])
    info["nontrivial"] = nblk >= 2

    fails = []
    facet = "neg-axis" if axis < 0 else "axis>=0"
    scratch = _scratch()
    try:
        dirname = os.path.join(scratch, "stack")
        if case["mkdir"]:
            os.mkdir(dirname)
        with dask.config.set(scheduler=case["scheduler"]):
            try:
                da.to_npy_stack(dirname, x, axis=axis)
            except Exception as e:
                fails.append((_exc_bucket("to_npy_stack", e) + "|" + facet, f"chunks={xch} axis={axis}\n{util.exc_detail(e)}"))
                return "ok", fails, info
            # what is on disk: one file per block along axis, holding exactly that block
            if axis >= 0:
                want_files = {"info"} | {f"{i}.npy" for i in range(nblk)}
                have = set(os.listdir(dirname))
                if have != want_files:
                    fails.append(("npy|files-differ", f"chunks={xch} axis={axis}: files {sorted(have)} != {sorted(want_files)}"))
                else:
                    bounds = np.cumsum((0,) + xch[axis])
                    for i in range(nblk):
                        idx = [slice(None)] * rank
                        idx[axis] = slice(int(bounds[i]), int(bounds[i + 1]))
                        blk = np.load(os.path.join(dirname, f"{i}.npy"))
                        w = util.same(blk, tw[tuple(idx)])
                        if w is not None:
                            fails.append((f"npy|file-content|{w.split(' ')[0]}", f"chunks={xch} axis={axis}: file {i}.npy {w}\n got={util.short(blk, 40)}\n exp={util.short(tw[tuple(idx)], 40)}"))
                            break
            try:
                if case["mmap"] == "default":
                    y = da.from_npy_stack(dirname)
                else:
                    y = da.from_npy_stack(dirname, mmap_mode=case["mmap"])
                ych = tuple(tuple(int(c) for c in ch) for ch in y.chunks)
                yshape, ydtype = tuple(y.shape), y.dtype
                got = np.array(y.compute())
            except Exception as e:
                fails.append((_exc_bucket("from_npy_stack", e) + "|" + facet, f"chunks={xch} axis={axis} mmap={case['mmap']}\n{util.exc_detail(e)}"))
                return "ok", fails, info
        w = util.same(got, tw)
        if w is not None:
            fails.append((f"npy|read-back|{w.split(' ')[0]}|{facet}", f"chunks={xch} axis={axis}: {w}\n got={util.short(got, 40)}\n exp={util.short(tw, 40)}"))
        if yshape != tw.shape or ydtype != tw.dtype:
            fails.append((f"npy|declared-shape-dtype|{facet}", f"declared {yshape} {ydtype}, array is {tw.shape} {tw.dtype}"))
        if axis >= 0:
            want = tuple(c if a == axis else (sum(c),) for a, c in enumerate(xch))
            if ych != want:
                fails.append(("npy|chunks-not-preserved", f"chunks={xch} axis={axis}: read-back chunks {ych} != {want}"))
    finally:
        shutil.rmtree(scratch, ignore_errors=True)
    return "ok", fails, info


# ---------------------------------------------------------------------------
# engine protocol


def check_case(case):
    assert isinstance(case, dict)
    # Cases must not depend on what ran before them in this process: dask_array interns
    # expressions by name (weak values), and garbage of an earlier case that is still waiting for
    # the cycle collector can be handed out again (see the 'prior_lazy' scenario, which makes that
    # situation explicit and reproducible).
    gc.collect()
    kind = case.get("kind")
    if kind == "store":
        return check_store(case)
    if kind == "npy":
        return check_npy(case)
    raise AssertionError(f"unknown kind {kind!r}")


def replay(case):
    _, fails, _ = check_case(case)
    return fails


def _compact_targets(case):
    """Drop unused targets and renumber."""
    used = sorted({p["target"] for p in case["pairs"]})
    remap = {t: k for k, t in enumerate(used)}
    case["targets"] = [case["targets"][t] for t in used]
    for p in case["pairs"]:
        p["target"] = remap[p["target"]]
    return case


def shrink(case):
    def cp():
        return copy.deepcopy(case)

    def src_candidates(get):
        s = get(case)
        for k in range(len(s["ops"])):
            c = cp()
            del get(c)["ops"][k]
            yield c
        if s["chunks"]:
            c = cp()
            get(c)["chunks"] = []
            yield c
        if s["dtype"] != "i8":
            c = cp()
            get(c)["dtype"] = "i8"
            yield c
        if s["base"]:
            c = cp()
            get(c)["base"] = 0
            yield c
        for a, n in enumerate(s["shape"]):
            for v in sorted({0, 1, n // 2, n - 1}):
                if 0 <= v < n:
                    c = cp()
                    get(c)["shape"][a] = v
                    yield c

    if case.get("kind") == "npy":
        yield from src_candidates(lambda c: c["src"])
        for k, v in (("scheduler", "sync"), ("mmap", "default"), ("mkdir", False), ("axis", 0)):
            if case[k] != v:
                c = cp()
                c[k] = v
                yield c
    elif case.get("kind") == "store":
        n = len(case["pairs"])
        if n > 1:
            for i in range(n):
                c = cp()
                del c["pairs"][i]
                yield _compact_targets(c)
        for k, v in (
            ("scheduler", "sync"),
            ("sched_via", "config"),
            ("lock", "false"),
            ("compute_form", "dask.compute"),
            ("load_stored", None),
            ("return_stored", False),
            ("compute", True),
            ("call", "list"),
            ("prior_lazy", False),
        ):
            if case.get(k, False if k == "prior_lazy" else None) != v:
                c = cp()
                c[k] = v
                yield c
        if case["regions"] != "none":
            c = cp()
            c["regions"] = "none"
            for p in c["pairs"]:
                p["region"] = None
            yield c
        if case["regions"] == "tuple":
            c = cp()
            c["regions"] = "list"
            yield c
        for t, spec in enumerate(case["targets"]):
            if spec["kind"] != "numpy":
                c = cp()
                c["targets"][t]["kind"] = "numpy"
                yield c
            if spec["dtype"] != "same":
                c = cp()
                c["targets"][t]["dtype"] = "same"
                yield c
        for i, p in enumerate(case["pairs"]):
            yield from src_candidates(lambda c, i=i: c["pairs"][i]["src"])
            r = p["region"]
            if r is not None:
                if r.get("int_at") is not None:
                    c = cp()
                    c["pairs"][i]["region"]["int_at"] = None
                    yield c
                for key, zero in (("form", []), ("pad", []), ("off", [])):
                    if r[key]:
                        c = cp()
                        if case["regions"] == "tuple":
                            for q in c["pairs"]:
                                q["region"][key] = zero
                        else:
                            c["pairs"][i]["region"][key] = zero
                        yield c
                for a, f in enumerate(r["form"]):
                    if f != "unit":
                        c = cp()
                        if case["regions"] == "tuple":
                            for q in c["pairs"]:
                                q["region"]["form"][a] = "unit"
                        else:
                            c["pairs"][i]["region"]["form"][a] = "unit"
                        yield c
    yield from _generic_shrink(case)


# ---------------------------------------------------------------------------
# generators


def _axis_len(d):
    # Hypothesis favours the ends of an integer range: keep the degenerate lengths in the middle
    return d.weighted([(3, 3), (2, 3), (5, 3), (0, 2), (7, 2), (1, 3), (6, 2), (8, 3), (4, 3)])


def gen_source(d, base, shape=None, preserve_shape=False, keep_rank=False):
    if shape is None:
        rank = d.weighted([(1, 3), (2, 4), (3, 3)])
        shape = [_axis_len(d) for _ in range(rank)]
    shape = list(shape)
    dtype = d.weighted([("f8", 3), ("i8", 3), ("i4", 2), ("bool", 1)])
    chunks = [list(c) for c in C.array_chunks(d, shape)]
    cur = list(shape)
    ops = []
    for _ in range(d.weighted([(0, 3), (1, 4), (2, 3)])):
        names = [("add1", 2), ("mul2", 1), ("rechunk", 3)]
        if cur:
            names.append(("rev", 2))
            if not preserve_shape:
                names.append(("slice", 2))
                if not keep_rank:
                    names.append(("sum", 2))
        if not preserve_shape:
            names.append(("T", 2))
        name = d.weighted(names)
        if name in ("add1", "mul2"):
            ops.append([name])
        elif name == "T":
            ops.append(["T"])
            cur = cur[::-1]
        elif name == "rechunk":
            ops.append(["rechunk", [list(c) for c in C.array_chunks(d, cur)]])
        elif name == "rev":
            ops.append(["rev", d.int(0, len(cur) - 1)])
        elif name == "sum":
            ax = d.int(0, len(cur) - 1)
            ops.append(["sum", ax])
            del cur[ax]
        elif name == "slice":
            ax = d.int(0, len(cur) - 1)
            n = cur[ax]
            a = d.int(0, n)
            b = d.int(a, n)
            if b == a and n > 0 and d.chance(3, 4):  # keep empty slices rare
                a, b = 0, max(1, n - 1)
            ops.append(["slice", ax, a, b])
            cur[ax] = b - a
    return {"shape": shape, "dtype": dtype, "base": base, "chunks": chunks, "ops": ops}, cur


def gen_region(d, shape, allow_int=True):
    rank = len(shape)
    off = [d.weighted([(0, 3), (1, 3), (2, 2), (3, 2), (5, 1)]) for _ in range(rank)]
    pad = [d.int(0, 3) for _ in range(rank)]
    style = d.weighted([("plain", 16), ("strided", 3), ("neg", 1)])
    form = [d.weighted([("unit", 6), ("unit1", 1), ("open", 2)]) for _ in range(rank)]
    if rank and style == "strided":
        for a in d.subset(range(rank), min_size=1):
            form[a] = d.choice(["stride2", "stride3"])
        if d.chance(1, 2):
            # interleaving: a strided region anchored at the origin on every axis (slice(0, None, 2))
            off = [0] * rank
            if not any(pad):
                pad[d.int(0, rank - 1)] = d.int(1, 3)
    if rank and style == "neg":
        for a in d.subset(range(rank), min_size=1):
            form[a] = "neg"
    if rank and not any(off) and not any(pad):
        off[d.int(0, rank - 1)] = d.int(1, 3)
    int_at = None
    if allow_int and (rank == 0 and d.chance(2, 3) or rank > 0 and d.chance(1, 12)):
        N = d.int(1, 4)
        int_at = [d.int(0, rank), N, d.int(0, N - 1)]
    return {"off": off, "pad": pad, "form": form, "int_at": int_at}


def gen_store_case(d):
    npairs = d.weighted([(1, 5), (2, 4), (3, 2)])
    form = d.weighted([("none", 3), ("tuple", 3), ("list", 5)])
    pairs, targets, finals = [], [], []

    def new_target(src):
        kind = d.weighted([("numpy", 3), ("recorder", 1)])
        dt = d.weighted([("same", 5), ("f8", 1), ("i8", 1 if src["dtype"] in ("bool", "i4", "i8") else 0)])
        targets.append({"kind": kind, "dtype": dt})
        return len(targets) - 1

    for j in range(npairs):
        base = 100 * (j + 1)
        # an exact twin of an earlier pair writing to its own target
        if j >= 1 and d.int(0, 15) == 7:
            i = d.int(0, j - 1)
            src = copy.deepcopy(pairs[i]["src"])
            region = copy.deepcopy(pairs[i]["region"])
            targets.append(dict(targets[pairs[i]["target"]]))
            pairs.append({"src": src, "target": len(targets) - 1, "region": region})
            finals.append(list(finals[i]))
            continue
        if form == "tuple" and j >= 1:
            src, cur = gen_source(d, base, shape=finals[0], preserve_shape=True)
            pairs.append({"src": src, "target": new_target(src), "region": copy.deepcopy(pairs[0]["region"])})
            finals.append(cur)
            continue
        share_with = None
        if form == "list" and j >= 1 and d.chance(1, 3):
            cands = [i for i in range(j) if pairs[i]["region"] is not None and pairs[i]["region"]["int_at"] is None and len(finals[i]) >= 1]
            if cands:
                share_with = d.choice(cands)
        if share_with is not None:
            rank = len(finals[share_with])
            src, cur = gen_source(d, base, shape=[_axis_len(d) for _ in range(rank)], keep_rank=True)
            pairs.append({"src": src, "target": pairs[share_with]["target"], "region": gen_region(d, cur, allow_int=False)})
            finals.append(cur)
            continue
        src, cur = gen_source(d, base)
        if form == "none" or (form == "list" and d.chance(1, 5)):
            region = None
        else:
            region = gen_region(d, cur)
        pairs.append({"src": src, "target": new_target(src), "region": region})
        finals.append(cur)

    compute = d.chance(3, 5)
    return_stored = d.chance(2, 5)
    load_stored = d.weighted([(None, 4), (True, 2), (False, 2)]) if return_stored else (None if d.chance(9, 10) else d.bool())
    call = "list"
    if npairs == 1:
        call = d.weighted([("list", 2), ("bare", 3), ("method", 1)])
    return {
        "kind": "store",
        "pairs": pairs,
        "targets": targets,
        "regions": form,
        "lock": d.weighted([("true", 3), ("false", 3), ("lock", 2)]),
        "compute": compute,
        "return_stored": return_stored,
        "load_stored": load_stored,
        "scheduler": d.weighted([("sync", 3), ("threads", 2)]),
        "sched_via": d.weighted([("config", 3), ("kwarg", 1)]),
        "call": call,
        "compute_form": d.weighted([("dask.compute", 3), ("method", 1)]),
        "prior_lazy": d.int(0, 15) == 9,
    }


def gen_npy_case(d):
    while True:
        src, cur = gen_source(d, 0)
        if len(cur) >= 1:
            break
    rank = len(cur)
    axis = d.int(0, rank - 1)
    if d.int(0, 11) == 5:
        axis -= rank
    return {
        "kind": "npy",
        "src": src,
        "axis": axis,
        "mmap": d.weighted([("default", 2), ("r", 1), (None, 2)]),
        "scheduler": d.weighted([("sync", 3), ("threads", 2)]),
        "mkdir": d.bool(),
    }


def run_shard(spec, seed):
    import hypothesis
    from hypothesis import HealthCheck, Phase, given, settings
    from hypothesis import strategies as st

    col = Collector()
    npy_share = spec.get("npy_in_8", 2)
    _da()
    gc.collect()
    gc.freeze()  # check_case collects before every case; keep that to the objects of the last case

    @st.composite
    def case_st(draw):
        d = D(draw)
        if d.chance(npy_share, 8):
            return gen_npy_case(d)
        return gen_store_case(d)

    @hypothesis.seed(seed)
    @settings(max_examples=spec["cases"], database=None, deadline=None, derandomize=False, phases=[Phase.generate], suppress_health_check=list(HealthCheck))
    @given(case_st())
    def body(case):
        status, fails, info = check_case(case)
        if status.startswith("rejected"):
            col.reject(status[:120])
            return
        labs = list(info["labels"])
        if status.startswith("refused"):
            labs.append(status)
        col.case(case, info["nontrivial"], labs)
        for b, dd in fails:
            col.fail(b, case, dd)

    body()
    col.exhaustive = False
    return col.result()


def plan(tier):
    scale = float(os.environ.get("VERIF_SCALE", "1"))
    # ~45 ms a case (several computes + Hypothesis draw) on an idle core
    total, shards = (4800, 16) if tier == "quick" else (60000, 48)
    per = max(5, int(total * scale / shards))
    return [{"cases": per, "npy_in_8": 2} for _ in range(shards)]


_REQ = [
    "regions",
    "no-regions",
    "regions:tuple",
    "regions:list",
    "multi-pair",
    "shared-target",
    "compute=False",
    "return_stored",
    "load_stored=True",
    "load_stored=False",
    "lock=Lock",
    "lock=True",
    "threads",
    "npy-stack",
    "npy:multi-block-axis",
    "zero-length-axis",
    "unaligned-region",
    "recorder-target",
    "region:strided-region",
    "region:int-region",
    "lazy-ops",
    "twin-pairs",
    "prior-lazy-store",
    "cast-target",
]
REQUIRED_CLASSES = {"quick": list(_REQ), "thorough": list(_REQ)}
