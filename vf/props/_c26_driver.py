"""C26 subprocess driver: executed in a FRESH interpreter, one JSON job on stdin.

    python -P _c26_driver.py  < job.json        (PYTHONPATH = repo under test)

It must not import numpy / dask / xarray / dask_array before the job's own
import order runs: only the stdlib modules below (every interpreter has them
loaded already or they are side-effect free).

Job kinds
---------
``{"job": "order", "order": [...], "register_at": int|null, "observe":
"active"|"passive", "program": {...}|null}``
    Import the modules of ``order`` one at a time (exceptions swallowed like a
    user's ``try: import``), call ``dask_array.xarray.register()`` before the
    import with index ``register_at`` (``len(order)`` = after all), observe the
    chunk-manager state after every step, then run the final checks and the
    optional xarray value program.  Emits one record per step.

``{"job": "entrypoints"}``
    List the ``xarray.chunkmanagers`` entry points and the dask-array
    distributions visible to this interpreter.

``{"job": "eager"}``
    ``import dask_array`` and list the dask_array modules that loaded.

How the state is observed (see also the engine docstring)
---------------------------------------------------------
``xarray.namedarray.parallelcompat.list_chunkmanagers`` is an
``lru_cache(maxsize=1)`` function: its first call builds a dict from the
"xarray.chunkmanagers" entry points and every later call returns *that same
dict object*.  ``dask_array._xarray._ensure_registered`` registers by mutating
this cached dict in place.  So

* reading the dict (what we do) neither changes nor misses a registration;
* we look the function up on the module at every observation (a rebinding of
  ``parallelcompat.list_chunkmanagers`` would be seen) and never keep the dict;
* we never call ``cache_clear()``: that would *erase* a registration (the
  repo's test_xarray_chunkmanager_cache_clear_keeps_objects_usable shows the
  slot reverts) and hide a violation;
* the only way our observation can influence the process is by being the FIRST
  caller, i.e. by populating the cache (which also imports dask.array through
  xarray's DaskManager) earlier than an un-instrumented program would.  Policy
  "active" accepts that (observe after every import once xarray is loaded);
  policy "passive" asks ``cache_info().currsize`` first (which does not touch
  the cache) and reads the dict at a step only when somebody else has already
  populated it -- the cache stays cold during the imports exactly as in
  ``import xarray; import dask_array.foo`` at the top of a script -- and reads
  unconditionally only once the whole order has run.

``dask_array.xarray.isactive()`` is asked at a step only through an already
loaded ``sys.modules["dask_array.xarray"]`` (never imported by the observer
while the order runs) and only when the manager dict is read at that step
(isactive itself calls list_chunkmanagers).  After the order the driver does an
explicit, recorded ``import dask_array.xarray`` step -- it is an import the
property covers -- observes again, and asks isactive().

Importing ``dask_array.a.b`` makes Python import ``dask_array`` and
``dask_array.a`` first (each parent's ``__init__`` runs to completion before
the child is looked up).  The driver performs those parent imports as separate
recorded steps (``implicit: true``) in the same sequence, so that a change made
by the package ``__init__`` chain is attributed to the package and not to
whichever submodule happened to be imported first.
"""

import importlib
import json
import sys
import traceback

MARK = "@@C26-RESULT@@"
XR_PC = "xarray.namedarray.parallelcompat"


def qn(obj):
    t = type(obj)
    return f"{t.__module__}.{t.__qualname__}"


def err(e, tb=False):
    d = {"type": type(e).__name__, "msg": str(e)[:300]}
    if tb:
        d["tb"] = "".join(traceback.format_exception(type(e), e, e.__traceback__))[-1800:]
    return d


def cache_state():
    pc = sys.modules.get(XR_PC)
    if pc is None:
        return "absent"
    info = getattr(getattr(pc, "list_chunkmanagers", None), "cache_info", None)
    if info is None:
        return "nocache"
    try:
        return "warm" if info().currsize else "cold"
    except Exception:
        return "nocache"


def observe(rec, policy, force=False):
    """Add the chunk-manager observation to ``rec`` (see module docstring)."""
    xl = "xarray" in sys.modules
    rec["xarray_loaded"] = xl
    rec["da_xarray_loaded"] = "dask_array._xarray" in sys.modules
    cs = cache_state()
    rec["cache"] = cs
    dx = sys.modules.get("dask_array.xarray")
    if not xl:
        # nothing to read on the xarray side.  isactive() must be a passive
        # False here; ask only under the active policy.
        if policy == "active" and dx is not None and hasattr(dx, "isactive"):
            try:
                rec["isactive"] = bool(dx.isactive())
            except BaseException as e:
                rec["isactive_error"] = err(e)
            rec["isactive_loaded_xarray"] = "xarray" in sys.modules
        return
    if policy == "passive" and not force and cs in ("cold", "absent"):
        rec["observed"] = False
        return
    try:
        pc = sys.modules.get(XR_PC) or importlib.import_module(XR_PC)
        managers = pc.list_chunkmanagers()
        rec["managers"] = {str(k): qn(v) for k, v in managers.items()}
        try:
            rec["guess"] = qn(pc.guess_chunkmanager(None))
        except BaseException as e:
            rec["guess"] = "!" + type(e).__name__ + ": " + str(e)[:200]
    except BaseException as e:
        rec["observe_error"] = err(e, tb=True)
        return
    if dx is not None and hasattr(dx, "isactive"):
        try:
            rec["isactive"] = bool(dx.isactive())
        except BaseException as e:
            rec["isactive_error"] = err(e)


def n_da_modules():
    return sum(1 for m in list(sys.modules) if m == "dask_array" or m.startswith("dask_array."))


def do_import(steps, name, policy, force=False, **extra):
    rec = {"kind": "import", "module": name}
    rec.update(extra)
    had_x = "xarray" in sys.modules
    n0 = n_da_modules()
    rec["already_loaded"] = name in sys.modules
    try:
        importlib.import_module(name)
    except KeyboardInterrupt:
        raise
    except BaseException as e:  # swallowed like a user's try/except around an import
        rec["error"] = err(e)
    rec["new_da_modules"] = n_da_modules() - n0
    rec["loaded_xarray"] = (not had_x) and "xarray" in sys.modules
    observe(rec, policy, force=force)
    steps.append(rec)
    return rec


def import_with_parents(steps, name, policy, force=False, **extra):
    parts = name.split(".")
    for i in range(1, len(parts)):
        parent = ".".join(parts[:i])
        if parent not in sys.modules:
            do_import(steps, parent, policy, force=force, implicit=True, parent_of=name, **extra)
    return do_import(steps, name, policy, force=force, **extra)


def do_register(steps, policy):
    import_with_parents(steps, "dask_array.xarray", policy, for_register=True)
    rec = {"kind": "register"}
    dx = sys.modules.get("dask_array.xarray")
    if dx is None or not hasattr(dx, "register"):
        rec["error"] = {"type": "Unavailable", "msg": "dask_array.xarray.register not importable"}
    else:
        try:
            dx.register()
        except KeyboardInterrupt:
            raise
        except BaseException as e:
            rec["error"] = err(e, tb=True)
    # register() itself went through list_chunkmanagers(): the cache is warm, reading it is free
    observe(rec, policy, force=True)
    steps.append(rec)


# ---------------------------------------------------------------------------
# value programs


def make_values(np, spec, size):
    v = (np.arange(size, dtype="int64") * int(spec["mult"]) + 3) % int(spec["mod"]) - int(spec["mod"]) // 2
    dt = spec["dtype"]
    if dt in ("f8", "f4"):
        v = (v / 4.0).astype(dt)
        k = int(spec.get("nan_every") or 0)
        if k > 0:
            v[::k] = np.nan
    else:
        v = v.astype(dt)
    return v


def build_base(np, xr, prog):
    dims = list(prog["dims"])
    shape = [int(s) for s in prog["shape"]]
    size = 1
    for s in shape:
        size *= s
    a = xr.DataArray(make_values(np, prog["a"], size).reshape(shape), dims=dims, name="a")
    if prog["kind"] == "da":
        return a
    bdims = list(prog["b_dims"])
    bshape = [shape[dims.index(d)] for d in bdims]
    bsize = 1
    for s in bshape:
        bsize *= s
    b = xr.DataArray(make_values(np, prog["b"], bsize).reshape(bshape), dims=bdims, name="b")
    return xr.Dataset({"a": a, "b": b})


def dec_idx(i):
    if isinstance(i, dict):
        if "slice" in i:
            return slice(*i["slice"])
        if "list" in i:
            return list(i["list"])
        raise ValueError(i)
    return int(i)


def apply_op(o, op, chunked):
    k = op["op"]
    if k == "scalar":
        fn, v = op["fn"], op.get("v")
        if fn == "add":
            return o + v
        if fn == "sub":
            return o - v
        if fn == "rsub":
            return v - o
        if fn == "mul":
            return o * v
        if fn == "div":
            return o / v
        if fn == "pow2":
            return o**2
        if fn == "neg":
            return -o
        if fn == "abs":
            return abs(o)
        raise ValueError(fn)
    if k == "anom":
        return o - o.mean(op["dim"])
    if k == "reduce":
        return getattr(o, op["fn"])(dim=list(op["dims"]))
    if k == "isel":
        return o.isel({op["dim"]: dec_idx(op["idx"])})
    if k == "transpose":
        return o.transpose(*op["dims"])
    if k == "rolling_mean":
        return o.rolling({op["dim"]: int(op["window"])}, center=bool(op["center"]), min_periods=op.get("min_periods")).mean()
    if k == "chunk":
        return o.chunk(dict(op["chunks"])) if chunked else o
    if k == "compute":
        return o.compute() if chunked else o
    if k == "where":
        return o.where(o > op["thr"])
    if k == "cumsum":
        return o.cumsum(op["dim"])
    if k == "shift":
        return o.shift({op["dim"]: int(op["n"])})
    if k == "diff":
        return o.diff(op["dim"])
    if k == "coarsen_mean":
        return o.coarsen({op["dim"]: int(op["window"])}, boundary="trim").mean()
    if k == "clip":
        return o.clip(op["lo"], op["hi"])
    if k == "bcast":
        other = o.isel({op["dim"]: 0})
        fn = op["fn"]
        return o + other if fn == "add" else (o - other if fn == "sub" else o * other)
    if k == "assign_prod":
        return o.assign(c=o["a"] * o["b"])
    raise ValueError(k)


def variables_of(o):
    if hasattr(o, "data_vars"):
        return {str(k): o[k] for k in o.data_vars}
    return {"": o}


def ser(np, o):
    out = {}
    for name, v in variables_of(o).items():
        vals = np.asarray(v.values)
        out[name] = {
            "dims": [str(d) for d in v.dims],
            "dtype": str(vals.dtype),
            "shape": list(vals.shape),
            "values": vals.ravel().tolist(),
        }
    return out


def backing(o):
    return {name: qn(v.data) for name, v in variables_of(o).items()}


def run_program(prog):
    import dask
    import numpy as np
    import xarray as xr

    res = {}
    with dask.config.set(scheduler="sync"):
        base = build_base(np, xr, prog)
        res["np_backing"] = backing(base)
        try:
            chunked = base.chunk(dict(prog["chunks"]))
        except Exception as e:
            res["chunked_error"] = {"at": -1, "phase": "chunk", **err(e, tb=True)}
            return res
        res["chunked_backing"] = backing(chunked)
        ops = prog["ops"]
        np_objs = [base]
        for i, op in enumerate(ops):
            try:
                np_objs.append(apply_op(np_objs[-1], op, False))
            except Exception as e:
                res["np_error"] = {"at": i, **err(e)}
                return res
        try:
            res["np"] = [ser(np, o) for o in np_objs]
        except Exception as e:
            res["np_error"] = {"at": len(ops), **err(e)}
            return res
        ch_objs = [chunked]
        for i, op in enumerate(ops):
            try:
                ch_objs.append(apply_op(ch_objs[-1], op, True))
            except Exception as e:
                res["chunked_error"] = {"at": i, "phase": "build", **err(e, tb=True)}
                break
        res["result_backing"] = [backing(o) for o in ch_objs]
        # the whole lazy chain first (what a user computes), prefixes afterwards (attribution only)
        out = [None] * len(ch_objs)
        errs = {}
        for j in [len(ch_objs) - 1] + list(range(len(ch_objs) - 1)):
            try:
                out[j] = ser(np, ch_objs[j].compute())
            except Exception as e:
                errs[str(j)] = err(e, tb=True)
        res["chunked"] = out
        res["compute_errors"] = errs
    return res


# ---------------------------------------------------------------------------


def job_order(job):
    order = list(job["order"])
    reg = job.get("register_at")
    policy = job.get("observe") or "active"
    steps = []
    for i, mod in enumerate(order):
        if reg is not None and reg == i:
            do_register(steps, policy)
        import_with_parents(steps, mod, policy, index=i)
    if reg is not None and reg == len(order):
        do_register(steps, policy)
    # ---- after the whole order: unconditional reads
    rec = {"kind": "final"}
    observe(rec, policy, force=True)
    steps.append(rec)
    import_with_parents(steps, "dask_array.xarray", policy, force=True, final=True)
    # behavioural probe: which array type does xarray's .chunk() produce now?
    rec = {"kind": "probe"}
    try:
        import numpy as np
        import xarray as xr

        obj = xr.DataArray(np.arange(4.0), dims="x").chunk({"x": 2})
        rec["chunk_type"] = qn(obj.data)
    except BaseException as e:
        rec["error"] = err(e, tb=True)
    observe(rec, policy, force=True)
    steps.append(rec)
    out = {"steps": steps}
    da = sys.modules.get("dask_array")
    out["dask_array_file"] = getattr(da, "__file__", None)
    if job.get("program") is not None:
        out["program"] = run_program(job["program"])
        rec = {"kind": "after-program"}
        observe(rec, policy, force=True)
        steps.append(rec)
    return out


def job_entrypoints(job):
    from importlib import metadata

    def norm(n):
        return (n or "").lower().replace("_", "-").replace(".", "-")

    eps = []
    for ep in metadata.entry_points(group="xarray.chunkmanagers"):
        eps.append({"name": ep.name, "value": ep.value, "dist": norm(ep.dist.name) if ep.dist is not None else None})
    dists = []
    for d in metadata.distributions():
        if norm(d.metadata["Name"]) != "dask-array":
            continue
        files = [str(f) for f in (d.files or [])]
        dists.append(
            {
                "version": d.version,
                "location": str(getattr(d, "_path", "")),
                "entry_points": [{"group": e.group, "name": e.name, "value": e.value} for e in d.entry_points],
                "has_entry_points_txt": any(f.endswith("entry_points.txt") for f in files),
                "direct_url": d.read_text("direct_url.json"),
                "pth": [f for f in files if f.endswith(".pth")],
            }
        )
    import dask_array

    return {"entry_points": eps, "dists": dists, "dask_array_file": dask_array.__file__}


def job_eager(job):
    import dask_array

    return {
        "loaded": sorted(m for m in sys.modules if m == "dask_array" or m.startswith("dask_array.")),
        "dask_array_file": dask_array.__file__,
        "xarray_loaded": "xarray" in sys.modules,
    }


def main():
    job = json.loads(sys.stdin.read())
    kind = job.get("job", "order")
    try:
        if kind == "order":
            out = job_order(job)
        elif kind == "entrypoints":
            out = job_entrypoints(job)
        elif kind == "eager":
            out = job_eager(job)
        else:
            raise ValueError(kind)
    except BaseException as e:  # driver bug / environment problem: the parent raises a harness error
        out = {"driver_error": err(e, tb=True)}
    sys.stdout.write("\n" + MARK + json.dumps(out) + "\n")
    sys.stdout.flush()


if __name__ == "__main__":
    main()
