"""C02 — every optimisation phase and every fired rewrite preserves values."""

from __future__ import annotations

import itertools

import dask
import numpy as np

from vf import executor as E
from vf import progrun, rewrites, util
from vf.gen import programs as P

PROPERTY = "C02"
RULE = (
    "Program generator of C01 re-weighted toward rewrite-dense shapes (indexing/rechunk/shape/stack/reduction/window "
    "over elemwise and sources, shared variables). For each output: (a) raw, simplify(), lower_completely() and fuse() "
    "forms are each computed with optimisation OFF and compared with the raw form (shape, dtype, values); (b) every "
    "rewrite that fired during simplify/lower is recorded as (rule, before expr, after expr) by wrapping the "
    "_simplify_down/_simplify_up/_lower hooks, and both sides are computed with optimisation off and compared, plus "
    "shape and dtype metadata; (c) for every FusedBlockwise node and every output block the set of external keys the "
    "fused task reads is compared with the set reached from the same block of the un-fused group's own layers, and the "
    "block values are compared. Non-trivial: >= 1 rewrite fired with differing names and some leaf has > 1 block; "
    "distinct = distinct program JSON."
)
ASSUMPTIONS = [
    "'the array an expression denotes' = what it computes with array.optimize-graph=False (lowering only)",
    "float comparison tolerance as in C01 (reduction trees may be re-associated by a rewrite)",
    "a side that cannot be computed un-optimised is skipped and counted (not a verdict)",
]

from vf import exclusions as _ex

EXCLUDE = _ex.RAISES
MAX_PAIRS = 14

WEIGHTS = {"elemwise": 6, "elemwise2": 6, "shape": 12, "stack": 7, "index": 16, "rechunk": 10, "reduction": 9, "scan": 2, "window": 4, "map_blocks": 2, "linalg": 1}


def _compute_expr(expr):
    """Compute an expression as it is (lowering only, no simplify, no fuse)."""
    from dask_array._new_collection import new_collection

    with dask.config.set({"array.optimize-graph": False}):
        return new_collection(expr).compute()


def _cmp(a, b, atol):
    return util.same(a, b, rtol=0.0, atol=atol)


def check_fusion(lowered, fused, fails, labs):
    from dask._expr import Expr
    from dask._task_spec import convert_legacy_graph

    fnodes = [n for n in fused.walk() if type(n).__name__ == "FusedBlockwise"]
    if not fnodes:
        return
    labs.append("fused")
    try:
        gl = dict(Expr.__dask_graph__(lowered))
        gf = dict(Expr.__dask_graph__(fused))
        vl, _ = E.execute(gl)
        vf_, _ = E.execute(gf)
    except Exception as e:
        fails.append((util.exc_bucket("fusion-graph", e), util.exc_detail(e)))
        return
    nf = E.convert(gf)
    for F in fnodes[:6]:
        group = list(F.exprs)
        names = {e._name for e in group}
        root = group[0]
        grp = {}
        try:
            for e in group:
                grp.update(dict(e._layer()))
        except Exception as e:
            fails.append((util.exc_bucket("fusion-group-layer", e), util.exc_detail(e)))
            continue
        gn = E.convert(grp)
        labs.append("fused-group-size>=3" if len(group) >= 3 else "fused-group-size2")
        for idx in itertools.islice(itertools.product(*[range(n) for n in F.numblocks]), 64):
            fk = (F._name,) + idx
            rk = (root._name,) + idx
            if fk not in nf:
                fails.append(("fusion|missing-fused-key", f"{fk!r}"))
                break
            fdeps = set(nf[fk].dependencies)
            # walk the un-fused group from the same block
            ext, stack, seen = set(), [rk], set()
            while stack:
                k = stack.pop()
                if k in seen:
                    continue
                seen.add(k)
                nm = k[0] if isinstance(k, tuple) else k
                if nm in names:
                    if k not in gn:
                        fails.append(("fusion|unfused-key-missing", f"{k!r} not in the group's own layers"))
                        ext = None
                        break
                    stack.extend(gn[k].dependencies)
                else:
                    ext.add(k)
            if ext is None:
                break
            if ext != fdeps:
                fails.append(("fusion|reads-different-input-blocks", f"block {idx} of {type(root).__name__}: fused reads {sorted(map(repr, fdeps))[:6]} unfused reads {sorted(map(repr, ext))[:6]}"))
                break
            if rk in vl and fk in vf_:
                if E.fingerprint(vl[rk]) != E.fingerprint(vf_[fk]):
                    why = util.same(vf_[fk], vl[rk], rtol=1e-12)
                    if why is not None:
                        fails.append(("fusion|block-value-differs", f"block {idx}: {why}"))
                        break


def check(case, vals=None):
    prog = case["program"]
    if vals is None:
        vals = P.eval_np(prog)
    atol = util.float_tolerance(vals, [s["op"] for s in prog["stmts"]])
    vars_, status = progrun.build_or_reject(prog)
    if vars_ is None:
        return status, [], []
    fails, labs = [], []
    for o in prog["outputs"]:
        x = vars_[o]
        raw = x.expr
        try:
            with rewrites.recording() as recs:
                simp = raw.simplify()
                low = simp.lower_completely()
            fused = low.fuse()
        except NotImplementedError:
            return "refused", fails, labs
        except Exception as e:
            fails.append((util.exc_bucket("optimize", e), util.exc_detail(e)))
            continue
        try:
            v_raw = _compute_expr(raw)
        except Exception as e:
            labs.append("raw-not-computable")
            continue
        for phase, ex in (("simplified", simp), ("lowered", low), ("fused", fused)):
            try:
                v = _compute_expr(ex)
            except Exception as e:
                fails.append((util.exc_bucket(f"phase-{phase}-compute", e), util.exc_detail(e)))
                continue
            why = _cmp(v, v_raw, atol)
            if why is not None:
                fails.append((f"phase|{phase}|{why.split(' ')[0]}", f"{phase} vs raw: {why}\n got={util.short(v)}\n raw={util.short(v_raw)}"))
        # rewrite pairs
        seen_pairs = set()
        npairs = 0
        for rule, before, after in recs:
            try:
                key = (rule, before._name, after._name)
            except Exception:
                continue
            if key in seen_pairs:
                continue
            seen_pairs.add(key)
            labs.append("rule:" + rule)
            if npairs >= MAX_PAIRS:
                labs.append("pairs-capped")
                continue
            npairs += 1
            try:
                bshape, ashape = before.shape, after.shape
                bdt, adt = before.dtype, after.dtype
            except Exception as e:
                fails.append((util.exc_bucket(f"rewrite-meta[{rule}]", e), util.exc_detail(e)))
                continue
            if len(bshape) != len(ashape) or any(a != b and not (a != a and b != b) for a, b in zip(ashape, bshape)):
                fails.append((f"rewrite|shape|{rule}", f"{type(before).__name__} {bshape} -> {type(after).__name__} {ashape}"))
                continue
            if bdt != adt:
                fails.append((f"rewrite|dtype|{rule}", f"{type(before).__name__} {bdt} -> {type(after).__name__} {adt}"))
                continue
            try:
                vb = _compute_expr(before)
            except Exception:
                labs.append("before-not-computable")
                continue
            try:
                va = _compute_expr(after)
            except Exception as e:
                fails.append((util.exc_bucket(f"rewrite-after-compute[{rule}]", e), util.exc_detail(e)))
                continue
            why = _cmp(va, vb, atol)
            if why is not None:
                fails.append((f"rewrite|{why.split(' ')[0]}|{rule}", f"{rule}: {type(before).__name__} -> {type(after).__name__}: {why}\n after={util.short(va)}\n before={util.short(vb)}"))
        if npairs:
            labs.append("rewrites-fired")
        check_fusion(low, fused, fails, labs)
    return "ok", fails, sorted(set(labs))


def replay(case):
    _, fails, _ = check(case)
    return fails


shrink = progrun.shrink_case


def nontrivial(case, labels):
    return "rewrites-fired" in labels and P.n_blocks_max(case["program"]) > 1


def run_shard(spec, seed):
    return progrun.run_program_shard(spec, seed, check, nontrivial, exclude_only=EXCLUDE, strategy_kwargs={"family_weights": WEIGHTS, "n_outputs": (1, 1)})


def plan(tier):
    return progrun.plan_cases(tier, 3200, 120000)


COMMON_RULES = [
    "rule:FromArray._simplify_up",
    "rule:Elemwise._simplify_up",
    "rule:Rechunk._lower",
    "rule:SliceSlicesIntegers._simplify_down",
    "rule:Transpose._simplify_up",
    "rule:Concatenate._simplify_up",
]
REQUIRED_CLASSES = {"quick": COMMON_RULES + ["fused", "rewrites-fired"], "thorough": COMMON_RULES + ["fused", "rewrites-fired", "fused-group-size>=3"]}
