"""C29 — building and inspecting arrays never touches data."""

from __future__ import annotations

import contextlib
import io
import re

import hypothesis
import numpy as np
from hypothesis import HealthCheck, Phase, given, settings
from hypothesis import strategies as st

from vf import exclusions, progrun, rewrites, util
from vf import sources as S
from vf.gen import programs as P
from vf.gen.draw import D
from vf.runner import Collector

PROPERTY = "C29"
RULE = (
    "Programs from the default program generator of C01 (all op families, 1-6 statements over 1-2 leaves; the "
    "map_blocks family weighted 6 instead of 2) whose leaves are da.from_array over RecordingSources (non-NumPy "
    "array-likes logging every __getitem__/__array__; with or without a storage grid exposed as .chunks/.shards, "
    "sometimes behind an adapter object, tokenizable or not, inline_array or not; 1 leaf in 8 is a plain ndarray and "
    "exempt) and whose map_blocks statements call spy functions that log block.size, constructed either as "
    "x.map_blocks(f, dtype=...), x.map_blocks(f) (meta and dtype inferred) or da.blockwise(f, ..., dtype=...) (meta "
    "inferred). The program is built under phase 'build'; then a Hypothesis-drawn sequence of 2-8 accessors out of "
    "shape, chunks, dtype, name, keys, repr, html, len, numblocks, npartitions, nbytes, size, chunksize, "
    "transfer_bytes, meta, nodes (shape/chunks/dtype/name/numblocks/nbytes/transfer_bytes/_meta of EVERY node of the "
    "expression tree), pprint, chunk_report, tokenize, pickle (cloudpickle round trip + metadata of the copy), simplify, "
    "optimize, lower (expr.lower_completely()), graph (__dask_graph__()), explain is applied to every output; a second, "
    "fresh build is always optimised under a rewrite recorder. Oracle, until the harness switches to phase 'execute': "
    "no logged request to a recording source with a non-empty result, no __array__ call on one, no spy call on a block "
    "with size > 0; an exception from an accessor (other than NotImplementedError) is a failure of its own. Then every "
    "output is computed and must equal the NumPy twin (recorders and spies are transparent). Non-trivial: a rewrite "
    "touched a FromArray (slice / rechunk pushed into the read) or a user function went through meta inference; "
    "distinct = distinct case JSON."
)
ASSUMPTIONS = [
    "a request whose result has zero elements is not a read (meta_from_array takes x[0:0, ...]); any result with >= 1 element is",
    "NumPy sources are exempt (the property says non-NumPy; FromArray copies/slices ndarrays eagerly by design)",
    "a 0-d meta has one element by construction (there is no empty 0-d array): a user function called by compute_meta on a 0-d meta is meta inference, not a call on a non-empty block (class 'spy-on-0-d-meta'); any other call with size > 0 is a failure",
    "spy functions compute the same values as vf.funcs.times_two/plus_one/negate; the NumPy twin calls them under phase 'numpy', which is not audited",
    "sync scheduler; cloudpickle round trips happen in-process (copies of a source report to the same log)",
]
# The default program generator is shared and grows (new ops bring new listed defects):
# steer around EVERY region registered in vf.exclusions whose finding is open, as C01 does
# (at the time of writing: KF-layout-drift-over-shuffle, KF-minmax-empty, KF-pad-wide,
# KF-tensordot-int-dtype, KF-argext-ties-axis-none, KF-setitem-int-with-negstep).
EXCLUDE = None
WEIGHTS = dict(P.FAMILY_WEIGHTS, map_blocks=6, dask_index=3)  # lazily computed indices only here (see programs.py)
MODES = ("dtype", "infer", "blockwise")
SPIES = ("spy_times_two", "spy_plus_one", "spy_negate")


# ---------------------------------------------------------------------------
# accessors: name -> (phase, callable on a collection)


def _nodes(x):
    from dask_array._expr import ArrayExpr

    out = 0
    for n in x.expr.walk():
        if isinstance(n, ArrayExpr):
            n.shape, n.chunks, n.dtype, n._name, n.ndim, n.numblocks, n.nbytes, n.transfer_bytes, n._meta
            out += 1
    return out


def _pprint(x):
    buf = io.StringIO()
    with contextlib.redirect_stdout(buf):
        x.pprint()
    return len(buf.getvalue())


def _pickle(x):
    import cloudpickle

    y = cloudpickle.loads(cloudpickle.dumps(x))
    return y.shape, y.chunks, y.dtype, y.name


def _chunk_report(x):
    import dask_array as da

    return da.chunk_report(x)


def _explain(x):
    import dask_array as da

    return repr(da.explain(x))


def _tokenize(x):
    from dask.base import tokenize

    return tokenize(x)


ACCESSORS = {
    "shape": ("inspect", lambda x: x.shape),
    "chunks": ("inspect", lambda x: x.chunks),
    "dtype": ("inspect", lambda x: x.dtype),
    "name": ("inspect", lambda x: x.name),
    "keys": ("inspect", lambda x: x.__dask_keys__()),
    "repr": ("inspect", lambda x: repr(x)),
    "html": ("inspect", lambda x: x._repr_html_()),
    "len": ("inspect", lambda x: len(x) if x.ndim > 0 else None),
    "numblocks": ("inspect", lambda x: x.numblocks),
    "npartitions": ("inspect", lambda x: x.npartitions),
    "nbytes": ("inspect", lambda x: x.nbytes),
    "size": ("inspect", lambda x: x.size),
    "chunksize": ("inspect", lambda x: x.chunksize),
    "transfer_bytes": ("inspect", lambda x: x.transfer_bytes),
    "meta": ("inspect", lambda x: x._meta),
    "nodes": ("inspect", _nodes),
    "pprint": ("inspect", _pprint),
    "chunk_report": ("inspect", _chunk_report),
    "tokenize": ("inspect", _tokenize),
    "pickle": ("inspect", _pickle),
    "simplify": ("optimize", lambda x: x.simplify().chunks),
    "optimize": ("optimize", lambda x: (x.optimize().chunks, x.expr.optimize())),
    "lower": ("optimize", lambda x: x.expr.lower_completely()),
    "graph": ("graph", lambda x: len(dict(x.__dask_graph__()))),
    "explain": ("graph", _explain),
}
# heavier accessors are drawn more often than their share of the table
ACCESSOR_WEIGHTS = {"nodes": 3, "simplify": 2, "optimize": 3, "lower": 2, "graph": 3, "explain": 2, "pickle": 2, "repr": 2, "html": 2, "meta": 2}


# ---------------------------------------------------------------------------
# generation


def gen_src(D_, leaf):
    nd = len(leaf["shape"])
    src = {"kind": D_.weighted([("recording", 7), ("numpy", 1)])}
    if src["kind"] == "recording":
        if nd and D_.bool():
            src["storage"] = [D_.int(1, max(1, n) + 1) for n in leaf["shape"]]
            src["storage_attr"] = D_.weighted([("chunks", 4), ("shards", 1), ("both", 1)])
        src["adapter"] = D_.weighted([(0, 5), (1, 1)])
        src["tokenizable"] = D_.chance(4, 5)
        src["inline_array"] = D_.chance(1, 4)
        src["via"] = D_.weighted([("from_array", 4), ("asarray", 2), ("asanyarray", 1)])
    return src


def case_strategy(max_stmts=6):
    base = P.program_strategy(family_weights=WEIGHTS, max_stmts=max_stmts)
    names = [n for n in ACCESSORS for _ in range(ACCESSOR_WEIGHTS.get(n, 1))]

    @st.composite
    def strat(draw):
        prog, stats = draw(base)
        D_ = D(draw)
        for leaf in prog["leaves"]:
            leaf["src"] = gen_src(D_, leaf)
        for s in prog["stmts"]:
            if s["op"] == "map_blocks":
                s["fn"] = "spy_" + s["fn"]
                s["mode"] = D_.weighted([("dtype", 2), ("infer", 2), ("blockwise", 3)])
        inspect = draw(st.lists(st.sampled_from(names), min_size=2, max_size=8))
        return {"program": prog, "inspect": inspect}, stats

    return strat()


# ---------------------------------------------------------------------------
# regions of listed known findings (case-level structural predicates; the search
# steers around a region only while its finding is open in known_findings.json)

INFER_MODES = ("infer", "blockwise")  # the user function goes through compute_meta


def _getitem_meta(m, enc):
    """Basic index applied to a meta: ints drop their axis, slices keep the axis as
    it is (0 stays 0, >= 1 stays), None adds an axis of length 1."""
    from vf.gen import indices as gidx

    idx = gidx.dec(enc)
    idx = list(idx if isinstance(idx, tuple) else (idx,))
    n_real = sum(1 for i in idx if i is not None and i is not Ellipsis)
    if Ellipsis in idx:
        k = idx.index(Ellipsis)
        idx[k : k + 1] = [slice(None)] * (m.ndim - n_real)
    out, ax = [], 0
    for i in idx:
        if i is None:
            out.append(1)
        elif isinstance(i, slice):
            out.append(m.shape[ax])
            ax += 1
        else:
            ax += 1
    out += list(m.shape[ax:])
    return np.zeros(tuple(out), m.dtype)


def meta_shapes(prog, vals):
    """Over-approximation of the shape of every variable's ``_meta`` (raw or lowered):
    the NumPy twin is run on zero-length stand-ins of the leaves (an axis of a meta is 0
    exactly when it stems from a leaf axis); where that is not defined the result is
    assumed non-empty unless the real value is empty."""
    import warnings

    L = len(prog["leaves"])
    metas = [np.zeros((0,) * len(leaf["shape"]), dtype=leaf["dtype"]) for leaf in prog["leaves"]]
    for k, s in enumerate(prog["stmts"]):
        args = [metas[j] for j in s["args"]]
        real = np.asarray(vals[L + k])
        try:
            if s["op"] == "getitem":
                m = _getitem_meta(args[0], s["index"])
            elif s["op"] in ("map_blocks", "rechunk", "rechunk_auto"):
                m = args[0]
            elif s["op"] == "sliding_window_view":
                m = np.zeros(args[0].shape + (s["w"],), real.dtype)
            elif s["op"] in P.REDUCTIONS:
                # only the shape matters (min/max/arg* of an empty array are undefined in NumPy)
                axis = tuple(s["axis"]) if isinstance(s["axis"], list) else s["axis"]
                m = np.zeros(np.sum(np.zeros(args[0].shape), axis=axis, keepdims=s["keepdims"]).shape, real.dtype)
            else:
                with warnings.catch_warnings(), np.errstate(all="ignore"):
                    warnings.simplefilter("ignore")
                    m = np.asarray(P.OPS[s["op"]].np(s, args))
            if m.ndim != real.ndim:
                raise ValueError("rank")
        except Exception:
            m = np.zeros(tuple(min(1, n) for n in real.shape), real.dtype)
        metas.append(m)
    return [m.shape for m in metas]


def region_0d_source(case):
    """A 0-d recording (non-NumPy) source leaf: its meta is taken by x[()], the element itself."""
    return any(len(leaf["shape"]) == 0 and (leaf.get("src") or {}).get("kind", "recording") == "recording" for leaf in case["program"]["leaves"])


def region_infer(case):
    """map_blocks without dtype= and meta=: apply_infer_dtype calls the function on a 1-element array."""
    return any(s["op"] == "map_blocks" and s.get("mode", "dtype") == "infer" for s in case["program"]["stmts"])


def region_nonempty_meta(case):
    """A user function that goes through meta inference (map_blocks without dtype, da.blockwise
    without meta) on an argument of rank >= 1 whose meta has no zero-length axis: every axis was
    made by a keepdims reduction, expand_dims / None index, ravel / reshape of a 0-d value,
    stack of 0-d values ... rather than inherited from a source axis."""
    prog = case["program"]
    stmts = [s for s in prog["stmts"] if s["op"] == "map_blocks" and s.get("mode", "dtype") in INFER_MODES]
    if not stmts:
        return False
    with S.phase("numpy"):
        shapes = meta_shapes(prog, P.eval_np(prog))
    return any(len(shapes[s["args"][0]]) >= 1 and 0 not in shapes[s["args"][0]] for s in stmts)


REGIONS = {
    "KF-meta-0d-source-read": region_0d_source,
    "KF-map-blocks-dtype-inference-calls-func": region_infer,
    "KF-nonempty-meta-feeds-compute-meta": region_nonempty_meta,
}


# bucket regexes of the three findings (the same ones known_findings.json uses)
REGION_BUCKETS = {
    "KF-meta-0d-source-read": r"^source-read\|getitem\|via=_utils\.py:meta_from_array\|0-d-source$",
    "KF-map-blocks-dtype-inference-calls-func": r"^spy-call\|via=_core_utils\.py:apply_infer_dtype$",
    "KF-nonempty-meta-feeds-compute-meta": r"^spy-call\|via=_utils\.py:compute_meta\[nonempty-arg-meta:",
}


def _register_regions():
    from vf import known

    for fid, fn in REGIONS.items():
        known.PREDICATES["c29:" + fid] = fn


_register_regions()


def excluded(case):
    open_ids = exclusions._open_ids()
    for fid, fn in REGIONS.items():
        if fid in open_ids and fn(case):
            return fid
    return None


# ---------------------------------------------------------------------------
# building


def validate(case):
    prog = case["program"]
    assert isinstance(prog.get("leaves"), list) and prog["leaves"] and isinstance(prog.get("stmts"), list)
    nvars = len(prog["leaves"]) + len(prog["stmts"])
    assert prog.get("outputs") and all(isinstance(o, int) and 0 <= o < nvars for o in prog["outputs"])
    assert isinstance(case.get("inspect"), list) and all(a in ACCESSORS for a in case["inspect"])
    for k, s in enumerate(prog["stmts"]):
        assert s["op"] in P.OPS and all(0 <= j < len(prog["leaves"]) + k for j in s["args"])
        if s["op"] == "map_blocks":
            assert s["fn"] in SPIES + ("times_two", "plus_one", "negate") and s.get("mode", "dtype") in MODES
    for leaf in prog["leaves"]:
        assert len(leaf["shape"]) == len(leaf["chunks"])
        for n, c in zip(leaf["shape"], leaf["chunks"]):
            assert c and sum(c) == n and all(isinstance(v, int) and v >= 0 for v in c) and (n == 0 or all(v > 0 for v in c))
        src = leaf.get("src") or {}
        assert src.get("kind", "recording") in ("recording", "numpy")
        if src.get("storage") is not None:
            assert len(src["storage"]) == len(leaf["shape"]) and all(isinstance(v, int) and v >= 1 for v in src["storage"])
            assert src.get("storage_attr", "chunks") in ("chunks", "shards", "both")
        assert src.get("adapter", 0) in (0, 1, 2)


def _map_blocks(s, a):
    import dask_array as da

    from vf import funcs

    fn = getattr(funcs, s["fn"])
    x = a[0]
    mode = s.get("mode", "dtype")
    if mode == "infer":
        return x.map_blocks(fn)
    if mode == "blockwise":
        ind = tuple(range(x.ndim))
        return da.blockwise(fn, ind, x, ind, dtype=x.dtype)
    return x.map_blocks(fn, dtype=x.dtype)


def build(prog, registry):
    vars_ = [S.leaf_from_json(leaf, P.leaf_data(leaf), registry) for leaf in prog["leaves"]]
    for s in prog["stmts"]:
        args = [vars_[j] for j in s["args"]]
        vars_.append(_map_blocks(s, args) if s["op"] == "map_blocks" else P.OPS[s["op"]].da(s, args))
    return vars_


# ---------------------------------------------------------------------------
# the audit


class Audit:
    """Reads what the recorders logged since the last look and turns eager reads /
    eager user-function calls into failures."""

    def __init__(self):
        self.r = len(S.REQUESTS)
        self.s = len(S.SPY_LOG)
        self.fails = []
        self.labs = set()

    def look(self, during):
        for sid, index, rshape, ph, via, sshape in S.REQUESTS[self.r :]:
            if ph not in S.EAGER_PHASES:
                continue
            if index == "__array__":
                self.fails.append((f"source-read|__array__|via={via}", f"phase {ph}, during {during}: np.asarray() of a source of shape {sshape}"))
            elif int(np.prod(rshape, dtype=object)) > 0:
                zero_d = "|0-d-source" if tuple(sshape) == () else ""
                self.fails.append((f"source-read|getitem|via={via}{zero_d}", f"phase {ph}, during {during}: request {index!r} -> result shape {rshape} ({int(np.prod(rshape, dtype=object))} elements) on a source of shape {sshape}"))
            else:
                self.labs.add("empty-meta-request")
        self.r = len(S.REQUESTS)
        for size, ph, via, ndim in S.SPY_LOG[self.s :]:
            if ph not in S.EAGER_PHASES:
                continue
            if ndim == 0 and via.endswith(":compute_meta"):
                # there is no empty 0-d array: the meta of a 0-d array has one (uninitialised) element
                self.labs.add("map_blocks-meta-inference")
                self.labs.add("spy-on-0-d-meta")
            elif size > 0:
                self.fails.append((f"spy-call|via={via}", f"phase {ph}, during {during}: user block function called on a block of {size} element(s)"))
            else:
                self.labs.add("map_blocks-meta-inference")
        self.s = len(S.SPY_LOG)


def check(case, vals=None):
    validate(case)
    prog = case["program"]
    with S.phase("numpy"):
        if vals is None:
            try:
                vals = P.eval_np(prog)
            except P.NumpyUndefined as e:
                raise AssertionError(f"invalid case: {e}")
    S.reset()
    labs = set()
    registry = []
    audit = Audit()
    with S.phase("build"):
        try:
            vars_ = build(prog, registry)
        except NotImplementedError:
            return "rejected:NotImplementedError", [], []
        except Exception as e:
            # the build may have read before it failed: still a rejection of the program, but say so
            audit.look("build (raised)")
            if audit.fails:
                return "ok", audit.fails, ["build-raised"]
            return "rejected:" + util.exc_bucket("build", e), [], []
    audit.look("build")
    fails = audit.fails
    if registry:
        labs.add("recording-leaf")
    if any((leaf.get("src") or {}).get("kind") == "numpy" for leaf in prog["leaves"]):
        labs.add("numpy-leaf")
    if any((leaf.get("src") or {}).get("storage") is not None for leaf in prog["leaves"]):
        labs.add("storage-grid")
    if any((leaf.get("src") or {}).get("adapter") for leaf in prog["leaves"]):
        labs.add("adapter")
    for s in prog["stmts"]:
        if s["op"] == "map_blocks":
            labs.add("map_blocks:" + s.get("mode", "dtype"))
    refused = False
    dask_index0 = any(s["op"] == "getitem_dask0d" for s in prog["stmts"])
    # ---- the drawn inspections
    for name in case["inspect"]:
        ph, fn = ACCESSORS[name]
        labs.add("acc:" + name)
        for o in prog["outputs"]:
            with S.phase(ph):
                try:
                    fn(vars_[o])
                except NotImplementedError:
                    labs.add("refused:" + name)
                except Exception as e:
                    if dask_index0:
                        labs.add("inspect-raised-under-dask-index")  # C12's listed crashes (see execution below)
                    else:
                        fails.append((util.exc_bucket("inspect:" + name, e), f"output {o}: " + util.exc_detail(e)))
            audit.look(f"{name} of output {o}")
    # ---- always: optimise a fresh build under the rewrite recorder
    with S.phase("build"):
        try:
            vars2 = build(prog, [])
        except Exception:
            vars2 = None
    audit.look("second build")
    if vars2 is not None:
        for o in prog["outputs"]:
            with S.phase("optimize"):
                try:
                    with rewrites.recording() as recs:
                        vars2[o].expr.optimize()
                except NotImplementedError:
                    recs = []
                    labs.add("refused:optimize")
                except Exception as e:
                    recs = []
                    if dask_index0:
                        labs.add("inspect-raised-under-dask-index")
                    else:
                        fails.append((util.exc_bucket("inspect:optimize", e), f"output {o}: " + util.exc_detail(e)))
            audit.look(f"optimize (recorded) of output {o}")
            for rule, before, after in recs:
                if rule.startswith("FromArray."):
                    labs.add("rewrite-touches-fromarray")
                    labs.add("fromarray<-" + type(before).__name__)
    # ---- execution
    atol = util.float_tolerance(vals, [s["op"] for s in prog["stmts"]])
    L = len(prog["leaves"])
    mark = len(S.REQUESTS)
    dask_index = any(s["op"] == "getitem_dask0d" for s in prog["stmts"])
    for o in prog["outputs"]:
        with S.phase("execute"):
            try:
                got = vars_[o].compute()
            except NotImplementedError:
                refused = True
                continue
            except Exception as e:
                if dask_index:
                    # what a lazily computed index returns (or how it fails) is C12's business, where the
                    # defects of this form are listed; this engine only audits WHEN the index is computed
                    labs.add("compute-raised-under-dask-index")
                    continue
                fails.append((util.exc_bucket("compute", e), f"output {o}: " + util.exc_detail(e)))
                continue
        why = util.same(got, vals[o], rtol=0.0, atol=atol)
        if why and dask_index:
            labs.add("values-not-judged-under-dask-index")
        elif why:
            last = prog["stmts"][o - L]["op"] if o >= L else "leaf"
            fails.append((f"values|{why.split(' ')[0]}|last={last}", f"output {o}: {why}\n got={util.short(got)}\n exp={util.short(vals[o])}"))
    if any(int(np.prod(r[2], dtype=object)) > 0 for r in S.REQUESTS[mark:]):
        labs.add("read-at-execute")
    labs |= audit.labs
    status = "refused" if refused and not fails else "ok"
    return status, fails, sorted(labs)


# ---------------------------------------------------------------------------
# engine protocol


def replay(case):
    _, fails, _ = check(case)
    return fails


def shrink(case):
    yield from progrun.shrink_case(case)
    ins = case["inspect"]
    if ins:
        new = P._copy(case)
        new["inspect"] = []
        yield new
    for k in range(len(ins)):
        new = P._copy(case)
        del new["inspect"][k]
        yield new
    prog = case["program"]
    for i, leaf in enumerate(prog["leaves"]):
        src = leaf.get("src") or {}
        for key, plain in (("adapter", 0), ("inline_array", False), ("tokenizable", True), ("storage_attr", "chunks")):
            if key in src and src[key] != plain:
                new = P._copy(case)
                new["program"]["leaves"][i]["src"][key] = plain
                yield new
        if src.get("storage") is not None:
            new = P._copy(case)
            s2 = new["program"]["leaves"][i]["src"]
            s2.pop("storage")
            s2.pop("storage_attr", None)
            yield new
    for k, s in enumerate(prog["stmts"]):
        if s["op"] == "map_blocks" and s.get("mode", "dtype") != "dtype":
            new = P._copy(case)
            new["program"]["stmts"][k]["mode"] = "dtype"
            yield new


def nontrivial(case, labels):
    return "rewrite-touches-fromarray" in labels or "map_blocks-meta-inference" in labels


def run_shard(spec, seed):
    col = Collector()

    @hypothesis.seed(seed)
    @settings(max_examples=spec["cases"], database=None, deadline=None, derandomize=False, phases=[Phase.generate], suppress_health_check=list(HealthCheck))
    @given(case_strategy(spec.get("max_stmts", 6)))
    def body(cs):
        case, stats = cs
        prog = case["program"]
        if stats["discarded"]:
            col.rejected["generator-discarded-statements"] += stats["discarded"]
        if not prog["stmts"]:
            col.reject("empty-program")
            return
        with S.phase("numpy"):
            vals = P.eval_np(prog)
        fid = exclusions.excluded(prog, vals, only=EXCLUDE)
        if fid:
            col.exclude(fid)
            return
        fid = excluded(case)
        if fid:
            col.exclude(fid)
            return
        status, fails, labs = check(case, vals)
        if status.startswith("rejected"):
            col.reject(status[:120])
            return
        labels = progrun.base_labels(prog) + list(labs)
        for b, _ in fails:
            for fid, rx in REGION_BUCKETS.items():
                if re.search(rx, b) and not REGIONS[fid](case):
                    labels.append("region-predicate-miss:" + fid)  # a listed-kind failure outside its region: refine the predicate
        if status == "refused":
            labels.append("refused-NotImplementedError")
        col.case(case, nontrivial(case, labels), labels)
        for b, d in fails:
            col.fail(b, case, d)

    body()
    return col.result()


def plan(tier):
    return progrun.plan_cases(tier, 8000, 160000)


_REQ = ["acc:" + n for n in ACCESSORS] + [
    "rewrite-touches-fromarray",
    "fromarray<-Rechunk",
    "map_blocks-meta-inference",
    "map_blocks:dtype",
    "map_blocks:infer",
    "map_blocks:blockwise",
    "storage-grid",
    "recording-leaf",
    "numpy-leaf",
    "adapter",
    "read-at-execute",
]
if "KF-map-blocks-dtype-inference-calls-func" in exclusions._open_ids():
    _REQ.remove("map_blocks:infer")  # that region is steered around while the finding is open
REQUIRED_CLASSES = {"quick": list(_REQ), "thorough": list(_REQ)}
