"""C14 — rechunking yields the requested chunks with unchanged values."""

from __future__ import annotations

import math

import dask
import hypothesis
import numpy as np
from hypothesis import HealthCheck, Phase, given, settings
from hypothesis import strategies as st

from vf import progrun, util
from vf.gen import chunks as gchunks
from vf.gen import programs as P
from vf.gen.draw import D
from vf.props import c03
from vf.runner import Collector

PROPERTY = "C14"
RULE = (
    "Program generator of C01 re-weighted so that rechunk statements (explicit tuples, ints, dicts with negative axes, "
    "-1, None entries, 'auto', byte strings, block_size_limit, balance=True) sit above/below elemwise, transpose, "
    "concatenate/stack, expand_dims, slices, reductions and sources, with shared inner nodes. For every rechunk "
    "statement y = x.rechunk(spec): y.chunks must equal an independent normalisation of the spec against x's shape and "
    "chunks (own 30-line reference for explicit forms; for auto/bytes forms a direct normalize_chunks call with "
    "previous_chunks plus the C16 validity predicate and the block_size_limit bound; balance=True: validity only); "
    "every block the optimised graph produces for y and for every later variable must have the advertised chunk shape; "
    "every output must equal NumPy. A second generator covers unknown sizes along unchanged axes (x[mask] then a "
    "rechunk of another axis). Non-trivial: target != source and the rechunk is neither the first nor the last node; "
    "distinct = distinct program JSON."
)
ASSUMPTIONS = [
    "explicit spec semantics: int c -> (c,...,c,rest), -1 -> one block, None -> keep, dict addresses axes (negative allowed), tuples verbatim",
    "'auto' block bytes may exceed the limit by array.chunk-size-tolerance (1.25) because previous_chunks is always given by rechunk (see DESIGN C16)",
]
from vf import exclusions as _ex

EXCLUDE = _ex.ALL
WEIGHTS = {"elemwise": 6, "elemwise2": 6, "shape": 8, "stack": 6, "index": 8, "rechunk": 22, "reduction": 5, "scan": 1, "window": 2, "map_blocks": 2, "linalg": 1}


def ref_normalise(spec, shape, old):
    """Independent normalisation of explicit specs."""
    nd = len(shape)
    if isinstance(spec, dict):
        per = [None] * nd
        for k, v in spec.items():
            per[int(k) % nd if nd else 0] = v
    elif isinstance(spec, int):
        per = [spec] * nd
    else:
        per = list(spec)
        assert len(per) == nd
    out = []
    for ax, e in enumerate(per):
        n = shape[ax]
        if e is None:
            out.append(tuple(old[ax]))
        elif isinstance(e, tuple):
            out.append(tuple(e))
        elif e == -1:
            out.append((n,))
        else:
            c = int(e)
            if n == 0:
                out.append((0,))
            else:
                c = min(c, n)
                out.append((c,) * (n // c) + ((n % c,) if n % c else ()))
    return tuple(out)


def _valid_partition(chunks, shape, old=None):
    if len(chunks) != len(shape):
        return f"{len(chunks)} axes for shape {shape}"
    for ax, (c, n) in enumerate(zip(chunks, shape)):
        if old is not None and ax < len(old) and tuple(c) == tuple(old[ax]):
            continue  # axis left as it was (a zero-width block the input already had is not the rechunk's doing)
        if isinstance(n, float) and math.isnan(n):
            continue
        if len(c) == 0 or any((not isinstance(v, (int, np.integer))) or v < 0 for v in c) or sum(c) != n:
            return f"{c} is not a partition of {n}"
        if n > 0 and any(v == 0 for v in c):
            return f"zero-size chunk on a non-empty axis: {c}"
    return None


def check_rechunk_stmt(s, x, y, fails, labs):
    spec = P.decode_chunks(s["chunks"])
    shape = tuple(x.shape)
    labs.append("spec:" + ("dict" if isinstance(spec, dict) else "str" if isinstance(spec, str) else "int" if isinstance(spec, int) else "seq"))
    why = _valid_partition(y.chunks, shape, old=x.chunks)
    if why:
        fails.append(("chunks|invalid", f"{s}: {why}"))
        return
    if s["op"] == "rechunk":
        want = ref_normalise(spec, shape, x.chunks)
        if tuple(map(tuple, y.chunks)) != want:
            fails.append(("chunks|differs-from-spec", f"spec={spec} x.chunks={x.chunks}: got {y.chunks} want {want}"))
        return
    if s.get("balance"):
        labs.append("balance")
        return
    # auto / byte-string forms: differential against a direct normalize_chunks call + bound
    from dask_array._core_utils import normalize_chunks

    nd = len(shape)
    if isinstance(spec, dict):
        per = [spec.get(i, spec.get(i - nd)) if (i in spec or i - nd in spec) else None for i in range(nd)]
        per = [x.chunks[i] if e is None else e for i, e in enumerate(per)]
        resolved = tuple(per)
    elif isinstance(spec, tuple):
        resolved = tuple(x.chunks[i] if e is None else e for i, e in enumerate(spec))
    else:
        resolved = spec
    limit = s.get("limit")
    try:
        want = normalize_chunks(resolved, shape, limit=limit, dtype=x.dtype, previous_chunks=x.chunks)
    except Exception as e:
        fails.append((util.exc_bucket("direct-normalize_chunks", e), util.exc_detail(e)))
        return
    if tuple(map(tuple, y.chunks)) != tuple(map(tuple, want)):
        fails.append(("chunks|call-sites-disagree", f"spec={spec} limit={limit}: rechunk gives {y.chunks}, direct normalize_chunks gives {want}"))
        return
    # byte bound on auto axes
    auto_axes = [i for i in range(nd) if (resolved == "auto" or isinstance(resolved, str) or (isinstance(resolved, tuple) and isinstance(resolved[i], str)))]
    if auto_axes:
        labs.append("auto-axes")
        lim = limit if limit is not None else None
        if isinstance(resolved, str) and resolved != "auto":
            from dask.utils import parse_bytes

            lim = parse_bytes(resolved)
        elif isinstance(resolved, tuple):
            strs = [e for e in resolved if isinstance(e, str) and e != "auto"]
            if strs:
                return  # per-axis byte strings: semantics not stated by the property; validity only
        if lim is None:
            lim = dask.utils.parse_bytes(dask.config.get("array.chunk-size"))
        tol = float(dask.config.get("array.chunk-size-tolerance", 1.25))
        item = x.dtype.itemsize
        largest = item * math.prod(max(c) if c else 0 for c in y.chunks)
        fixed = item * math.prod(max(y.chunks[i]) for i in range(nd) if i not in auto_axes) if nd > len(auto_axes) else item
        at_one = all(max(y.chunks[i]) <= 1 for i in auto_axes)
        if largest > lim * tol and not (fixed > lim) and not at_one:
            fails.append(("chunks|auto-exceeds-limit", f"spec={spec} limit={lim}: largest block {largest} B > {lim}*{tol}; chunks {y.chunks}"))
        if largest < item * math.prod(shape):
            labs.append("limit-binding")


def check(case, vals=None):
    prog = case["program"]
    if vals is None:
        vals = P.eval_np(prog)
    vars_, status = progrun.build_or_reject(prog)
    if vars_ is None:
        return status, [], []
    fails, labs = [], []
    L = len(prog["leaves"])
    first_rc = None
    for k, s in enumerate(prog["stmts"]):
        if s["op"] in ("rechunk", "rechunk_auto"):
            if first_rc is None:
                first_rc = k
            x, y = vars_[s["args"][0]], vars_[L + k]
            try:
                check_rechunk_stmt(s, x, y, fails, labs)
            except Exception as e:
                fails.append((util.exc_bucket("rechunk-metadata", e), util.exc_detail(e)))
            if tuple(map(tuple, y.chunks)) != tuple(map(tuple, x.chunks)):
                labs.append("target!=source")
                if 0 < k < len(prog["stmts"]) - 1 or (k > 0 and L + k not in prog["outputs"]):
                    labs.append("rechunk-in-the-middle")
    if first_rc is None:
        return "ok", [], ["no-rechunk"]
    # blocks of the rechunk nodes and everything after them, optimised graph
    for k in range(first_rc, len(prog["stmts"])):
        y = vars_[L + k]
        st_, f, _ = c03.check_array(y, "opt")
        fails += [(b, f"variable {L + k} ({prog['stmts'][k]['op']}): {d}") for b, d in f]
    atol = util.float_tolerance(vals, [s["op"] for s in prog["stmts"]])
    for o in prog["outputs"]:
        try:
            got = vars_[o].compute()
        except NotImplementedError:
            return "refused", fails, labs
        except Exception as e:
            fails.append((util.exc_bucket("compute", e), util.exc_detail(e)))
            continue
        why = util.same(got, vals[o], rtol=0.0, atol=atol)
        if why:
            fails.append((f"values|{why.split(' ')[0]}", f"output {o}: {why}"))
    try:
        with da_rewrites() as fired:
            for o in prog["outputs"]:
                P.build_da(prog)[o].expr.optimize()
        labs += ["rule:" + r for r in fired]
    except Exception:
        pass
    return "ok", fails, sorted(set(labs))


class da_rewrites:
    """Names of Rechunk-related rewrite rules that fire (for class accounting only)."""

    def __enter__(self):
        from vf import rewrites

        self.cm = rewrites.recording()
        self.recs = self.cm.__enter__()
        self.out = set()
        return self.out

    def __exit__(self, *a):
        self.cm.__exit__(*a)
        for rule, before, after in self.recs:
            if "Rechunk" in (type(before).__name__, type(after).__name__) or rule.startswith("Rechunk"):
                self.out.add(rule)
        return False


# ---- unknown sizes along unchanged axes ------------------------------------------------


def run_unknown_case(case):
    import dask_array as da

    shape = tuple(case["shape"])
    a = np.arange(int(np.prod(shape))).reshape(shape)
    x = da.from_array(a, chunks=tuple(tuple(c) for c in case["chunks"]))
    k = case["k"]
    m = x[x[:, 0] > k] if len(shape) == 2 else x[x[:, 0, 0] > k]
    exp = a[a[:, 0] > k] if len(shape) == 2 else a[a[:, 0, 0] > k]
    spec = {int(ax): v for ax, v in case["spec"].items()}
    fails = []
    try:
        y = m.rechunk(spec)
    except Exception as e:
        return [(util.exc_bucket("unknown-build", e), util.exc_detail(e))]
    nb0 = len(m.chunks[0])
    if len(y.chunks[0]) != nb0 or not all(isinstance(v, float) and math.isnan(v) for v in y.chunks[0]):
        fails.append(("unknown|axis0-chunks-changed", f"{m.chunks[0]} -> {y.chunks[0]}"))
    for ax, v in spec.items():
        want = ref_normalise({0: v}, (shape[ax],), (m.chunks[ax],))[0]
        if tuple(y.chunks[ax]) != want:
            fails.append(("unknown|chunks-differ-from-spec", f"axis {ax} spec {v}: {y.chunks[ax]} want {want}"))
    try:
        got = y.compute()
    except Exception as e:
        fails.append((util.exc_bucket("unknown-compute", e), util.exc_detail(e)))
        return fails
    why = util.same(got, exp)
    if why:
        fails.append((f"unknown|values|{why.split(' ')[0]}", why))
    return fails


def run_zero_case(case):
    """Source and/or target layouts with zero-width chunks on non-empty axes (legitimate layouts: they arise
    from compute_chunk_sizes, concatenation with empty arrays, explicit chunks)."""
    import dask_array as da
    from vf import funcs

    shape = tuple(case["shape"])
    a = np.arange(int(np.prod(shape)), dtype="i8").reshape(shape)
    old = tuple(tuple(c) for c in case["old"])
    new = tuple(tuple(c) for c in case["new"])
    assert all(sum(c) == n for c, n in zip(old, shape)) and all(sum(c) == n for c, n in zip(new, shape))
    x = da.from_array(a, chunks=old)
    if case.get("opaque"):
        x = x.map_blocks(funcs.identity, dtype=x.dtype)  # a real task rechunk instead of re-reading the source
    fails = []
    try:
        y = x.rechunk(new)
    except Exception as e:
        return [(util.exc_bucket("zero-build", e), util.exc_detail(e))]
    if tuple(map(tuple, y.chunks)) != new:
        fails.append(("zero|chunks-differ-from-spec", f"{y.chunks} want {new}"))
    st_, f, _ = c03.check_array(y, "opt")
    fails += [("zero|" + b, d) for b, d in f]
    try:
        got = y.compute()
    except Exception as e:
        fails.append((util.exc_bucket("zero-compute", e), util.exc_detail(e)))
        return fails
    why = util.same(got, a)
    if why:
        fails.append((f"zero|values|{why.split(' ')[0]}", f"old={old} new={new}: {why}"))
    return fails


def replay(case):
    if case.get("kind") == "zero":
        return run_zero_case(case)
    if case.get("kind") == "unknown":
        return run_unknown_case(case)
    _, fails, _ = check(case)
    return fails


def shrink(case):
    if case.get("kind") in ("unknown", "zero"):
        return iter(())
    return progrun.shrink_case(case)


def nontrivial(case, labels):
    return "rechunk-in-the-middle" in labels and "target!=source" in labels


def _with_zeros(D_, chunks):
    """Insert 1-2 zero-width chunks at random positions of a chunk tuple."""
    c = list(chunks)
    for _ in range(D_.int(1, 2)):
        c.insert(D_.int(0, len(c)), 0)
    return c


def run_shard(spec, seed):
    if spec.get("zero"):
        col = Collector()

        @st.composite
        def zstrat(draw):
            D_ = D(draw)
            rank = D_.int(1, 3)
            shape = [D_.int(1, 9) for _ in range(rank)]
            old = [list(c) for c in gchunks.array_chunks(D_, shape)]
            new = [list(c) for c in gchunks.array_chunks(D_, shape)]
            where_ = D_.choice(["old", "old", "new", "both"])
            ax = D_.int(0, rank - 1)
            if where_ in ("old", "both"):
                old[ax] = _with_zeros(D_, old[ax])
            if where_ in ("new", "both"):
                ax2 = D_.int(0, rank - 1)
                new[ax2] = _with_zeros(D_, new[ax2])
            return {"kind": "zero", "shape": shape, "old": old, "new": new, "opaque": D_.chance(2, 3)}

        @hypothesis.seed(seed)
        @settings(max_examples=spec["cases"], database=None, deadline=None, derandomize=False, phases=[Phase.generate], suppress_health_check=list(HealthCheck))
        @given(zstrat())
        def zbody(case):
            fails = run_zero_case(case)
            labs = ["zero-width-chunk", "zero-in-old" if any(0 in c for c in case["old"]) else "zero-in-new-only"]
            if case["opaque"]:
                labs.append("zero:task-rechunk")
            col.case(case, case["old"] != case["new"], labs)
            for b, d in fails:
                col.fail(b, case, d)

        zbody()
        return col.result()
    if spec.get("unknown"):
        col = Collector()

        @st.composite
        def strat(draw):
            D_ = D(draw)
            rank = D_.int(2, 3)
            shape = [D_.int(2, 8)] + [D_.int(1, 6) for _ in range(rank - 1)]
            chunks = [list(c) for c in gchunks.array_chunks(D_, shape)]
            axes = D_.subset(range(1, rank), 1)
            sp = {str(ax): D_.choice([-1, D_.int(1, shape[ax])]) for ax in axes}
            return {"kind": "unknown", "shape": shape, "chunks": chunks, "k": D_.int(-1, int(np.prod(shape)) // 2), "spec": sp}

        @hypothesis.seed(seed)
        @settings(max_examples=spec["cases"], database=None, deadline=None, derandomize=False, phases=[Phase.generate], suppress_health_check=list(HealthCheck))
        @given(strat())
        def body(case):
            fails = run_unknown_case(case)
            col.case(case, len(case["chunks"][0]) > 1, ["unknown-axis-unchanged"])
            for b, d in fails:
                col.fail(b, case, d)

        body()
        return col.result()
    return progrun.run_program_shard(spec, seed, check, nontrivial, exclude_only=EXCLUDE, strategy_kwargs={"family_weights": WEIGHTS, "min_stmts": 2, "ensure_ops": ("rechunk", "rechunk_auto")})


def plan(tier):
    specs = progrun.plan_cases(tier, 2400, 250000)
    n = specs[0]["cases"]
    specs[-1] = {"cases": max(20, n), "unknown": True}
    specs[-2] = {"cases": max(40, 2 * n), "zero": True}
    return specs


REQUIRED_CLASSES = {
    "quick": ["spec:dict", "spec:seq", "spec:str", "balance", "auto-axes", "limit-binding", "rechunk-in-the-middle", "unknown-axis-unchanged", "rule:Rechunk._lower", "rule:FromArray._simplify_up"],
    "thorough": ["spec:dict", "spec:seq", "spec:str", "balance", "auto-axes", "limit-binding", "rechunk-in-the-middle", "unknown-axis-unchanged", "rule:Rechunk._lower", "rule:FromArray._simplify_up", "rule:Rechunk._simplify_up"],
}
