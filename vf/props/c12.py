"""C12 — indexing follows NumPy semantics for every supported index."""

from __future__ import annotations

import hypothesis
import numpy as np
from hypothesis import HealthCheck, Phase, given, settings
from hypothesis import strategies as st

from vf import progrun, util
from vf.gen import chunks as gchunks
from vf.gen import indices as gidx
from vf.gen.draw import D
from vf.runner import Collector

PROPERTY = "C12"
RULE = (
    "Hypothesis draws (array of rank 1-4, axis lengths 0-9, five chunking families) x (index). Index forms: ints in and "
    "out of bounds, slices with start/stop in [-n-2,n+2] U {None} and steps in {None,+-1,+-2,+-3}, None, Ellipsis, int "
    "lists / NumPy int arrays (negatives, duplicates, empty), per-axis bool lists/arrays, full-shape NumPy bool masks, "
    "dask bool masks (per-axis and full-shape), dask int arrays (0-d, 1-d), two fancy indices, .vindex with "
    "broadcastable int arrays mixed with slices, .blocks with ints/slices/lists, and all of the basic/list forms on an "
    "array with unknown chunk sizes (x[x > k]). Oracle: NumPy on the same data (for .vindex: arrays' subspace first, "
    "then the slices, as documented; for .blocks: concatenation of the selected blocks, ints keep the axis). NumPy "
    "raises IndexError => dask must raise; NumPy succeeds => dask equals it, or raises NotImplementedError, or (two "
    "fancy indices / dask-array indices in vindex / unknown chunk sizes) raises anything. Non-trivial: the index "
    "crosses a block boundary, has a negative step, or has a fancy component; distinct = distinct case JSON."
)
ASSUMPTIONS = [
    "NumPy indexing of the same data is the reference",
    "forms NumPy itself treats specially (two or more fancy indices) may be refused by dask_array with any exception",
    "on arrays with unknown chunk sizes any exception is an allowed refusal; a returned value must equal NumPy's",
]


def data(shape, dtype):
    size = int(np.prod(shape)) if shape else 1
    a = np.arange(size).reshape(shape)
    return (a % 3 == 0) if dtype == "bool" else a.astype(dtype)


# ---- index encoding: gidx.enc plus {"dask": <encoded array>, "chunks": [...]} -------


def _dec_pair(elem):
    """-> (numpy-side element, dask-side builder)"""
    if isinstance(elem, dict) and "dask" in elem:
        arr = gidx.dec(elem["dask"])
        ch = elem.get("chunks")

        def build():
            import dask_array as da

            return da.from_array(np.asarray(arr), chunks=tuple(tuple(c) for c in ch) if ch is not None else -1)

        return np.asarray(arr), build
    if isinstance(elem, dict) and ("intarr" in elem or "boolarr" in elem):
        arr = gidx.dec(elem)
        return arr, (lambda: arr)
    if isinstance(elem, dict) and "list" in elem:
        lst = gidx.dec(elem)
        if lst and isinstance(lst[0], bool):
            return np.array(lst, dtype=bool), (lambda: list(lst))
        return np.array(lst, dtype=np.intp), (lambda: list(lst))
    v = gidx.dec(elem)
    return v, (lambda: v)


def decode_index(enc):
    elems = enc["tuple"]
    pairs = [_dec_pair(e) for e in elems]
    return tuple(p[0] for p in pairs), tuple(p[1]() for p in pairs)


def n_fancy(enc):
    n = 0
    for e in enc["tuple"]:
        if isinstance(e, dict) and ("list" in e or "intarr" in e or "boolarr" in e or "dask" in e):
            n += 1
    return n


# ---- oracles for vindex / blocks ------------------------------------------------------


def np_vindex(a, idx):
    arr_axes = [k for k, e in enumerate(idx) if not isinstance(e, slice)]
    arrays = [np.asarray(idx[k]) for k in arr_axes]
    for k, arr in zip(arr_axes, arrays):
        if arr.size and ((arr < -a.shape[k]).any() or (arr >= a.shape[k]).any()):
            raise IndexError("out of bounds")
    rest = [k for k in range(a.ndim) if k not in arr_axes]
    t = np.transpose(a, arr_axes + rest)
    full = tuple(arrays) + tuple(idx[k] if k < len(idx) else slice(None) for k in rest)
    return t[full]


def np_blocks(a, chunks, idx):
    if not isinstance(idx, tuple):
        idx = (idx,)
    idx = idx + (slice(None),) * (a.ndim - len(idx))
    if len(idx) > a.ndim:
        raise IndexError("too many indices")
    out = a
    for ax, (c, e) in enumerate(zip(chunks, idx)):
        nb = len(c)
        sel = np.arange(nb)[e if not isinstance(e, list) else np.asarray(e, dtype=np.intp)]
        sel = np.atleast_1d(sel)
        b = np.cumsum((0,) + tuple(c))
        pieces = [np.arange(b[i], b[i + 1]) for i in sel]
        pos = np.concatenate(pieces) if pieces else np.arange(0)
        out = np.take(out, pos.astype(np.intp), axis=ax)
    return out


# ---- regions of listed known findings (case-level predicates) ---------------------------


def _is_fancy(e):
    return isinstance(e, dict) and ("list" in e or "intarr" in e or "boolarr" in e or "dask" in e)


def region_multi_fancy_dask(case):
    """>= 2 fancy indices of which at least one is a dask array (orthogonal instead of NumPy's pointwise semantics)."""
    t = case["index"]["tuple"]
    return case["kind"] == "getitem" and n_fancy(case["index"]) >= 2 and any(isinstance(e, dict) and "dask" in e for e in t)


def region_blocks_empty(case):
    """.blocks selection that selects zero blocks along some axis."""
    if case["kind"] != "blocks":
        return False
    for c, e in zip(case["chunks"], case["index"]["tuple"]):
        d = gidx.dec(e)
        try:
            sel = np.atleast_1d(np.arange(len(c))[np.asarray(d, dtype=np.intp) if isinstance(d, list) else d])
        except IndexError:
            return False
        if sel.size == 0:
            return True
    return False


def region_int_and_fancy_separated(case):
    """An integer and a list/array index that are not adjacent (NumPy moves the fancy axis first; dask_array keeps it in place)."""
    if case["kind"] not in ("getitem", "unknown"):
        return False
    t = [e for e in case["index"]["tuple"]]
    adv = [k for k, e in enumerate(t) if _is_fancy(e) or (isinstance(e, int) and not isinstance(e, bool))]
    if not any(_is_fancy(t[k]) for k in adv) or not any(isinstance(t[k], int) for k in adv):
        return False
    return adv[-1] - adv[0] + 1 != len(adv)


def region_vindex_slice(case):
    """.vindex mixing arrays with a slice on an array that has more than one block."""
    if case["kind"] != "vindex":
        return False
    return any(isinstance(e, dict) and "slice" in e for e in case["index"]["tuple"]) and any(len(c) > 1 for c in case["chunks"])


def region_mask_zero_size(case):
    """Full-shape dask boolean mask on an array with a zero-length axis (goes through reshape of a zero-size array)."""
    t = case["index"]["tuple"]
    if not (case["kind"] == "getitem" and 0 in case["shape"] and len(case["shape"]) >= 2 and len(t) == 1 and isinstance(t[0], dict)):
        return False
    m = t[0]["dask"] if "dask" in t[0] else t[0]
    return isinstance(m, dict) and "boolarr" in m and len(m.get("shape", [])) >= 2


def _dask_elem(e, what):
    return isinstance(e, dict) and "dask" in e and what in e["dask"]


def region_dask_int_with_neighbours(case):
    """A dask INTEGER array index next to any other index element (int, None, non-full slice), or followed
    by a second indexing step."""
    if case["kind"] not in ("getitem", "unknown"):
        return False
    t = case["index"]["tuple"]
    if not any(_dask_elem(e, "intarr") for e in t):
        return False
    full = gidx.enc(slice(None))
    return "then" in case or any(not (isinstance(e, dict) and "dask" in e) and e != full for e in t)


def region_dask_bool_then_index(case):
    """A dask BOOLEAN array index (unknown chunk sizes) followed by a second indexing step."""
    if case["kind"] not in ("getitem", "unknown"):
        return False
    return "then" in case and any(_dask_elem(e, "boolarr") for e in case["index"]["tuple"])


REGIONS = {
    "KF-dask-int-index-with-neighbours": region_dask_int_with_neighbours,
    "KF-dask-bool-index-then-index": region_dask_bool_then_index,
    "KF-index-multi-fancy-dask": region_multi_fancy_dask,
    "KF-blocks-empty-selection": region_blocks_empty,
    "KF-index-int-fancy-separated": region_int_and_fancy_separated,
    "KF-vindex-slice-multiblock": region_vindex_slice,
    "KF-reshape-zero-size": region_mask_zero_size,
}


SOFT_REGIONS = {"KF-dask-int-index-with-neighbours", "KF-dask-bool-index-then-index"}


def _register_regions():
    from vf import known

    for fid, fn in REGIONS.items():
        known.PREDICATES["c12:" + fid] = fn


_register_regions()


def excluded(case):
    from vf import exclusions

    open_ids = exclusions._open_ids()
    for fid, fn in REGIONS.items():
        if fid in SOFT_REGIONS:
            continue  # most cases in these regions work: they keep being generated and compared
        if fid in open_ids and fn(case):
            return fid
    return None


# ---- the check ------------------------------------------------------------------------


def run_case(case):
    """-> (labels, failures)"""
    import dask_array as da

    shape = tuple(case["shape"])
    chunks = tuple(tuple(c) for c in case["chunks"])
    assert len(shape) == len(chunks) and all(sum(c) == n for c, n in zip(chunks, shape))
    a = data(shape, case.get("dtype", "i8"))
    kind = case["kind"]
    labs = ["kind:" + kind]
    idx_np, idx_da = decode_index(case["index"])
    nf = n_fancy(case["index"])
    has_dask_idx = any(isinstance(e, dict) and "dask" in e for e in case["index"]["tuple"])
    x = da.from_array(a.copy(), chunks=chunks)
    lenient = False  # any exception is an allowed refusal
    if kind == "unknown":
        k = case["k"]
        if a.ndim == 1:
            src_np = a[a > k]
            x = x[x > k]
        else:
            src_np = a[a[:, 0] > k] if a.ndim == 2 else a[a[:, 0, 0] > k]
            x = x[x[:, 0] > k] if a.ndim == 2 else x[x[:, 0, 0] > k]
        a = src_np
        lenient = True
    # --- NumPy side
    np_raises = None
    exp = None
    try:
        if kind == "vindex":
            exp = np_vindex(a, idx_np)
        elif kind == "blocks":
            exp = np_blocks(a, chunks, idx_np if len(idx_np) != 1 else idx_np[0])
        else:
            exp = a[idx_np]
        if "then" in case:
            exp = exp[gidx.dec(case["then"])]
    except IndexError as e:
        np_raises = e
    except Exception as e:  # other NumPy errors: not a defined case
        raise AssertionError(f"invalid case for NumPy: {type(e).__name__}: {e}")
    full = gidx.enc(slice(None))
    dask_with_others = has_dask_idx and any(not (isinstance(e, dict) and "dask" in e) and e != full for e in case["index"]["tuple"])
    if nf >= 2 or dask_with_others or (kind == "vindex" and has_dask_idx) or ("then" in case and has_dask_idx):
        # Two fancy indices, and any dask-array index combined with other
        # elements, are forms dask_array may refuse ("unsupported raises");
        # a value that IS returned must still be NumPy's.
        lenient = True
    # --- dask side
    stage = "build"
    try:
        if kind == "vindex":
            y = x.vindex[idx_da]
        elif kind == "blocks":
            y = x.blocks[idx_da if len(idx_da) != 1 else idx_da[0]]
        else:
            y = x[idx_da]
        if "then" in case:
            if any(isinstance(v, float) and v != v for ax in y.chunks for v in ax):
                lenient = True  # intermediate has unknown chunk sizes: any refusal is allowed
            y = y[gidx.dec(case["then"])]
        stage = "compute"
        got = y.compute()
    except NotImplementedError:
        labs.append("raised:NotImplementedError")
        return labs, []
    except Exception as e:
        labs.append(f"raised-at-{stage}")
        if np_raises is not None:
            labs.append("both-raise")
            return labs, []
        if lenient and isinstance(e, (IndexError, ValueError, TypeError)):
            # a refusal of an unsupported form; an internal crash (AttributeError, KeyError, AssertionError,
            # RuntimeError ...) is not one
            labs.append("refused-lenient")
            return labs, []
        return labs, [(util.exc_bucket(f"{kind}-{stage}-raises-numpy-accepts", e), util.exc_detail(e))]
    if np_raises is not None:
        return labs, [(f"{kind}|no-raise-on-invalid-index", f"NumPy raises {np_raises!r}; dask returned {util.short(got)}")]
    labs.append("compared")
    why = util.same(got, exp)
    if why is not None:
        # advertised shape is part of "returns what NumPy returns"
        return labs, [(f"{kind}|{why.split(' ')[0]}", f"{why}\n got={util.short(got)}\n exp={util.short(exp)}")]
    ysh = tuple(y.shape)
    if not any(isinstance(s, float) and s != s for s in ysh) and ysh != np.asarray(exp).shape:
        return labs, [(f"{kind}|advertised-shape", f"advertised {ysh}, NumPy {np.asarray(exp).shape}")]
    return labs, []


def replay(case):
    _, fails = run_case(case)
    return fails


# ---- generation -----------------------------------------------------------------------


def _crosses(chunks, idx_enc):
    """Cheap non-triviality: any multi-block axis, negative step or fancy component."""
    if any(len(c) > 1 for c in chunks):
        return True
    s = str(idx_enc)
    return "list" in s or "arr" in s or "dask" in s or ", -" in s


def _gen_fancy(D_, n, allow_dask=True):
    """One fancy element for an axis of length n."""
    kind = D_.weighted([("intlist", 4), ("intarr", 2), ("boollist", 2), ("boolarr", 2), ("dask_bool", 2 if allow_dask else 0), ("dask_int", 2 if allow_dask else 0), ("empty", 1), ("oob", 1)])
    if n == 0 and kind in ("intlist", "intarr", "dask_int", "oob"):
        kind = "empty"
    if kind == "intlist":
        if D_.chance(1, 3):
            # np.repeat-like / sorted runs, possibly longer than the axis (take-style indexers)
            r = D_.int(1, 3)
            lst = [int(v) for v in np.repeat(np.arange(n), r)]
            a0 = D_.int(0, max(0, len(lst) - 1))
            lst = lst[a0 : a0 + D_.int(1, 12)]
            return gidx.enc(lst), "intlist"
        return gidx.enc(gidx.gen_int_list(D_, n, 1, 6)), "intlist"
    if kind == "intarr":
        return gidx.enc(np.array(gidx.gen_int_list(D_, n, 1, 6), dtype=np.intp)), "intarr"
    if kind == "empty":
        return D_.choice([gidx.enc([]), {"intarr": [], "shape": [0]}]), "empty-list"
    if kind == "oob":
        lst = gidx.gen_int_list(D_, n, 1, 4)
        lst[D_.int(0, len(lst) - 1)] = D_.choice([n, -n - 1, n + 2])
        return gidx.enc(lst), "oob-list"
    mask = [D_.bool() for _ in range(n)]
    if kind == "boollist":
        return {"list": mask}, "boollist"
    if kind == "boolarr":
        return gidx.enc(np.array(mask, dtype=bool)), "boolarr"
    if kind == "dask_bool":
        ch = [list(gchunks.axis_chunks(D_, n))] if n else [[0]]
        return {"dask": gidx.enc(np.array(mask, dtype=bool)), "chunks": ch}, "dask-bool-1d"
    # dask int
    if D_.chance(1, 4):
        return {"dask": {"intarr": D_.int(-n, n - 1), "shape": []}, "chunks": []}, "dask-int-0d"
    lst = gidx.gen_int_list(D_, n, 1, 6)
    return {"dask": gidx.enc(np.array(lst, dtype=np.intp)), "chunks": [list(gchunks.axis_chunks(D_, len(lst)))]}, "dask-int-1d"


@st.composite
def case_strategy(draw):
    D_ = D(draw)
    kind = D_.weighted([("getitem", 12), ("vindex", 3), ("blocks", 3), ("unknown", 3)])
    rank = D_.weighted([(1, 4), (2, 5), (3, 3), (4, 1)])
    if kind == "unknown":
        rank = D_.int(1, 3)
    shape = tuple(D_.weighted([(0, 1), (1, 2), (2, 2), (3, 3), (4, 3), (5, 3), (6, 2), (7, 2), (8, 1), (9, 1)]) for _ in range(rank))
    if kind == "unknown":
        shape = tuple(max(1, n) for n in shape)
        if shape[0] < 2:
            shape = (3,) + shape[1:]
    chunks = gchunks.array_chunks(D_, shape)
    case = {"shape": list(shape), "chunks": [list(c) for c in chunks], "dtype": D_.choice(["i8", "f8", "i4", "bool"]), "kind": kind}
    labels = []
    if kind == "blocks":
        nb = [len(c) for c in chunks]
        elems = []
        nlist = 0
        for n in nb[: D_.int(1, rank)]:
            k = D_.weighted([("int", 3), ("slice", 4), ("list", 2 if nlist == 0 else 0), ("full", 2), ("oob", 1)])
            if k == "int":
                elems.append(D_.int(-n, n - 1))
            elif k == "slice":
                elems.append(gidx.enc(gidx.gen_slice(D_, n)))
            elif k == "list":
                nlist += 1
                elems.append(gidx.enc(gidx.gen_int_list(D_, n, 1, 4)))
            elif k == "oob":
                elems.append(D_.choice([n, -n - 1]))
                labels.append("oob-int")
            else:
                elems.append(gidx.enc(slice(None)))
        case["index"] = {"tuple": elems}
        return case, labels
    if kind == "vindex":
        ax_arr = sorted(D_.subset(range(rank), 1))
        bshape_len = D_.int(0, 6)
        elems = []
        for ax in range(rank):
            n = shape[ax]
            if ax in ax_arr:
                if n == 0:
                    elems.append({"intarr": [], "shape": [0]})
                    continue
                form = D_.weighted([("arr", 5), ("list", 3), ("scalar", 1), ("oob", 1), ("dask", 1)])
                if form == "scalar":
                    elems.append(D_.int(-n, n - 1))
                else:
                    vals_ = [D_.int(-n, n - 1) for _ in range(bshape_len)]
                    if form == "oob" and vals_:
                        vals_[0] = n
                        labels.append("oob-list")
                    if form == "list":
                        elems.append(gidx.enc(vals_))
                    elif form == "dask":
                        elems.append({"dask": gidx.enc(np.array(vals_, dtype=np.intp)), "chunks": [[len(vals_)]]})
                    else:
                        elems.append(gidx.enc(np.array(vals_, dtype=np.intp)))
            else:
                elems.append(gidx.enc(gidx.gen_slice(D_, n)))
        case["index"] = {"tuple": elems}
        return case, labels
    if kind == "unknown":
        size0 = shape[0]
        case["k"] = D_.int(-1, max(0, int(np.prod(shape)) // 2))
        case["dtype"] = "i8"
        elems = []
        for ax in range(D_.int(1, rank)):
            n = shape[ax]
            k = D_.weighted([("int", 2 if n else 0), ("slice", 4), ("full", 2), ("list", 1 if n else 0)])
            if k == "int":
                elems.append(D_.int(0, max(0, n - 1)) if ax else 0)
            elif k == "slice":
                elems.append(gidx.enc(gidx.gen_slice(D_, n)))
            elif k == "list":
                elems.append(gidx.enc([0] if ax == 0 else gidx.gen_int_list(D_, n, 1, 3)))
            else:
                elems.append(gidx.enc(slice(None)))
        if sum(1 for e in elems if isinstance(e, dict) and "list" in e) > 1:
            elems = [e if not (isinstance(e, dict) and "list" in e) else gidx.enc(slice(None)) for e in elems]
        case["index"] = {"tuple": elems}
        return case, labels
    # plain getitem
    form = D_.weighted([("basic", 8), ("one-fancy", 8), ("full-mask", 2), ("dask-full-mask", 2), ("two-fancy", 1), ("oob-int", 1), ("too-many", 1)])
    labels.append("form:" + form)
    if form in ("basic", "oob-int", "too-many"):
        idx = list(gidx.gen_basic_index(D_, shape))
        if form == "oob-int":
            ax = D_.int(0, rank - 1)
            n = shape[ax]
            idx = [slice(None)] * rank
            idx[ax] = D_.choice([n, -n - 1, n + 3])
        if form == "too-many":
            idx = [slice(None)] * (rank + 1)
        case["index"] = {"tuple": [gidx.enc(e) for e in idx]}
        return case, labels
    if form in ("full-mask", "dask-full-mask"):
        mask = np.array([D_.bool() for _ in range(int(np.prod(shape)))], dtype=bool).reshape(shape)
        e = gidx.enc(mask)
        if form == "dask-full-mask":
            e = {"dask": e, "chunks": [list(c) for c in (chunks if D_.bool() else gchunks.array_chunks(D_, shape))]}
        case["index"] = {"tuple": [e]}
        return case, labels
    nf = 1 if form == "one-fancy" else 2
    axes = D_.subset(range(rank), nf, nf) if rank >= nf else list(range(rank))
    elems = []
    for ax in range(rank):
        n = shape[ax]
        if ax in axes:
            e, lab = _gen_fancy(D_, n)
            labels.append(lab)
            elems.append(e)
        else:
            k = D_.weighted([("slice", 4), ("full", 4), ("int", 1 if n else 0)])
            elems.append(gidx.enc(gidx.gen_slice(D_, n)) if k == "slice" else (D_.int(-n, n - 1) if k == "int" else gidx.enc(slice(None))))
    if D_.chance(1, 6):
        elems.insert(D_.int(0, len(elems)), None)
        labels.append("with-None")
    if D_.chance(1, 4):
        # drop trailing full slices / replace a run by Ellipsis
        while elems and elems[-1] == gidx.enc(slice(None)):
            elems.pop()
        if not elems:
            elems = ["..."]
    case["index"] = {"tuple": elems}
    return case, labels


@st.composite
def chained_strategy(draw):
    """case_strategy, plus (for plain getitem, 1 in 4) a second basic index applied to the result:
    slice pushdown through list indexers / fused slices only shows on chains."""
    case, labels = draw(case_strategy())
    if case["kind"] == "getitem" and draw(st.integers(0, 3)) == 0:
        try:
            a = data(tuple(case["shape"]), case.get("dtype", "i8"))
            mid = a[tuple(_dec_pair(e)[0] for e in case["index"]["tuple"])]
        except Exception:
            return case, labels
        if mid.ndim >= 1:
            then = gidx.gen_basic_index(D(draw), mid.shape, allow_none=False)
            case = dict(case, then=gidx.enc(then))
            labels = list(labels) + ["chained"]
    return case, labels


def _index_labels(case):
    labs = []
    for e in case["index"]["tuple"]:
        if isinstance(e, dict) and "slice" in e:
            st_ = e["slice"][2]
            if st_ is not None and st_ < 0:
                labs.append("neg-step")
                if e["slice"][1] is not None:
                    labs.append("neg-step-with-stop")
        if e is None:
            labs.append("with-None")
        if e == "...":
            labs.append("with-Ellipsis")
    if any(len(c) > 2 for c in case["chunks"]):
        labs.append("axis>=3-blocks")
    if 0 in case["shape"]:
        labs.append("zero-length-axis")
    return labs


def run_shard(spec, seed):
    col = Collector()

    @hypothesis.seed(seed)
    @settings(max_examples=spec["cases"], database=None, deadline=None, derandomize=False, phases=[Phase.generate], suppress_health_check=list(HealthCheck))
    @given(chained_strategy())
    def body(cl):
        case, labels = cl
        fid = excluded(case)
        if fid:
            col.exclude(fid)
            return
        try:
            labs, fails = run_case(case)
        except AssertionError as e:
            col.reject("numpy-undefined:" + str(e)[:60])
            return
        labels = list(labels) + labs + _index_labels(case)
        col.case(case, _crosses(case["chunks"], case["index"]), labels)
        for b, d in fails:
            col.fail(b, case, d)

    body()
    return col.result()


def plan(tier):
    return progrun.plan_cases(tier, 16000, 800000)


REQUIRED_CLASSES = {
    "quick": ["kind:getitem", "kind:vindex", "kind:blocks", "kind:unknown", "neg-step", "neg-step-with-stop", "intlist", "boolarr", "dask-bool-1d", "dask-int-1d", "dask-int-0d", "form:full-mask", "form:dask-full-mask", "both-raise", "compared", "empty-list", "axis>=3-blocks"],
    "thorough": ["kind:getitem", "kind:vindex", "kind:blocks", "kind:unknown", "neg-step", "neg-step-with-stop", "intlist", "boolarr", "dask-bool-1d", "dask-int-1d", "dask-int-0d", "form:full-mask", "form:dask-full-mask", "both-raise", "compared", "empty-list", "axis>=3-blocks"],
}
