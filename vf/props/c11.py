"""C11 — in-place operations only change their target (stateful engine).

A *history* is a JSON list of steps over a pool of (dask collection, NumPy
mirror) entries.  ``run_history(steps)`` is a plain interpreter (no
Hypothesis); the Hypothesis ``RuleBasedStateMachine`` in ``run_shard`` only
*chooses* the next step (every random choice is a Hypothesis draw), records it
as JSON and hands it to the same interpreter.  An invariant failure is recorded
with ``col.fail`` and ends that history; generation continues with the next one.

Environment knob (triage only, never set by ``./check``): ``VERIF_C11_STEER`` =
comma separated finding ids (or ``all``) that the generator steers around in
addition to the ids that are open in known_findings.json.
"""

from __future__ import annotations

import itertools
import json
import os

import numpy as np

from vf import util
from vf.gen import chunks as gchunks
from vf.gen import indices as gidx
from vf.gen.draw import D
from vf.runner import Collector

PROPERTY = "C11"
RULE = (
    "Hypothesis RuleBasedStateMachine (one run = one history of <= 25/40 steps) over a pool of (collection, NumPy "
    "mirror) entries. Steps: new (from_array over a fresh NumPy source, rank 1-3, axis lengths 0-8, f8/i8/bool, five "
    "chunking families), derive (basic slice incl. negative steps, +1, *2, v+w, sum over an axis, transpose, rechunk, "
    "copy, persist, asarray, v>k, v[v>k] and v[v[:,0]>k] giving unknown chunks; the mirror is a copy; only when "
    "asarray/slice/transpose/rechunk hand back the very same Array object the entry is an alias; a third of the new "
    "members are verified through a throw-away twin so that the pooled object is first computed after a mutation), "
    "setitem (keys: ints, slices of all signs/steps, "
    "Ellipsis, one int list / NumPy int array / 1-d NumPy bool mask / 1-d dask int or bool array on one axis, "
    "full-shape NumPy bool mask, full-shape dask bool mask incl. v>k of the target itself; values: scalar, NumPy array "
    "broadcastable to the selection, fresh dask array, slice of a pool member incl. the target itself, np.ma.masked; "
    "a few invalid assignments), ufunc_out (np/da add, multiply, negative, sin with out=v, where= NumPy/dask masks), "
    "compute_chunk_sizes, compute, compute_all, drop. Oracle: the same NumPy operation on the mirror of the target "
    "only. Invariant: after EVERY mutating step (setitem / ufunc_out / compute_chunk_sizes, also refused or failed "
    "ones) and at the end of the history every live pool member computes `same` as its mirror (values, shape, dtype, "
    "mask, advertised dtype/shape) - one compute() per member, or for a drawn third of the steps ONE joint "
    "dask.compute(*members) over the merged graph - and every source array equals its pristine copy; after "
    "new/derive/compute only the touched member is compared. Non-trivial history: a "
    "collection derived from v (still alive) precedes a successful mutation of v and both are computed afterwards; "
    "distinct = distinct step list."
)
ASSUMPTIONS = [
    "NumPy assignment / ufunc out= semantics on a private copy of the target's value is the reference; other pool members follow value semantics (no view aliasing) unless the operation returned the identical Array object",
    "x[...] = np.ma.masked turns x into a masked array (documented dask behaviour); the mirror is converted with np.ma.array first",
    "assignment forms that dask_array refuses loudly AT ASSIGNMENT TIME are classes, not failures: NotImplementedError, None in the key, a full-shape NumPy bool mask on a >=2-d array, an array value with a full-shape dask mask, an array value for an empty selection, out= larger than the broadcast inputs, any non-mask key on an array with unknown chunk sizes; the refused assignment must leave every pool member unchanged; any other exception at assignment, and every exception at compute time, is a failure",
    "when NumPy raises on the mirror dask_array must raise at assignment or at the next compute of the target",
    "a history ends at its first failing step; regions of listed open findings (known_findings.json, ids in REGION_DOC) are steered around by construction and counted in excluded_known",
]

MAX_POOL = 7
MAX_MUT = 6  # a member is the target of at most this many successful in-place operations (bounds expression depth / cost)
MAX_WEIGHT = 1000  # generator stops growing a member whose expression/graph-construction cost estimate would exceed this
DTYPES = ("i8", "f8", "bool")
REFKEYS = ("src", "tgt", "other")

# regions of defects found by this engine (steered around only while listed open / VERIF_C11_STEER)
KF_MULTIBLOCK = "KF-setitem-dask-operand-multiblock"
KF_INT_BEFORE = "KF-setitem-int-before-int-array-index"
KF_MASKED_DMASK = "KF-setitem-dask-mask-masked-value"
KF_OUT_DTYPE = "KF-ufunc-out-dtype"
KF_SLICE_UOUT = "KF-slice-through-elemwise-out"
KF_DMASK_ARRAY = "KF-setitem-dask-mask-array-value"
KF_NONE_KEY = "KF-setitem-newaxis-key"
KF_DBOOL_BCAST = "KF-setitem-dask-bool-index-broadcast-value"
KF_DINT_ND = "KF-setitem-dask-int-index-nd-value"
KF_LEADING_ONE = "KF-setitem-value-extra-leading-dim"
KF_WHERE_0D = "KF-ufunc-where-0d-out"
KF_NEG_ZERO_CHUNK = "KF-negstep-slice-zero-width-chunk"
KF_MASKED_0D = "KF-setitem-masked-0d"
KF_ZERO_CHUNK_MASK = "KF-zero-width-chunk-layout-drift"
KF_SEPARATED = "KF-index-int-fancy-separated"
KF_RESHAPE0 = "KF-reshape-zero-size"


def _steer(fid):
    env = os.environ.get("VERIF_C11_STEER", "")
    if env:
        ids = {s.strip() for s in env.split(",")}
        if "all" in ids or fid in ids:
            return True
    from vf import exclusions

    return fid in exclusions._open_ids()


# ---------------------------------------------------------------------------------------
# data


def data(shape, dtype, salt):
    shape = tuple(int(n) for n in shape)
    size = int(np.prod(shape)) if shape else 1
    a = (np.arange(size, dtype=np.int64) * (3 + 2 * (salt % 3)) + 7 * salt) % 23 - 6
    a = a.reshape(shape)
    if dtype == "bool":
        return a % 3 == 0
    if dtype == "f8":
        return a.astype("f8") + 0.5
    assert dtype == "i8", dtype
    return a.astype("i8")


def bits_mask(shape, bits):
    shape = tuple(int(n) for n in shape)
    size = int(np.prod(shape)) if shape else 1
    assert isinstance(bits, int) and not isinstance(bits, bool) and bits >= 0
    return np.array([(bits >> i) & 1 for i in range(size)], dtype=bool).reshape(shape)


def _chunks_ok(chunks, shape):
    assert isinstance(chunks, list) and len(chunks) == len(shape), "chunks rank"
    for c, n in zip(chunks, shape):
        assert isinstance(c, list) and c and all(isinstance(v, int) and not isinstance(v, bool) for v in c), "chunks"
        assert sum(c) == n and all(v >= 0 for v in c), "chunks do not fit"
    return tuple(tuple(c) for c in chunks)


def _copy(a):
    if np.ma.isMaskedArray(a):
        return np.ma.array(a, copy=True)
    return np.array(a, copy=True)


class Ent:
    __slots__ = ("coll", "mirror", "eid", "anc", "computed", "nmut", "tainted", "how", "uout", "uwhere", "weight", "tags")

    def __init__(self, coll, mirror, eid, anc, tainted, how):
        self.coll = coll
        self.mirror = mirror
        self.eid = eid
        self.anc = set(anc)
        self.computed = False
        self.nmut = 0
        self.tainted = tainted
        self.how = how
        self.uout = False  # an ufunc out= result is somewhere in this member's expression
        self.uwhere = False  # ... one with where=
        self.weight = 1  # size of the expression written out as a tree (shared sub-expressions counted each time)
        self.tags = set()  # defect regions this member's history went through (see REGION_DOC)

    @property
    def masked(self):
        return np.ma.isMaskedArray(self.mirror)

    @property
    def unknown(self):
        return any(isinstance(s, float) and s != s for s in self.coll.shape)

    @property
    def shape(self):
        return tuple(self.mirror.shape)

    @property
    def dt(self):
        return {"i": "i8", "f": "f8", "b": "bool"}.get(self.mirror.dtype.kind, str(self.mirror.dtype))


# ---------------------------------------------------------------------------------------
# key helpers


def _is_fancy(e):
    return isinstance(e, dict) and any(k in e for k in ("list", "intarr", "boolarr", "dask"))


def _is_int_fancy(e):
    if not _is_fancy(e):
        return False
    if "dask" in e:
        return "intarr" in e["dask"]
    if "list" in e:
        return not (e["list"] and isinstance(e["list"][0], bool))
    return "intarr" in e


def _is_int(e):
    return isinstance(e, int) and not isinstance(e, bool)


def is_full_dmask(key, ndim):
    """The key is a dask bool array covering the whole target (Array.__setitem__ then goes through da.where)."""
    t = key["tuple"]
    if any(isinstance(e, dict) and ("dfull" in e or "dcmp" in e) for e in t):
        return True
    return bool(key.get("bare")) and ndim == 1 and len(t) == 1 and isinstance(t[0], dict) and "dask" in t[0] and "boolarr" in t[0]["dask"]


def has_neg_step(index_enc):
    return any(isinstance(e, dict) and "slice" in e and e["slice"][2] is not None and e["slice"][2] < 0 for e in index_enc["tuple"])


def has_int(index_enc):
    """An integer element in an encoded basic index (such an index can make an operand of the indexed
    expression 0-d when it is pushed down, even if the result itself keeps a dimension)."""
    return any(isinstance(e, int) and not isinstance(e, bool) for e in index_enc["tuple"])


def n_blocks(coll):
    try:
        return max(1, int(np.prod([len(c) for c in coll.chunks])))
    except Exception:
        return 1


def zero_chunk_mix(colls):
    """Several dask operands of which at least one has a zero-width block next to other blocks."""
    try:
        return len(colls) > 1 and any(has_zero_chunk(c) for c in colls)
    except Exception:
        return False


def blocks_may_drift(ent):
    """More than one block, or an in-place operation in the lineage (whose lowering may re-chunk)."""
    return n_blocks(ent.coll) > 1 or ent.nmut > 0 or ent.tainted


def has_zero_chunk(coll):
    try:
        return any(len(c) > 1 and 0 in c for c in coll.chunks)
    except Exception:
        return False


def key_props(key):
    """Structural facts about an encoded key (also used by the known-finding predicates)."""
    t = key["tuple"]
    adv = [k for k, e in enumerate(t) if _is_fancy(e) or _is_int(e)]
    has_f = any(_is_fancy(t[k]) for k in adv)
    has_i = any(_is_int(t[k]) for k in adv)
    separated = has_f and has_i and (adv[-1] - adv[0] + 1 != len(adv))
    int_before = False
    int_before_neg = False
    seen_int = False
    for e in t:
        if _is_int(e):
            seen_int = True
        if _is_fancy(e) and seen_int:
            int_before = True
        if seen_int and isinstance(e, dict) and "slice" in e and e["slice"][2] is not None and e["slice"][2] < 0:
            int_before_neg = True
    dask_multi = any(isinstance(e, dict) and "dask" in e and any(len(c) > 1 for c in e.get("chunks") or []) for e in t)
    return {"separated": separated, "int_before_intarr": int_before, "int_before_negslice": int_before_neg, "dask_index_multiblock": dask_multi}


def key_labels(key):
    labs = []
    for e in key["tuple"]:
        if _is_int(e):
            labs.append("key:neg-int" if e < 0 else "key:int")
        elif e == "...":
            labs.append("key:ellipsis")
        elif e is None:
            labs.append("key:None")
        elif isinstance(e, dict):
            if "slice" in e:
                st_ = e["slice"][2]
                if e["slice"] == [None, None, None]:
                    labs.append("key:full-slice")
                elif st_ is not None and st_ < 0:
                    labs.append("key:neg-step-slice")
                else:
                    labs.append("key:slice")
            elif "list" in e:
                labs.append("key:int-list")
            elif "intarr" in e:
                labs.append("key:np-int-arr")
            elif "boolarr" in e:
                labs.append("key:np-bool-1d")
            elif "dask" in e:
                labs.append("key:dask-int" if "intarr" in e["dask"] else "key:dask-bool-1d")
            elif "npfull" in e:
                labs.append("key:np-bool-full")
            elif "dfull" in e:
                labs.append("key:dask-bool-full")
            elif "dcmp" in e:
                labs.append("key:dask-bool-full")
                labs.append("key:dask-mask-from-pool")
    if not key["tuple"]:
        labs.append("key:empty-tuple")
    return labs


_KIND_ORDER = [
    "key:dask-bool-full",
    "key:np-bool-full",
    "key:dask-int",
    "key:dask-bool-1d",
    "key:int-list",
    "key:np-int-arr",
    "key:np-bool-1d",
    "key:None",
    "key:neg-step-slice",
    "key:slice",
    "key:neg-int",
    "key:int",
    "key:ellipsis",
    "key:full-slice",
    "key:empty-tuple",
]


def key_kind(key):
    labs = set(key_labels(key))
    for k in _KIND_ORDER:
        if k in labs:
            return k[4:]
    return "other"


def value_kind(val):
    if val == "masked":
        return "masked"
    if "scalar" in val:
        return "scalar"
    if "arr" in val:
        return "array"
    if "dnew" in val:
        return "dask"
    if "dpool" in val:
        return "dask-pool"
    raise AssertionError("bad value")


# ---------------------------------------------------------------------------------------
# interpreter


_MISSING = object()


class Interp:
    """Executes steps.  ``apply(step)`` returns the list of (bucket, detail) failures of that step (empty =
    invariant held) and raises AssertionError on a step that is not valid in the current state."""

    def __init__(self):
        self.pool = []  # index -> Ent | None
        self.sources = []  # (array handed to from_array, pristine copy)
        self.labels = set()
        self.counts = {"steps": 0, "computes": 0, "np-raises": 0}
        self.rejects = []  # outside-domain observations (counted, not failures)
        self.excluded = []
        self._eid = 0
        self.nontrivial = False
        self.ended = False
        self.tags = set()  # ids of the defect regions the step being applied lies in

    # ---- pool access
    def ent(self, i):
        assert isinstance(i, int) and not isinstance(i, bool) and 0 <= i < len(self.pool), f"bad pool index {i!r}"
        e = self.pool[i]
        assert e is not None, f"pool member {i} is gone"
        return e

    def live(self):
        out, seen = [], set()
        for i, e in enumerate(self.pool):
            if e is not None and e.eid not in seen:
                seen.add(e.eid)
                out.append((i, e))
        return out

    def n_live(self):
        return len(self.live())

    def _new_ent(self, coll, mirror, anc, tainted, how):
        self._eid += 1
        return Ent(coll, mirror, self._eid, anc, tainted, how)

    # ---- comparison
    def _compare(self, ent, got=_MISSING):
        """-> (None | short reason, detail, exception | None); ``got`` = value from a joint dask.compute"""
        if got is _MISSING:
            self.counts["computes"] += 1
            try:
                got = ent.coll.compute()
            except Exception as e:
                return "raises", util.exc_detail(e), e
        ent.computed = True
        why = util.same(got, ent.mirror)
        if why is None:
            # the advertised metadata is part of "computes to the NumPy result"
            adv = ent.coll.dtype
            if adv != ent.mirror.dtype:
                why = f"advertised-dtype {adv} != {ent.mirror.dtype}"
            else:
                ash = tuple(ent.coll.shape)
                if not any(isinstance(n, float) and n != n for n in ash) and ash != tuple(ent.mirror.shape):
                    why = f"advertised-shape {ash} != {tuple(ent.mirror.shape)}"
        if why is None and np.ma.isMaskedArray(ent.mirror) != np.ma.isMaskedArray(got) and np.ma.getmaskarray(ent.mirror).any():
            why = "mask lost"
        if why is None:
            return None, "", None
        return why.split(" ")[0], f"{why}\n got={_short(got)}\n exp={_short(ent.mirror)}", None

    def _relation(self, m, t):
        if t is None:
            return "unrelated"
        if m is t:
            return "target"
        if t.eid in m.anc:
            return "derived-before"
        if m.eid in t.anc:
            return "ancestor"
        return "unrelated"

    def check_all(self, step_kind, target=None, target_bucket=None, joint=False):
        """Compare every live member with its mirror: one ``compute()`` per member, or (``joint``) ONE
        ``dask.compute(*members)`` over a merged graph in which blocks are shared between the members."""
        fails = []
        seen = set()
        live = self.live()
        gots = {}
        joint_exc = None
        if joint and len(live) >= 2:
            import dask

            self.labels.add("joint-compute")
            self.counts["computes"] += len(live)
            try:
                res = dask.compute(*[e.coll for _, e in live])
                gots = {e.eid: r for (_, e), r in zip(live, res)}
            except Exception as e:
                joint_exc = e  # attribute it with per-member computes below

        def add(b, d):
            if b not in seen:
                seen.add(b)
                fails.append((b, d))

        for i, ent in live:
            why, detail, exc = self._compare(ent, gots.get(ent.eid, _MISSING))
            if why is None:
                continue
            rel = self._relation(ent, target)
            self.tags |= ent.tags
            head = f"member {i} ({ent.how}, relation to target: {rel})\n"
            if rel == "target":
                if exc is not None:
                    add(util.exc_bucket(f"target-raises|{step_kind}", exc), head + detail)
                else:
                    add(f"target-wrong|{target_bucket or step_kind}|{why}", head + detail)
            elif exc is not None:
                add(util.exc_bucket(f"pool-member-raises|{step_kind}|{rel}", exc), head + detail)
            else:
                add(f"pool-member-changed|{step_kind}|{rel}|{why}", head + detail)
        for k, (arr, pristine) in enumerate(self.sources):
            if not (arr.shape == pristine.shape and arr.dtype == pristine.dtype and np.array_equal(arr, pristine)):
                add(f"source-mutated|{step_kind}", f"source array {k} changed:\n now={_short(arr)}\n was={_short(pristine)}")
        if joint_exc is not None and not fails:
            for _, ent in live:
                self.tags |= ent.tags
            add(util.exc_bucket(f"joint-compute-raises|{step_kind}", joint_exc), util.exc_detail(joint_exc))
        return fails

    # ---- decoding shared by setitem / ufunc_out
    def _dask_from(self, arr, chunks):
        import dask_array as da

        return da.from_array(np.array(arr, copy=True), chunks=chunks)

    def _basic_index(self, enc):
        assert isinstance(enc, dict) and isinstance(enc.get("tuple"), list), "bad index"
        out = []
        for e in enc["tuple"]:
            if _is_int(e):
                out.append(e)
            elif e == "...":
                out.append(Ellipsis)
            elif isinstance(e, dict) and "slice" in e:
                s = e["slice"]
                assert isinstance(s, list) and len(s) == 3 and all(v is None or _is_int(v) for v in s) and s[2] != 0, "bad slice"
                out.append(slice(*s))
            else:
                raise AssertionError(f"not a basic index element: {e!r}")
        return tuple(out)

    def _cmp_mask(self, spec):
        """{"src": j, "k": k} -> (numpy mask, dask mask, ent)"""
        assert isinstance(spec, dict) and _is_int(spec.get("k")), "bad dcmp"
        w = self.ent(spec["src"])
        assert not w.masked, "dcmp source"
        return np.asarray(w.mirror > spec["k"]), w.coll > spec["k"], w

    def _fresh_mask(self, spec, dask):
        shape = [int(n) for n in spec["shape"]]
        m = bits_mask(shape, spec["bits"])
        if not dask:
            return m, m
        ch = _chunks_ok(spec["chunks"], shape)
        return m, self._dask_from(m, ch)

    def decode_key(self, key, tgt):
        assert isinstance(key, dict) and isinstance(key.get("tuple"), list), "bad key"
        np_k, da_k, deps = [], [], []
        for e in key["tuple"]:
            if isinstance(e, dict) and "npfull" in e:
                m, _ = self._fresh_mask(e["npfull"], False)
                np_k.append(m)
                da_k.append(m)
            elif isinstance(e, dict) and "dfull" in e:
                m, dm = self._fresh_mask(e["dfull"], True)
                np_k.append(m)
                da_k.append(dm)
            elif isinstance(e, dict) and "dcmp" in e:
                m, dm, w = self._cmp_mask(e["dcmp"])
                np_k.append(m)
                da_k.append(dm)
                deps.append(w)
            elif isinstance(e, dict) and "dask" in e:
                arr = gidx.dec(e["dask"])
                assert isinstance(arr, np.ndarray) and arr.ndim == 1, "dask index must be 1-d"
                ch = _chunks_ok(e["chunks"], list(arr.shape))
                np_k.append(arr)
                da_k.append(self._dask_from(arr, ch))
            elif isinstance(e, dict) and ("intarr" in e or "boolarr" in e):
                arr = gidx.dec(e)
                np_k.append(arr)
                da_k.append(arr)
            elif isinstance(e, dict) and "list" in e:
                lst = gidx.dec(e)
                assert all(_is_int(v) for v in lst), "int list"
                np_k.append(list(lst))
                da_k.append(list(lst))
            elif e is None:
                np_k.append(None)
                da_k.append(None)
            else:
                (b,) = self._basic_index({"tuple": [e]})
                np_k.append(b)
                da_k.append(b)
        if key.get("bare"):
            assert len(np_k) == 1, "bare key needs one element"
            return np_k[0], da_k[0], deps
        return tuple(np_k), tuple(da_k), deps

    def decode_value(self, val, tgt):
        """-> (numpy value, dask-side value, dependency ents, labels)"""
        if val == "masked":
            return np.ma.masked, np.ma.masked, [], ["key:masked-value", "value:masked"]
        assert isinstance(val, dict), "bad value"
        if "scalar" in val:
            s = val["scalar"]
            assert isinstance(s, (int, float, bool)), "scalar"
            return s, s, [], ["value:scalar"]
        if "arr" in val or "dnew" in val:
            spec = val.get("arr") or val["dnew"]
            assert spec["dtype"] in DTYPES
            a = data(spec["shape"], spec["dtype"], int(spec["salt"]))
            if "arr" in val:
                return a, a.copy(), [], ["value:array"]
            ch = _chunks_ok(spec["chunks"], list(a.shape))
            labs = ["value:dask"]
            if any(len(c) > 1 for c in ch):
                labs.append("value:dask-multiblock")
            return a, self._dask_from(a, ch), [], labs
        if "dpool" in val:
            spec = val["dpool"]
            w = self.ent(spec["src"])
            assert not w.masked and not w.unknown, "dpool source"
            idx = self._basic_index(spec["index"])
            if w.uout:
                self.tags.add(KF_SLICE_UOUT)
            if has_neg_step(spec["index"]) and has_zero_chunk(w.coll):
                self.tags.add(KF_NEG_ZERO_CHUNK)
            try:
                if w.uwhere and np.ndim(w.mirror[idx]) == 0:
                    self.tags.add(KF_WHERE_0D)
                vm = _copy(w.mirror[idx])
            except IndexError as e:
                raise AssertionError(f"dpool index invalid: {e}")
            vd = w.coll[idx]
            if spec.get("one"):
                vd = vd.rechunk(tuple((int(n),) for n in vm.shape)) if vm.ndim else vd
            labs = ["value:dask", "value:dask-pool"]
            if getattr(vd, "npartitions", 1) > 1:
                labs.append("value:dask-multiblock")
            if not spec.get("one") and vm.ndim and blocks_may_drift(w):
                # the advertised block count of the value can differ from the lowered one (chunk unification in
                # where()/elemwise): SetItem then meets a multi-block value after all
                self.tags.add(KF_MULTIBLOCK)
            if w is tgt or tgt.eid in w.anc:
                labs.append("value:derived-from-target")
            return vm, vd, [w], labs
        raise AssertionError("bad value")

    # ---- steps
    def apply(self, step):
        assert not self.ended, "history already ended"
        assert isinstance(step, dict) and isinstance(step.get("op"), str), "bad step"
        self.counts["steps"] += 1
        fn = getattr(self, "op_" + step["op"], None)
        assert fn is not None, f"unknown op {step['op']!r}"
        self.labels.add("step:" + step["op"])
        self.tags = set()
        fails = fn(step)
        for tag in self.tags:
            self.labels.add("region:" + tag)
        if fails:
            self.ended = True
        return fails

    def finish(self):
        if self.ended:
            return []
        self.ended = True
        return self.check_all("end")

    def _register(self, coll, twin, mirror, anc, tainted, how, cold, kind, lineage_tags=()):
        """Append a new member; verify it at creation (through a throw-away twin object when ``cold``)."""
        ent = self._new_ent(coll, mirror, anc, tainted, how)
        self.pool.append(ent)
        if cold and twin is not None:
            self._eid += 1
            probe = Ent(twin, mirror, -1, anc, tainted, how)
            why, detail, exc = self._compare(probe)
            self.labels.add("created-cold")
        else:
            why, detail, exc = self._compare(ent)
        if why is None:
            return []
        self.pool[-1] = None
        self.tags |= set(lineage_tags)
        if tainted:
            b = util.exc_bucket(f"pool-member-raises|{kind}|derived-after", exc) if exc is not None else f"pool-member-changed|{kind}|derived-after|{why}"
            return [(b, f"new member ({how}) derived from a collection that was mutated earlier\n" + detail)]
        # no in-place operation in its lineage: outside C11 (C01/C12 territory) -> counted, history ends
        self.rejects.append(f"derive-mismatch-without-mutation:{how}:{why}")
        self.ended = True
        return []

    def op_new(self, step):
        import dask_array as da

        shape = step["shape"]
        assert isinstance(shape, list) and 1 <= len(shape) <= 3 and all(_is_int(n) and 0 <= n <= 8 for n in shape), "shape"
        assert step["dtype"] in DTYPES
        ch = _chunks_ok(step["chunks"], shape)
        a = data(shape, step["dtype"], int(step["salt"]))
        self.sources.append((a, a.copy()))
        x = da.from_array(a, chunks=ch)
        twin = da.from_array(a, chunks=ch) if step.get("cold") else None
        self.labels.add("dtype:" + step["dtype"])
        if 0 in shape:
            self.labels.add("zero-length-axis")
        if any(len(c) > 1 for c in ch):
            self.labels.add("multi-block")
        return self._register(x, twin, a.copy(), (), False, "new", step.get("cold"), "new")

    def _derive_fn(self, step, v):
        """-> (function on a collection, function on the mirror, extra ancestor ents)"""
        kind = step["kind"]
        m = v.mirror
        if kind == "slice":
            idx = self._basic_index(step["index"])
            assert not v.unknown
            try:
                r0 = m[idx]
            except IndexError as e:
                raise AssertionError(f"invalid slice: {e}")
            if v.uwhere and (np.ndim(r0) == 0 or has_int(step["index"])):
                self.tags.add(KF_WHERE_0D)
            # NumPy hands out the float64 constant np.ma.masked for a masked 0-d element: not a usable reference
            assert not (v.masked and np.ndim(r0) == 0), "0-d selection of a masked array"
            return (lambda c: c[idx]), (lambda a: a[idx]), []
        if kind == "add1":
            return (lambda c: c + 1), (lambda a: a + 1), []
        if kind == "mul2":
            return (lambda c: c * 2), (lambda a: a * 2), []
        if kind == "addw":
            w = self.ent(step["other"])
            assert w.shape == v.shape and not w.unknown and not v.unknown and not w.masked and not v.masked, "addw operands"
            return (lambda c: c + w.coll), (lambda a: a + w.mirror), [w]
        if kind == "sum":
            ax = step["axis"]
            assert _is_int(ax) and 0 <= ax < m.ndim and not v.unknown and not v.masked, "sum axis"
            return (lambda c: c.sum(axis=ax)), (lambda a: a.sum(axis=ax)), []
        if kind == "transpose":
            axes = step["axes"]
            assert sorted(axes) == list(range(m.ndim)) and not v.unknown, "axes"
            return (lambda c: c.transpose(tuple(axes))), (lambda a: a.transpose(tuple(axes))), []
        if kind == "rechunk":
            assert not v.unknown
            ch = _chunks_ok(step["chunks"], list(m.shape))
            return (lambda c: c.rechunk(ch)), (lambda a: a), []
        if kind == "copy":
            return (lambda c: c.copy()), (lambda a: a), []
        if kind == "persist":
            return (lambda c: c.persist()), (lambda a: a), []
        if kind == "asarray":
            import dask_array as da

            return (lambda c: da.asarray(c)), (lambda a: a), []
        if kind == "gt":
            k = step["k"]
            assert _is_int(k) and not v.masked and not v.unknown
            return (lambda c: c > k), (lambda a: a > k), []
        if kind == "boolmask":
            k = step["k"]
            assert _is_int(k) and not v.masked and not v.unknown and m.ndim >= 1
            assert m.ndim == 1 or m.size > 0, "zero-size full mask (KF-reshape-zero-size)"
            return (lambda c: c[c > k]), (lambda a: a[a > k]), []
        if kind == "rowmask":
            k = step["k"]
            assert _is_int(k) and not v.masked and not v.unknown and m.ndim >= 2 and all(n > 0 for n in m.shape[1:])
            sel = (slice(None),) + (0,) * (m.ndim - 1)
            return (lambda c: c[c[sel] > k]), (lambda a: a[a[sel] > k]), []
        raise AssertionError(f"unknown derive kind {kind!r}")

    def op_derive(self, step):
        v = self.ent(step["src"])
        kind = step["kind"]
        assert isinstance(kind, str)
        fc, fm, extra = self._derive_fn(step, v)
        self.labels.add("derive:" + kind)
        if v.uout and kind in ("slice", "boolmask", "rowmask"):
            self.tags.add(KF_SLICE_UOUT)
        if kind == "slice" and has_neg_step(step["index"]) and has_zero_chunk(v.coll):
            self.tags.add(KF_NEG_ZERO_CHUNK)
        if kind in ("boolmask", "rowmask") and has_zero_chunk(v.coll):
            self.tags.add(KF_ZERO_CHUNK_MASK)
        try:
            y = fc(v.coll)
        except NotImplementedError:
            self.pool.append(None)
            self.labels.add("derive-refused")
            return []
        except Exception as e:
            self.pool.append(None)
            self.tags |= v.tags | {x for w in extra for x in w.tags}
            if v.tainted or v.nmut:
                return [(util.exc_bucket(f"derive-raises-after-mutation|{kind}", e), util.exc_detail(e))]
            self.rejects.append(f"derive-raises-without-mutation:{kind}:{type(e).__name__}")
            self.ended = True
            return []
        if y is v.coll and kind in ("asarray", "slice", "transpose", "rechunk"):
            # the operation handed back the very same object (NumPy: np.asarray(a) is a, a[:] / a.T are views; rechunk to
            # the same chunks has no NumPy counterpart): one shared entry.  copy() / persist() / arithmetic never alias.
            self.pool.append(v)
            self.labels.add("alias")
            return []
        mirror = _copy(fm(v.mirror))
        anc = set(v.anc) | {v.eid}
        tainted = v.tainted or v.nmut > 0
        for w in extra:
            anc |= w.anc | {w.eid}
            tainted = tainted or w.tainted or w.nmut > 0
        twin = fc(v.coll) if step.get("cold") else None
        if kind in ("boolmask", "rowmask"):
            self.labels.add("unknown-chunks-member")
        if tainted:
            self.labels.add("derived-after-mutation")
        lineage = v.tags | {x for w in extra for x in w.tags}
        fails = self._register(y, twin, mirror, anc, tainted, kind, step.get("cold"), "derive", lineage)
        if self.pool[-1] is not None:
            self.pool[-1].uout = v.uout or any(w.uout for w in extra)
            self.pool[-1].uwhere = v.uwhere or any(w.uwhere for w in extra)
            self.pool[-1].weight = 1 + v.weight * (2 if kind in ("boolmask", "rowmask") else 1) + sum(w.weight for w in extra)
            self.pool[-1].tags = set(self.tags) | v.tags | {x for w in extra for x in w.tags}
            if extra and zero_chunk_mix([v.coll] + [w.coll for w in extra]):
                self.pool[-1].tags.add(KF_ZERO_CHUNK_MASK)
        return fails

    def op_drop(self, step):
        e = self.ent(step["src"])
        assert self.n_live() > 1 or sum(1 for p in self.pool if p is e) > 1, "cannot drop the last member"
        self.pool[step["src"]] = None
        return []

    def op_compute(self, step):
        e = self.ent(step["src"])
        why, detail, exc = self._compare(e)
        if why is None:
            return []
        b = util.exc_bucket("pool-member-raises|compute|self", exc) if exc is not None else f"pool-member-changed|compute|self|{why}"
        return [(b, detail)]

    def op_compute_all(self, step):
        return self.check_all("compute_all", joint=bool(step.get("joint")))

    def op_compute_chunk_sizes(self, step):
        t = self.ent(step["src"])
        was_unknown = t.unknown
        self.labels.add("compute_chunk_sizes")
        self.labels.add("ccs:unknown" if was_unknown else "ccs:known")
        if t.uout:
            self.tags.add(KF_SLICE_UOUT)  # compute_chunk_sizes slices a map_blocks of the collection
        if KF_ZERO_CHUNK_MASK in t.tags or (has_zero_chunk(t.coll) and t.how != "compute_chunk_sizes"):
            self.tags.add(KF_ZERO_CHUNK_MASK)  # anything built on top of zero-width blocks (u > 0, u + 1, u[mask] = v)
        others = [e for _, e in self.live() if e is not t and t.eid in e.anc]
        if t.computed:
            self.labels.add("mutation-after-compute")
        try:
            r = t.coll.compute_chunk_sizes()
        except Exception as e:
            self.tags |= t.tags
            return [(util.exc_bucket("compute_chunk_sizes-raises", e), util.exc_detail(e))]
        t.nmut += 1
        t.how = "compute_chunk_sizes"
        if others:
            self.labels.add("derived-before-mutation")
            self.nontrivial = True
        fails = self.check_all("compute_chunk_sizes", t, "compute_chunk_sizes", joint=bool(step.get("joint")))
        if not fails:
            ch = t.coll.chunks
            flat = [c for ax in ch for c in ax]
            if r is not t.coll:
                fails.append(("target-wrong|compute_chunk_sizes|not-in-place", "compute_chunk_sizes did not return the array itself"))
            elif any(c != c for c in flat) or tuple(sum(ax) for ax in ch) != t.shape:
                fails.append(("target-wrong|compute_chunk_sizes|chunks", f"chunks after compute_chunk_sizes: {ch}, value shape {t.shape}"))
        return fails

    # ---- setitem
    def op_setitem(self, step):
        t = self.ent(step["tgt"])
        key, val = step["key"], step["value"]
        kk, vk = key_kind(key), value_kind(val)
        np_key, da_key, kdeps = self.decode_key(key, t)
        np_val, da_val, vdeps, vlabs = self.decode_value(val, t)
        labs = key_labels(key) + vlabs
        if val != "masked" and np.ndim(np_val):
            try:
                if tuple(np.shape(np_val)) != tuple(np.shape(t.mirror[np_key])):
                    labs.append("value:broadcast")
            except Exception:
                pass
        expect = step.get("expect", "ok")
        assert expect in ("ok", "raise"), "expect"
        # --- defect regions this assignment lies in (see REGIONS)
        props = key_props(key)
        nonscalar = val != "masked" and np.ndim(np_val) > 0
        dmask_key = is_full_dmask(key, t.mirror.ndim)
        try:
            sel = tuple(np.shape(t.mirror[np_key]))
        except Exception:
            sel = None
        if not dmask_key and (props["dask_index_multiblock"] or getattr(da_val, "npartitions", 1) > 1):
            self.tags.add(KF_MULTIBLOCK)
        if (props["int_before_intarr"] and nonscalar) or props["int_before_negslice"]:
            self.tags.add(KF_INT_BEFORE)
        if dmask_key and (val == "masked" or t.masked):
            self.tags.add(KF_MASKED_DMASK)
        if dmask_key and nonscalar:
            self.tags.add(KF_DMASK_ARRAY)
        if any(e is None for e in key["tuple"]):
            self.tags.add(KF_NONE_KEY)
        if val == "masked" and t.mirror.ndim == 0:
            self.tags.add(KF_MASKED_0D)
        if dmask_key and zero_chunk_mix([t.coll] + [k for k in (da_key if isinstance(da_key, tuple) else (da_key,)) if hasattr(k, "chunks")]):
            t.tags.add(KF_ZERO_CHUNK_MASK)  # the assignment itself is fine; a later compute_chunk_sizes is not
        if has_neg_step(key) and has_zero_chunk(t.coll):
            self.tags.add(KF_NEG_ZERO_CHUNK)
        if nonscalar and sel is not None and np.ndim(np_val) > len(sel):
            self.tags.add(KF_LEADING_ONE)
        if nonscalar and not dmask_key and any(isinstance(e, dict) and "dask" in e for e in key["tuple"]):
            is_bool = any(isinstance(e, dict) and "dask" in e and "boolarr" in e["dask"] for e in key["tuple"])
            if is_bool and tuple(np.shape(np_val)) != sel:
                self.tags.add(KF_DBOOL_BCAST)
            if not is_bool and np.ndim(np_val) >= 2:
                self.tags.add(KF_DINT_ND)
        # --- NumPy side, on a private copy
        m2 = _copy(t.mirror)
        if val == "masked" and not np.ma.isMaskedArray(m2):
            m2 = np.ma.array(m2, copy=True)
        np_exc = None
        try:
            m2[np_key] = np_val
        except (IndexError, ValueError, TypeError) as e:
            np_exc = e
        assert (np_exc is not None) == (expect == "raise"), f"NumPy {'raised ' + repr(np_exc) if np_exc else 'accepted'}; step expects {expect}"
        if np_exc is not None:
            self.counts["np-raises"] += 1
        had_derived = any(e is not t and t.eid in e.anc for _, e in self.live())
        was_computed = t.computed
        # --- dask side
        try:
            t.coll[da_key] = da_val
        except Exception as e:
            form = self._refusal_form(key, val, t, np_val, m2 if np_exc is None else None, np_key)
            if np_exc is not None:
                self.labels.add("both-raise")
            elif isinstance(e, NotImplementedError):
                self.labels.add("refused:NotImplementedError")
            elif form is not None:
                self.labels.add("refused:" + form)
            else:
                return [(util.exc_bucket("setitem-raises-numpy-accepts", e), util.exc_detail(e))]
            # a refused assignment must not have touched anything
            return self.check_all("setitem-refused", t, f"refused|{kk}|{vk}")
        if np_exc is not None:
            # accepted lazily: must raise when the target is computed
            self.counts["computes"] += 1
            try:
                got = t.coll.compute()
            except Exception:
                self.labels.add("both-raise")
                self.labels.add("raise-at-compute")
                for i, e in enumerate(self.pool):
                    if e is t:
                        self.pool[i] = None
                return self.check_all("setitem-invalid", None)
            return [(f"invalid-assignment-accepted|{kk}|{type(np_exc).__name__}", f"NumPy raises {np_exc!r}; dask computed {_short(got)}")]
        # --- success on both sides
        t.mirror = m2
        t.nmut += 1
        t.how = "setitem"
        old_weight = t.weight
        for w in kdeps + vdeps:
            if w is not t:
                t.anc |= w.anc | {w.eid}
            t.uout = t.uout or w.uout
            t.uwhere = t.uwhere or w.uwhere
        # SetItem materialises the value's whole graph once per target block (nested self-referential assignments
        # cost blocks**depth); a full-shape dask mask goes through da.where instead
        mult = 1 if dmask_key else n_blocks(t.coll)
        t.weight = old_weight + 1 + sum((old_weight if w is t else w.weight) for w in kdeps) + mult * sum((old_weight if w is t else w.weight) for w in vdeps)
        if not dmask_key and any(isinstance(e, dict) and "dask" in e for e in key["tuple"]):
            t.weight += mult
        t.tags |= self.tags | {x for w in kdeps + vdeps for x in w.tags}
        t.anc.discard(t.eid)
        for lab in labs:
            self.labels.add(lab)
        self.labels.add("dtype-target:" + t.dt)
        if t.nmut >= 2:
            self.labels.add("mutated-twice")
        if t.anc:
            self.labels.add("mutate-derived")
        self.labels.add("mutation-after-compute" if was_computed else "mutation-before-first-compute")
        if had_derived:
            self.labels.add("derived-before-mutation")
            self.nontrivial = True
        return self.check_all("setitem", t, f"{kk}|{vk}", joint=bool(step.get("joint")))

    def _refusal_form(self, key, val, t, np_val, m_after, np_key):
        """Name of the enumerated by-design refusal this assignment falls under, else None."""
        tup = key["tuple"]
        if any(e is None for e in tup):
            return "key-None"
        if t.unknown and not any(isinstance(e, dict) and ("dfull" in e or "dcmp" in e) for e in tup):
            return "unknown-chunks-target"
        nd = np.ndim(np_val) if val != "masked" else 0
        if any(isinstance(e, dict) and "npfull" in e for e in tup) and t.mirror.ndim >= 2:
            return "np-bool-full-nd"
        if is_full_dmask(key, t.mirror.ndim) and nd > 0:
            return "dask-mask-array-value"
        if val != "masked" and nd > 0:
            try:
                sel = t.mirror[np_key].shape
            except Exception:
                sel = ()
            if 0 in sel:
                return "empty-selection-array-value"
        return None

    # ---- ufunc out=
    def _ufunc_input(self, spec):
        assert isinstance(spec, dict), "input"
        if "scalar" in spec:
            s = spec["scalar"]
            assert isinstance(s, (int, float, bool))
            return s, s, None
        w = self.ent(spec["src"])
        assert not w.masked and not w.unknown, "ufunc input"
        if spec.get("index") is None:
            return w.mirror, w.coll, w
        idx = self._basic_index(spec["index"])
        if w.uout:
            self.tags.add(KF_SLICE_UOUT)
        try:
            if w.uwhere and np.ndim(w.mirror[idx]) == 0:
                self.tags.add(KF_WHERE_0D)
            return w.mirror[idx], w.coll[idx], w
        except IndexError as e:
            raise AssertionError(f"ufunc input index: {e}")

    def op_ufunc_out(self, step):
        import dask_array as da

        t = self.ent(step["tgt"])
        assert not t.masked and not t.unknown, "ufunc target"
        fn = step["fn"]
        assert fn in ("add", "multiply", "negative", "sin") and step["api"] in ("np", "da")
        ins = [self._ufunc_input(s) for s in step["ins"]]
        assert len(ins) == (2 if fn in ("add", "multiply") else 1), "arity"
        assert any(w is not None for _, _, w in ins), "need a dask input"
        wh = step.get("where")
        deps = [w for _, _, w in ins if w is not None]
        if wh is None:
            np_where, da_where, wk = True, None, "none"
        elif "npmask" in wh:
            np_where, da_where = self._fresh_mask(wh["npmask"], False)
            wk = "np"
        elif "dmask" in wh:
            np_where, da_where = self._fresh_mask(wh["dmask"], True)
            wk = "dask"
        elif "dcmp" in wh:
            np_where, da_where, w = self._cmp_mask(wh["dcmp"])
            deps.append(w)
            wk = "dask-pool"
        else:
            raise AssertionError("bad where")
        expect = step.get("expect", "ok")
        m2 = _copy(t.mirror)
        npf = getattr(np, fn)
        np_exc = None
        try:
            with np.errstate(all="ignore"):
                npf(*[a for a, _, _ in ins], out=m2, where=np_where)
        except (TypeError, ValueError) as e:
            np_exc = e
        assert (np_exc is not None) == (expect == "raise"), f"NumPy {'raised ' + repr(np_exc) if np_exc else 'accepted'}; step expects {expect}"
        if wh is not None and t.mirror.ndim == 0:
            self.tags.add(KF_WHERE_0D)
        if np_exc is None:
            with np.errstate(all="ignore"):
                if np.asarray(npf(*[a for a, _, _ in ins])).dtype != t.mirror.dtype:
                    self.tags.add(KF_OUT_DTYPE)
                    self.labels.add("ufunc-out-casts")
        had_derived = any(e is not t and t.eid in e.anc for _, e in self.live())
        was_computed = t.computed
        f = npf if step["api"] == "np" else getattr(da, fn)
        kwargs = {"out": t.coll}
        if da_where is not None:
            kwargs["where"] = da_where
        self.labels.add("ufunc-out")
        try:
            r = f(*[d for _, d, _ in ins], **kwargs)
        except Exception as e:
            if np_exc is not None:
                self.labels.add("ufunc-both-raise")
            elif step.get("form") == "out-bigger":
                self.labels.add("refused:out-bigger-than-inputs")
            elif isinstance(e, NotImplementedError):
                self.labels.add("refused:NotImplementedError")
            else:
                return [(util.exc_bucket("ufunc-out-raises-numpy-accepts", e), util.exc_detail(e))]
            return self.check_all("ufunc_out-refused", t, f"refused|ufunc-out|{fn}")
        if np_exc is not None:
            self.counts["computes"] += 1
            try:
                got = t.coll.compute()
            except Exception:
                self.labels.add("ufunc-both-raise")
                for i, e in enumerate(self.pool):
                    if e is t:
                        self.pool[i] = None
                return self.check_all("ufunc_out-invalid", None)
            return [(f"invalid-ufunc-out-accepted|{fn}|{type(np_exc).__name__}", f"NumPy raises {np_exc!r}; dask computed {_short(got)}")]
        t.mirror = m2
        t.nmut += 1
        t.how = "ufunc_out"
        t.uout = True
        t.uwhere = t.uwhere or wh is not None or any(w.uwhere for w in deps)
        t.weight = 1 + sum(w.weight for w in deps) + (t.weight if wh is not None else 0)
        t.tags |= self.tags | {x for w in deps for x in w.tags}
        for w in deps:
            if w is not t:
                t.anc |= w.anc | {w.eid}
        t.anc.discard(t.eid)
        self.labels.add(f"ufunc:{step['api']}.{fn}")
        if wk != "none":
            self.labels.add("ufunc-where")
            self.labels.add("ufunc-where:" + wk)
        if any(w is t for w in deps):
            self.labels.add("ufunc-out-is-input")
        self.labels.add("mutation-after-compute" if was_computed else "mutation-before-first-compute")
        if had_derived:
            self.labels.add("derived-before-mutation")
            self.nontrivial = True
        fails = []
        if r is not t.coll:
            fails.append(("target-wrong|ufunc-out|result-is-not-out", f"{fn}(..., out=v) returned another object"))
        return fails + self.check_all("ufunc_out", t, f"ufunc-out|{fn}|where-{wk}", joint=bool(step.get("joint")))


def _short(a):
    s = util.short(np.ma.filled(a, 0) if np.ma.isMaskedArray(a) else a, 24)
    if np.ma.isMaskedArray(a):
        s["mask"] = util.jsonable(np.ma.getmaskarray(a).ravel()[:24])
    return s


def run_history(steps, strict=True):
    """Interpret a step list; -> (failures, interpreter).  Stops at the first failing step."""
    assert isinstance(steps, list) and steps, "steps must be a non-empty list"
    it = Interp()
    for k, step in enumerate(steps):
        fails = it.apply(step)
        if fails:
            assert k == len(steps) - 1 or not strict, "steps after the failing one"
            return fails, it
        if it.ended:
            assert k == len(steps) - 1 or not strict, "steps after the history ended"
            return [], it
    return it.finish(), it


def replay(case):
    assert isinstance(case, dict) and isinstance(case.get("steps"), list), "case must be {'steps': [...]}"
    assert case["steps"] and case["steps"][0].get("op") == "new", "history must start with a new array"
    fails, _ = run_history(case["steps"])
    return fails


# ---------------------------------------------------------------------------------------
# generation: every choice is a Hypothesis draw (D wraps ``data.draw``); generators look at the
# interpreter state (shapes, dtypes, mirrors) so that steps are valid by construction

AXLEN = [(0, 1), (1, 2), (2, 3), (3, 4), (4, 4), (5, 3), (6, 2), (7, 1), (8, 1)]
FULL = {"slice": [None, None, None]}


def _bits(D_, size):
    from hypothesis import strategies as st

    if size <= 0:
        return 0
    nb = (size + 7) // 8
    raw = D_.draw(st.binary(min_size=nb, max_size=nb))
    return int.from_bytes(raw, "little") & ((1 << size) - 1)


def _members(it, pred=lambda e: True):
    return [i for i, e in enumerate(it.pool) if e is not None and pred(e)]


def _plain(e):
    return not e.masked and not e.unknown


def _krange(D_, m):
    if m.size == 0:
        return D_.int(-1, 1)
    lo, hi = float(np.min(m)), float(np.max(m))
    return D_.int(int(np.floor(lo)) - 1, int(np.ceil(hi)))


def _enc_index(idx):
    return {"tuple": [gidx.enc(e) for e in idx]}


def gen_new(D_, it):
    if it.n_live() >= MAX_POOL:
        return None
    rank = D_.weighted([(1, 4), (2, 5), (3, 3)])
    shape = [D_.weighted(AXLEN) for _ in range(rank)]
    chunks = gchunks.array_chunks(D_, shape)
    return {
        "op": "new",
        "shape": shape,
        "dtype": D_.weighted([("i8", 4), ("f8", 3), ("bool", 2)]),
        "chunks": [list(c) for c in chunks],
        "salt": D_.int(0, 9),
        "cold": D_.chance(1, 3),
    }


def gen_derive(D_, it, family="any"):
    if it.n_live() >= MAX_POOL:
        return None
    cands = _members(it)
    if not cands:
        return None
    cands = [c for c in cands if it.pool[c].weight <= MAX_WEIGHT] or cands[:1]
    i = D_.choice(cands)
    v = it.pool[i]
    m = v.mirror
    nd = m.ndim
    if v.unknown:
        kinds = [("add1", 2), ("mul2", 1), ("copy", 2), ("asarray", 1), ("persist", 1)]
    elif v.masked:
        kinds = [("slice", 4 if nd else 0), ("transpose", 2 if nd >= 2 else 0), ("rechunk", 2 if nd else 0), ("copy", 2), ("persist", 1), ("add1", 1), ("mul2", 1), ("asarray", 1)]
    else:
        same_shape = _members(it, lambda e: _plain(e) and e.shape == v.shape)
        kinds = [
            ("slice", (16 if family == "slice" else 8) if nd else 0),
            ("add1", 2),
            ("mul2", 2),
            ("addw", 2 if same_shape else 0),
            ("sum", 2 if nd else 0),
            ("transpose", 2 if nd >= 2 else 0),
            ("rechunk", 3 if nd else 0),
            ("copy", 3),
            ("persist", 2),
            ("asarray", 1),
            ("gt", 2),
            ("boolmask", 3 if nd else 0),
            ("rowmask", 2 if nd >= 2 and all(n > 0 for n in m.shape[1:]) else 0),
        ]
    kind = D_.weighted(kinds)
    if v.uout and kind in ("slice", "boolmask", "rowmask") and _steer(KF_SLICE_UOUT):
        it.excluded.append(KF_SLICE_UOUT)
        kind = "copy"
    if kind in ("boolmask", "rowmask") and has_zero_chunk(v.coll) and _steer(KF_ZERO_CHUNK_MASK):
        it.excluded.append(KF_ZERO_CHUNK_MASK)
        kind = "copy"
    step = {"op": "derive", "src": i, "kind": kind, "cold": D_.chance(1, 3)}
    if kind == "slice":
        step["index"] = _enc_index(gidx.gen_basic_index(D_, m.shape, allow_none=False))
        if v.masked and np.ndim(m[gidx.dec(step["index"])]) == 0:
            step["index"] = {"tuple": []}
        if v.uwhere and (np.ndim(m[gidx.dec(step["index"])]) == 0 or has_int(step["index"])) and _steer(KF_WHERE_0D):
            it.excluded.append(KF_WHERE_0D)
            step["index"] = {"tuple": []}
        if has_neg_step(step["index"]) and has_zero_chunk(v.coll) and _steer(KF_NEG_ZERO_CHUNK):
            it.excluded.append(KF_NEG_ZERO_CHUNK)
            step["index"] = {"tuple": _no_neg(step["index"]["tuple"])}
    elif kind == "addw":
        step["other"] = D_.choice(same_shape)
    elif kind == "sum":
        step["axis"] = D_.int(0, nd - 1)
    elif kind == "transpose":
        step["axes"] = D_.perm(nd)
    elif kind == "rechunk":
        step["chunks"] = [list(c) for c in gchunks.array_chunks(D_, m.shape)]
    elif kind in ("gt", "boolmask", "rowmask"):
        step["k"] = _krange(D_, m if kind != "rowmask" else m[(slice(None),) + (0,) * (nd - 1)])
        if kind == "boolmask" and nd >= 2 and m.size == 0:
            it.excluded.append(KF_RESHAPE0)
            return None
    return step


def fit_index(D_, wshape, vs):
    """A basic index into an array of shape ``wshape`` selecting exactly shape ``vs`` (or None)."""
    nd = len(wshape)
    if len(vs) > nd:
        return None
    combos = []
    for axes in itertools.combinations(range(nd), len(vs)):
        ok = all(wshape[ax] >= L for ax, L in zip(axes, vs)) and all(wshape[ax] >= 1 for ax in range(nd) if ax not in axes)
        if ok:
            combos.append(axes)
    if not combos:
        return None
    axes = D_.choice(combos)
    idx = []
    for ax in range(nd):
        n = wshape[ax]
        if ax not in axes:
            idx.append(D_.int(-n, n - 1))
            continue
        L = vs[axes.index(ax)]
        if L == 0:
            idx.append(slice(0, 0))
            continue
        steps = [s for s in (1, 1, -1, 2, -2) if (L - 1) * abs(s) + 1 <= n]
        s = D_.choice(steps)
        span = (L - 1) * abs(s) + 1
        o = D_.int(0, n - span)
        if s > 0:
            idx.append(slice(o if o or D_.bool() else None, o + span, s if s != 1 or D_.bool() else None))
        else:
            idx.append(slice(o + span - 1, o - 1 if o > 0 else None, s))
    return tuple(idx)


def _gen_scalar(D_):
    k = D_.weighted([("int", 5), ("float", 2), ("bool", 1)])
    if k == "int":
        return D_.int(-9, 9)
    if k == "float":
        return D_.int(-9, 9) + 0.5
    return D_.bool()


def _one_chunk(shape):
    return [[int(n)] for n in shape]


def _no_neg(elems):
    return [{"slice": [None, None, -e["slice"][2]]} if isinstance(e, dict) and "slice" in e and e["slice"][2] is not None and e["slice"][2] < 0 else e for e in elems]


def _no_neg_after_int(elems):
    out, seen = [], False
    for e in elems:
        if _is_int(e):
            seen = True
        if seen and isinstance(e, dict) and "slice" in e and e["slice"][2] is not None and e["slice"][2] < 0:
            e = {"slice": [None, None, -e["slice"][2]]}
        out.append(e)
    return out


def _gen_key(D_, it, i, t, family):
    """-> (key, expect) ; key None when nothing sensible can be built."""
    shape = t.shape
    nd = len(shape)
    if nd == 0:
        return {"tuple": D_.choice([[], ["..."]])}, "ok"
    if t.unknown:
        if D_.chance(1, 6):
            return {"tuple": [0]}, "ok"  # refused: unknown chunk sizes
        return {"tuple": [{"dcmp": {"src": i, "k": _krange(D_, t.mirror)}}], "bare": True}, "ok"
    if family == "basic":
        form = D_.weighted([("basic", 16), ("invalid", 1)])
    elif family == "fancy":
        form = "fancy"
    elif family == "mask":
        form = D_.weighted([("npfull", 2), ("dfull", 3), ("dcmp", 4 if not t.masked else 0)])
    else:
        form = D_.weighted([("basic", 8), ("fancy", 8), ("npfull", 1), ("dfull", 2), ("dcmp", 3 if not t.masked else 0), ("invalid", 1)])
    if form == "dfull" and t.masked and _steer(KF_MASKED_DMASK):
        it.excluded.append(KF_MASKED_DMASK)
        form = "npfull"
    if form == "basic":
        allow_none = D_.chance(1, 30)
        if allow_none and _steer(KF_NONE_KEY):
            it.excluded.append(KF_NONE_KEY)
            allow_none = False
        idx = gidx.gen_basic_index(D_, shape, allow_none=allow_none)
        key = _enc_index(idx)
        if key_props(key)["int_before_negslice"] and _steer(KF_INT_BEFORE):
            it.excluded.append(KF_INT_BEFORE)
            key = {"tuple": _no_neg_after_int(key["tuple"])}
        if has_neg_step(key) and has_zero_chunk(t.coll) and _steer(KF_NEG_ZERO_CHUNK):
            it.excluded.append(KF_NEG_ZERO_CHUNK)
            key = {"tuple": _no_neg(key["tuple"])}
        if len(idx) == 1 and D_.bool():
            key["bare"] = True
        return key, "ok"
    if form == "invalid":
        which = D_.choice(["oob", "too-many"])
        if which == "oob":
            ax = D_.int(0, nd - 1)
            elems = [dict(FULL) for _ in range(nd)]
            elems[ax] = D_.choice([shape[ax], -shape[ax] - 1, shape[ax] + 3])
            return {"tuple": elems}, "raise"
        return {"tuple": [dict(FULL)] * nd + [0]}, "raise"
    if form == "npfull":
        return {"tuple": [{"npfull": {"shape": list(shape), "bits": _bits(D_, int(np.prod(shape)))}}], "bare": True}, "ok"
    if form == "dfull":
        ch = t.coll.chunks if D_.bool() else gchunks.array_chunks(D_, shape)
        return {"tuple": [{"dfull": {"shape": list(shape), "bits": _bits(D_, int(np.prod(shape))), "chunks": [list(map(int, c)) for c in ch]}}], "bare": True}, "ok"
    if form == "dcmp":
        cands = _members(it, lambda e: _plain(e) and e.shape == shape)
        j = i if (it.pool[i] in [it.pool[c] for c in cands] and D_.bool()) else D_.choice(cands) if cands else None
        if j is None:
            return None, "ok"
        return {"tuple": [{"dcmp": {"src": j, "k": _krange(D_, it.pool[j].mirror)}}], "bare": True}, "ok"
    # one fancy element on one axis
    ax = D_.int(0, nd - 1)
    n = shape[ax]
    fk = D_.weighted([("intlist", 4 if n else 0), ("intarr", 3 if n else 0), ("boolarr", 3), ("dask_int", 3 if n else 0), ("dask_bool", 2)])
    if fk == "intlist":
        f = gidx.enc(gidx.gen_int_list(D_, n, 1, 5))
    elif fk == "intarr":
        f = gidx.enc(np.array(gidx.gen_int_list(D_, n, 1, 5), dtype=np.intp))
    elif fk == "boolarr":
        f = gidx.enc(bits_mask((n,), _bits(D_, n)))
    else:
        arr = np.array(gidx.gen_int_list(D_, n, 1, 5), dtype=np.intp) if fk == "dask_int" else bits_mask((n,), _bits(D_, n))
        ch = list(gchunks.axis_chunks(D_, len(arr)))
        if len(ch) > 1 and _steer(KF_MULTIBLOCK):
            it.excluded.append(KF_MULTIBLOCK)
            ch = [len(arr)]
        f = {"dask": gidx.enc(arr), "chunks": [ch]}
    elems = []
    for a2 in range(nd):
        if a2 == ax:
            elems.append(f)
            continue
        n2 = shape[a2]
        k2 = D_.weighted([("slice", 4), ("full", 4), ("int", 2 if n2 else 0)])
        elems.append(gidx.enc(gidx.gen_slice(D_, n2)) if k2 == "slice" else (D_.int(-n2, n2 - 1) if k2 == "int" else dict(FULL)))
    if D_.chance(1, 3):
        while len(elems) > 1 and elems[-1] == FULL:
            elems.pop()
    if D_.chance(1, 5):
        lead = 0
        while lead < len(elems) and elems[lead] == FULL:
            lead += 1
        if lead and len(elems) == nd:
            elems = ["..."] + elems[lead:]
    key = {"tuple": elems}
    if key_props(key)["int_before_negslice"] and _steer(KF_INT_BEFORE):
        it.excluded.append(KF_INT_BEFORE)
        key = {"tuple": _no_neg_after_int(elems)}
    if has_neg_step(key) and has_zero_chunk(t.coll) and _steer(KF_NEG_ZERO_CHUNK):
        it.excluded.append(KF_NEG_ZERO_CHUNK)
        key = {"tuple": _no_neg(key["tuple"])}
    bare_ok = not (fk == "dask_bool" and nd == 1 and t.masked and _steer(KF_MASKED_DMASK))
    if len(elems) == 1 and bare_ok and D_.bool():
        key["bare"] = True
    return key, "ok"


def _gen_value(D_, it, i, t, key, sel):
    """Value for a selection of shape ``sel`` (NumPy semantics)."""
    tup = key["tuple"]
    mask_key = is_full_dmask(key, len(t.shape))
    np_full_nd = any(isinstance(e, dict) and "npfull" in e for e in tup) and len(t.shape) >= 2
    props = key_props(key)
    if t.unknown or np_full_nd or any(e is None for e in tup):
        return {"scalar": _gen_scalar(D_)}
    if mask_key:
        k = D_.weighted([("scalar", 8), ("masked", 2), ("array", 1)])
        if k == "masked" and _steer(KF_MASKED_DMASK):
            it.excluded.append(KF_MASKED_DMASK)
            k = "scalar"
        if k == "array" and _steer(KF_DMASK_ARRAY):
            it.excluded.append(KF_DMASK_ARRAY)
            k = "scalar"
        if k == "array":
            return {"arr": {"shape": [D_.choice([1, sel[0]])], "dtype": t.dt, "salt": D_.int(0, 9)}}  # refused form
        return "masked" if k == "masked" else {"scalar": _gen_scalar(D_)}
    k = D_.weighted([("scalar", 5), ("array", 5), ("dnew", 3), ("dpool", 5), ("masked", 1)])
    if k == "masked" and not t.shape and _steer(KF_MASKED_0D):
        it.excluded.append(KF_MASKED_0D)
        k = "scalar"
    if k == "masked":
        return "masked"
    if k == "scalar":
        return {"scalar": _gen_scalar(D_)}
    if props["separated"] and _steer(KF_SEPARATED):
        it.excluded.append(KF_SEPARATED)
        return {"scalar": _gen_scalar(D_)}
    if props["int_before_intarr"] and _steer(KF_INT_BEFORE):
        it.excluded.append(KF_INT_BEFORE)
        return {"scalar": _gen_scalar(D_)}
    vs = list(sel[D_.int(0, len(sel)) if D_.chance(1, 3) else 0 :])
    vs = [1 if D_.chance(1, 5) else n for n in vs]
    if 0 in sel and not D_.chance(1, 10):
        vs = [min(n, 1) for n in vs]  # dask_array only takes unit-size values for an empty selection
    bool_key_1d = len(t.shape) == 1 and any(isinstance(e, dict) and ("npfull" in e or "boolarr" in e) for e in tup)
    if k == "array" and sel and not bool_key_1d and not any(isinstance(e, dict) and "npfull" in e for e in tup) and D_.chance(1, 10):
        if _steer(KF_LEADING_ONE):
            it.excluded.append(KF_LEADING_ONE)
        else:
            vs = [1] + vs
    dk = [e["dask"] for e in tup if isinstance(e, dict) and "dask" in e]
    if dk and "boolarr" in dk[0] and vs != list(sel) and _steer(KF_DBOOL_BCAST):
        it.excluded.append(KF_DBOOL_BCAST)
        vs = list(sel)
    if dk and "intarr" in dk[0] and len(vs) >= 2 and _steer(KF_DINT_ND):
        it.excluded.append(KF_DINT_ND)
        return {"scalar": _gen_scalar(D_)}
    dtype = D_.weighted([(t.dt, 4), ("i8", 1), ("f8", 1), ("bool", 1)])
    if k == "dpool":
        no_uout = _steer(KF_SLICE_UOUT)
        no_zero = _steer(KF_NEG_ZERO_CHUNK)
        no_w0 = not vs and _steer(KF_WHERE_0D)
        room = (MAX_WEIGHT - t.weight) / n_blocks(t.coll)
        cands = _members(it, lambda e: _plain(e) and e.mirror.ndim >= len(vs) and e.weight <= room and not (no_uout and e.uout) and not (no_zero and has_zero_chunk(e.coll)) and not (no_w0 and e.uwhere))
        if not cands:
            it.labels.add("size-cap")
        rel = [c for c in cands if it.pool[c] is t or t.eid in it.pool[c].anc]
        j = D_.choice(rel) if rel and D_.chance(1, 2) else (D_.choice(cands) if cands else None)
        idx = fit_index(D_, it.pool[j].shape, vs) if j is not None else None
        if idx is not None:
            one = False
            multi = bool(vs) and (it.pool[j].coll[idx].npartitions > 1 or blocks_may_drift(it.pool[j]))
            if multi and _steer(KF_MULTIBLOCK):
                it.excluded.append(KF_MULTIBLOCK)
                one = True
            return {"dpool": {"src": j, "index": _enc_index(idx), "one": one}}
        k = "array"
    spec = {"shape": vs, "dtype": dtype, "salt": D_.int(0, 9)}
    if k == "dnew":
        ch = [list(c) for c in gchunks.array_chunks(D_, vs)]
        if any(len(c) > 1 for c in ch) and _steer(KF_MULTIBLOCK):
            it.excluded.append(KF_MULTIBLOCK)
            ch = _one_chunk(vs)
        spec["chunks"] = ch
        return {"dnew": spec}
    return {"arr": spec}


def gen_setitem(D_, it, family="any"):
    cands = _members(it, lambda e: e.nmut < MAX_MUT)
    known = [c for c in cands if not it.pool[c].unknown]
    if not cands:
        return None
    i = D_.choice(known) if known and not D_.chance(1, 8) else D_.choice(cands)
    if it.pool[i].weight > MAX_WEIGHT:
        it.labels.add("size-cap")
        return None
    t = it.pool[i]
    key, expect = _gen_key(D_, it, i, t, family)
    if key is None:
        return None
    step = {"op": "setitem", "tgt": i, "key": key, "joint": D_.chance(1, 3)}
    if expect == "raise":
        step["value"] = {"scalar": _gen_scalar(D_)}
        step["expect"] = "raise"
        return step
    np_key, _, _ = it.decode_key(key, t)
    try:
        sel = tuple(np.shape(t.mirror[np_key]))
    except IndexError:
        return None
    if len(t.shape) and not t.unknown and family != "mask" and D_.chance(1, 40) and sel and max(sel) >= 1:
        # invalid: value shape that cannot broadcast to the selection
        bad = list(sel)
        bad[-1] = sel[-1] + 2
        if not any(isinstance(e, dict) and ("dfull" in e or "dcmp" in e or "npfull" in e or "dask" in e) for e in key["tuple"]) and None not in key["tuple"]:
            step["value"] = {"arr": {"shape": bad, "dtype": t.dt, "salt": 1}}
            step["expect"] = "raise"
            return step
    step["value"] = _gen_value(D_, it, i, t, key, sel)
    try:  # dry run of the NumPy side: valid by construction, but never hand an invalid step to the interpreter
        np_val = it.decode_value(step["value"], t)[0]
        m2 = _copy(t.mirror)
        if step["value"] == "masked":
            m2 = np.ma.array(m2, copy=True)
        m2[np_key] = np_val
    except (IndexError, ValueError, TypeError) as e:
        it.rejects.append(f"generator-dry-run:{type(e).__name__}:{util.norm_msg(e, 50)}")
        return None
    finally:
        it.tags = set()
    return step


def _bcast_index(D_, shape):
    """Basic index that turns ``shape`` into something that still broadcasts to ``shape`` (or None)."""
    nd = len(shape)
    if nd == 0:
        return None
    how = D_.weighted([("lead-int", 2 if nd >= 2 and shape[0] > 0 else 0), ("unit-slice", 2), ("none", 2)])
    if how == "lead-int":
        return (D_.int(-shape[0], shape[0] - 1),)
    if how == "unit-slice":
        ax = D_.int(0, nd - 1)
        if shape[ax] == 0:
            return None
        o = D_.int(0, shape[ax] - 1)
        return (slice(None),) * ax + (slice(o, o + 1),)
    return None


def gen_ufunc(D_, it):
    tg = _members(it, lambda e: _plain(e) and e.nmut < MAX_MUT)
    if not tg:
        return None
    i = D_.choice(tg)
    if it.pool[i].weight > MAX_WEIGHT:
        it.labels.add("size-cap")
        return None
    t = it.pool[i]
    dt = t.dt
    fn = D_.weighted([("add", 5), ("multiply", 2), ("negative", 2 if dt != "bool" else 0), ("sin", 2 if dt == "f8" else 0)])
    ok_in = {"f8": ("f8", "i8", "bool"), "i8": ("i8", "bool"), "bool": ("bool",)}[dt]
    if fn == "negative":
        ok_in = tuple(d for d in ok_in if d != "bool")
    S = _members(it, lambda e: _plain(e) and e.shape == t.shape and e.dt in ok_in)
    if not S:
        return None

    def member(allow_bcast=True):
        j = i if (i in S and D_.chance(1, 3)) else D_.choice(S)
        idx = _bcast_index(D_, t.shape) if allow_bcast and D_.chance(1, 3) else None
        if idx is not None and it.pool[j].uout and _steer(KF_SLICE_UOUT):
            it.excluded.append(KF_SLICE_UOUT)
            idx = None
        return {"src": j, "index": _enc_index(idx) if idx is not None else None}

    def scalar():
        if dt == "bool":
            return {"scalar": D_.bool()}
        if dt == "f8" and D_.bool():
            return {"scalar": D_.int(-9, 9) + 0.5}
        return {"scalar": D_.int(-9, 9)}

    form = None
    if fn in ("add", "multiply"):
        a = member()
        b = scalar() if D_.chance(2, 5) else member()
        ins = [a, b] if D_.bool() else [b, a]
        if all(s.get("index") is not None or "scalar" in s for s in ins):
            if D_.chance(1, 4) and len(t.shape):
                form = "out-bigger"  # NumPy broadcasts into out; dask_array refuses
            else:
                for s in ins:
                    if "src" in s:
                        s["index"] = None
                        break
    else:
        ins = [member(allow_bcast=False)]
    wk = D_.weighted([("none", 5), ("npmask", 2), ("dmask", 2), ("dcmp", 2)])
    if wk != "none" and not t.shape and _steer(KF_WHERE_0D):
        it.excluded.append(KF_WHERE_0D)
        wk = "none"
    where = None
    if wk in ("npmask", "dmask"):
        wshape = list(t.shape[-1:]) if (len(t.shape) >= 2 and D_.chance(1, 4)) else list(t.shape)
        where = {wk: {"shape": wshape, "bits": _bits(D_, int(np.prod(wshape)) if wshape else 1)}}
        if wk == "dmask":
            where[wk]["chunks"] = [list(c) for c in gchunks.array_chunks(D_, wshape)]
    elif wk == "dcmp":
        W = _members(it, lambda e: _plain(e) and e.shape == t.shape)
        j = D_.choice(W)
        where = {"dcmp": {"src": j, "k": _krange(D_, it.pool[j].mirror)}}
    step = {"op": "ufunc_out", "tgt": i, "fn": fn, "api": D_.choice(["np", "da"]), "ins": ins, "where": where, "joint": D_.chance(1, 3)}
    if form:
        step["form"] = form
    if True:
        # NumPy casts the result into out's dtype
        with np.errstate(all="ignore"):
            res = getattr(np, fn)(*[it._ufunc_input(s)[0] for s in ins])
        it.tags = set()
        if res.dtype != t.mirror.dtype:
            if _steer(KF_OUT_DTYPE):
                it.excluded.append(KF_OUT_DTYPE)
                return None
            step["cast"] = True
    return step


def gen_ccs(D_, it):
    cands = _members(it)
    if _steer(KF_SLICE_UOUT) and any(it.pool[c].uout for c in cands):
        it.excluded.append(KF_SLICE_UOUT)
        cands = [c for c in cands if not it.pool[c].uout]
    def drift(e):
        return KF_ZERO_CHUNK_MASK in e.tags or (has_zero_chunk(e.coll) and e.how != "compute_chunk_sizes")

    if _steer(KF_ZERO_CHUNK_MASK) and any(drift(it.pool[c]) for c in cands):
        it.excluded.append(KF_ZERO_CHUNK_MASK)
        cands = [c for c in cands if not drift(it.pool[c])]
    unk = [c for c in cands if it.pool[c].unknown]
    if not cands:
        return None
    return {"op": "compute_chunk_sizes", "src": D_.choice(unk) if unk and not D_.chance(1, 5) else D_.choice(cands), "joint": D_.chance(1, 3)}


def gen_compute(D_, it):
    cands = _members(it)
    return {"op": "compute", "src": D_.choice(cands)} if cands else None


def gen_compute_all(D_, it):
    return {"op": "compute_all", "joint": D_.bool()}


def gen_drop(D_, it):
    if it.n_live() < 5:
        return None
    return {"op": "drop", "src": D_.choice(_members(it))}


# ---------------------------------------------------------------------------------------
# the state machine


def _make_machine(col, last=None):
    from hypothesis import strategies as st
    from hypothesis.stateful import RuleBasedStateMachine, initialize, rule

    class Machine(RuleBasedStateMachine):
        def __init__(self):
            super().__init__()
            self.it = Interp()
            self.steps = []
            self.done = False
            if last is not None:
                last["steps"] = self.steps

        def _run(self, data, gen, **kw):
            if self.done:
                return
            try:
                step = gen(D(data.draw), self.it, **kw)
            except AssertionError as e:
                # generator bug (it asked the interpreter to decode something invalid): visible in `rejected`
                col.reject(f"generator-assert:{gen.__name__}:{util.norm_msg(e, 60)}")
                self.it.tags = set()
                return
            if step is None:
                return
            step = util.jsonable(step)
            self.steps.append(step)
            try:
                fails = self.it.apply(step)
            except AssertionError as e:
                # the generator produced a step the interpreter calls invalid: generator bug, visible in `rejected`
                col.reject(f"generator-invalid-step:{step['op']}:{util.norm_msg(e, 60)}")
                self.steps.pop()
                self.done = True
                return
            self._record(fails)
            if fails or self.it.ended:
                self.done = True

        def _record(self, fails):
            if fails:
                case = {"steps": json.loads(json.dumps(self.steps))}
                for b, d in fails:
                    col.fail(b, case, d)
                self.it.labels.add("history-ended-by-failure")

        @initialize(data=st.data())
        def start(self, data):
            self._run(data, gen_new)

        @rule(data=st.data())
        def new(self, data):
            self._run(data, gen_new)

        @rule(data=st.data())
        def derive(self, data):
            self._run(data, gen_derive)

        @rule(data=st.data())
        def derive_slice(self, data):
            self._run(data, gen_derive, family="slice")

        @rule(data=st.data())
        def setitem_basic(self, data):
            self._run(data, gen_setitem, family="basic")

        @rule(data=st.data())
        def setitem_fancy(self, data):
            self._run(data, gen_setitem, family="fancy")

        @rule(data=st.data())
        def setitem_mask(self, data):
            self._run(data, gen_setitem, family="mask")

        @rule(data=st.data())
        def setitem_any(self, data):
            self._run(data, gen_setitem)

        @rule(data=st.data())
        def ufunc_out(self, data):
            self._run(data, gen_ufunc)

        @rule(data=st.data())
        def compute_chunk_sizes(self, data):
            self._run(data, gen_ccs)

        @rule(data=st.data())
        def compute(self, data):
            self._run(data, gen_compute)

        @rule(data=st.data())
        def compute_all(self, data):
            self._run(data, gen_compute_all)

        @rule(data=st.data())
        def drop(self, data):
            self._run(data, gen_drop)

        def teardown(self):
            it = self.it
            if not self.steps:
                return
            if not self.done:
                self._record(it.finish())
                self.done = True
            labels = sorted(it.labels)
            col.case({"steps": self.steps}, it.nontrivial, labels)
            for r in it.rejects:
                col.reject(r[:120])
            for x in it.excluded:
                col.exclude(x)
            for k, v in it.counts.items():
                col.extra["total_" + k.replace("-", "_")] = col.extra.get("total_" + k.replace("-", "_"), 0) + v

    return Machine


def run_shard(spec, seed):
    import hypothesis
    from hypothesis import HealthCheck, Phase, settings
    from hypothesis.stateful import run_state_machine_as_test

    from hypothesis.errors import Flaky

    col = Collector()
    last = {}
    for attempt in range(4):
        todo = spec["cases"] - col.evaluations
        if todo <= 0:
            break
        Machine = _make_machine(col, last)
        try:
            run_state_machine_as_test(
                hypothesis.seed(seed + attempt)(Machine),
                settings=settings(
                    max_examples=todo,
                    stateful_step_count=spec["steps"],
                    database=None,
                    deadline=None,
                    derandomize=False,
                    phases=[Phase.generate],
                    suppress_health_check=list(HealthCheck),
                ),
            )
            break
        except Flaky as e:
            # Hypothesis replayed a choice prefix and the run took another course: since every draw depends only on the
            # interpreter state, the code under test behaved differently on the same history (state leaking between
            # collections / histories).  Recorded as a failure; the remaining budget continues under the next seed.
            steps = last.get("steps") or [{"op": "new", "shape": [1], "dtype": "i8", "chunks": [[1]], "salt": 0}]
            col.fail(f"nondeterministic|same-choices-different-course|{type(e).__name__}", {"steps": steps}, util.exc_detail(e))
    return col.result()


def plan(tier):
    from vf import progrun

    specs = progrun.plan_cases(tier, 800, 10000)
    for i, s in enumerate(specs):
        # a 40-step history costs ~5x a 25-step one (full pool, deeper expressions): thorough runs a third of its
        # shards at 40 steps and the rest at 25 to stay within ~8 min on 16 idle cores
        s["steps"] = 25 if tier == "quick" or i % 3 else 40
    return specs


# ---------------------------------------------------------------------------------------
# shrinking of step lists


def _creates(step):
    return step.get("op") in ("new", "derive")


def _refs(o):
    if isinstance(o, dict):
        for k, v in o.items():
            if k in REFKEYS and _is_int(v):
                yield v
            else:
                yield from _refs(v)
    elif isinstance(o, list):
        for v in o:
            yield from _refs(v)


def _remap(o, mp):
    if isinstance(o, dict):
        return {k: (mp[v] if k in REFKEYS and _is_int(v) else _remap(v, mp)) for k, v in o.items()}
    if isinstance(o, list):
        return [_remap(v, mp) for v in o]
    return o


def drop_steps(steps, drop):
    """Remove the steps in ``drop`` and every later step that refers to a pool index created by a removed step;
    re-index the remaining references."""
    mp, out, idx, new_idx = {}, [], 0, 0
    for k, s in enumerate(steps):
        my = None
        if _creates(s):
            my, idx = idx, idx + 1
        if k in drop or any(r not in mp for r in _refs(s)):
            continue
        out.append(_remap(s, mp))
        if my is not None:
            mp[my] = new_idx
            new_idx += 1
    return out


def _simpler_elem(e):
    if isinstance(e, dict) and "slice" in e and e != FULL:
        yield dict(FULL)
        a, b, c = e["slice"]
        if c not in (None, 1, -1):
            yield {"slice": [a, b, 1 if c > 0 else -1]}
        if a is not None or b is not None:
            yield {"slice": [None, None, c]}
    elif _is_int(e) and e != 0:
        yield 0
    elif isinstance(e, dict) and "list" in e and len(e["list"]) > 1:
        yield {"list": e["list"][:1]}
        yield {"list": e["list"][:-1]}
    elif isinstance(e, dict) and "intarr" in e and len(e["intarr"]) > 1:
        yield {"intarr": e["intarr"][:-1], "shape": [len(e["intarr"]) - 1]}
    elif isinstance(e, dict) and "dask" in e:
        n = sum(e["chunks"][0])
        if e["chunks"] != [[n]]:
            yield {"dask": e["dask"], "chunks": [[n]]}
        inner = e["dask"]
        if "intarr" in inner and len(inner["intarr"]) > 1:
            yield {"dask": {"intarr": inner["intarr"][:-1], "shape": [n - 1]}, "chunks": [[n - 1]]}
    elif isinstance(e, dict) and ("npfull" in e or "dfull" in e):
        k = "npfull" if "npfull" in e else "dfull"
        spec = e[k]
        for bits in (0, spec["bits"] & (spec["bits"] - 1)):
            if bits != spec["bits"]:
                yield {k: dict(spec, bits=bits)}
        if k == "dfull" and spec["chunks"] != _one_chunk(spec["shape"]):
            yield {k: dict(spec, chunks=_one_chunk(spec["shape"]))}
    elif isinstance(e, dict) and "dcmp" in e and e["dcmp"]["k"] != 0:
        yield {"dcmp": dict(e["dcmp"], k=0)}


def _with(steps, k, new):
    out = list(steps)
    out[k] = new
    return out


def _simpler_steps(steps):
    for k, s in enumerate(steps):
        op = s.get("op")
        if s.get("cold"):
            yield _with(steps, k, dict(s, cold=False))
        if s.get("joint"):
            yield _with(steps, k, dict(s, joint=False))
        if op == "new":
            shape = s["shape"]
            if s["chunks"] != _one_chunk(shape):
                yield _with(steps, k, dict(s, chunks=_one_chunk(shape)))
            for ax, n in enumerate(shape):
                for n2 in sorted({n // 2, n - 1} - {n}):
                    if n2 >= 0:
                        sh = shape[:ax] + [n2] + shape[ax + 1 :]
                        yield _with(steps, k, dict(s, shape=sh, chunks=_one_chunk(sh)))
            if len(shape) > 1:
                for ax in range(len(shape)):
                    sh = shape[:ax] + shape[ax + 1 :]
                    yield _with(steps, k, dict(s, shape=sh, chunks=_one_chunk(sh)))
            if s["dtype"] != "i8":
                yield _with(steps, k, dict(s, dtype="i8"))
            if s["salt"]:
                yield _with(steps, k, dict(s, salt=0))
        elif op == "derive":
            if s["kind"] == "slice":
                t = s["index"]["tuple"]
                for j, e in enumerate(t):
                    for e2 in _simpler_elem(e):
                        yield _with(steps, k, dict(s, index={"tuple": t[:j] + [e2] + t[j + 1 :]}))
            if s.get("k"):
                yield _with(steps, k, dict(s, k=0))
            if s["kind"] not in ("copy", "slice"):
                yield _with(steps, k, {"op": "derive", "src": s["src"], "kind": "copy", "cold": False})
        elif op == "setitem":
            key = s["key"]
            t = key["tuple"]
            for j, e in enumerate(t):
                for e2 in _simpler_elem(e):
                    yield _with(steps, k, dict(s, key=dict(key, tuple=t[:j] + [e2] + t[j + 1 :])))
            if len(t) > 1 and t[-1] == FULL:
                yield _with(steps, k, dict(s, key=dict(key, tuple=t[:-1])))
            v = s["value"]
            if v != {"scalar": 1}:
                yield _with(steps, k, dict(s, value={"scalar": 1}))
            if isinstance(v, dict):
                for kind in ("arr", "dnew"):
                    if kind in v:
                        spec = v[kind]
                        if spec["salt"]:
                            yield _with(steps, k, dict(s, value={kind: dict(spec, salt=0)}))
                        if kind == "dnew" and spec["chunks"] != _one_chunk(spec["shape"]):
                            yield _with(steps, k, dict(s, value={kind: dict(spec, chunks=_one_chunk(spec["shape"]))}))
                        if kind == "dnew":
                            yield _with(steps, k, dict(s, value={"arr": {q: spec[q] for q in ("shape", "dtype", "salt")}}))
                if "dpool" in v:
                    spec = v["dpool"]
                    ti = spec["index"]["tuple"]
                    for j, e in enumerate(ti):
                        for e2 in _simpler_elem(e):
                            yield _with(steps, k, dict(s, value={"dpool": dict(spec, index={"tuple": ti[:j] + [e2] + ti[j + 1 :]})}))
        elif op == "ufunc_out":
            if s.get("where") is not None:
                yield _with(steps, k, dict(s, where=None))
            if s["api"] != "np":
                yield _with(steps, k, dict(s, api="np"))
            for j, inp in enumerate(s["ins"]):
                if "src" in inp and inp.get("index") is not None:
                    yield _with(steps, k, dict(s, ins=s["ins"][:j] + [dict(inp, index=None)] + s["ins"][j + 1 :]))
                if "src" in inp and len(s["ins"]) > 1 and any("src" in o for q, o in enumerate(s["ins"]) if q != j):
                    yield _with(steps, k, dict(s, ins=s["ins"][:j] + [{"scalar": 1}] + s["ins"][j + 1 :]))
                if "scalar" in inp and inp["scalar"] not in (1, True):
                    yield _with(steps, k, dict(s, ins=s["ins"][:j] + [{"scalar": 1}] + s["ins"][j + 1 :]))
            w = s.get("where") or {}
            for kind in ("npmask", "dmask"):
                if kind in w and w[kind]["bits"]:
                    b = w[kind]["bits"]
                    yield _with(steps, k, dict(s, where={kind: dict(w[kind], bits=b & (b - 1))}))


def shrink(case):
    steps = case["steps"]
    n = len(steps)
    cands = []
    # 1. drop one step (with everything that depends on what it created); never the failing last step
    for k in range(n - 1):
        c = drop_steps(steps, {k})
        if c and len(c) < n and c[0].get("op") == "new":
            cands.append(c)
    # 2. keep only what the last step (transitively) needs
    cands.sort(key=len)
    for c in cands:
        yield {"steps": c}
    # 3. make single steps simpler
    for c in _simpler_steps(steps):
        yield {"steps": c}


# ---------------------------------------------------------------------------------------
# predicates for listed findings: the failing step is the last step of the history; the interpreter tags
# every step with the ids of the defect regions it lies in (``Interp.tags``), so a predicate re-runs the history


REGION_DOC = {
    KF_MULTIBLOCK: "setitem (not through a full-shape dask mask) whose value or 1-d index is a dask array with more than one block",
    KF_INT_BEFORE: "setitem with an integer index ahead of a negative-step slice, or ahead of a 1-d array index together with a non-scalar value",
    KF_MASKED_DMASK: "x[full-shape dask mask] = v where v is np.ma.masked or x already is a masked array",
    KF_DMASK_ARRAY: "x[full-shape dask mask] = array value (ndim > 0)",
    KF_NONE_KEY: "setitem key containing None (np.newaxis)",
    KF_DBOOL_BCAST: "setitem with a 1-d dask bool index and an array value whose shape differs from the selection (broadcast)",
    KF_DINT_ND: "setitem with a 1-d dask int index and a value of >= 2 dimensions",
    KF_LEADING_ONE: "setitem with a value that has more dimensions than the selection (extra leading unit dimensions)",
    KF_WHERE_0D: "ufunc(..., out=v, where=mask) on a 0-d v, or an index that reduces such a result to 0-d (x[0] after np.add(x, 1, out=x, where=m))",
    KF_MASKED_0D: "x[...] = np.ma.masked on a 0-d x",
    KF_ZERO_CHUNK_MASK: "optimisation changes the block structure of collections with a zero-width block next to other blocks (typical after compute_chunk_sizes): compute_chunk_sizes of anything built on them (u > 0, u + w, u[mask] = v), or u[u > k], raises",
    KF_NEG_ZERO_CHUNK: "negative-step slice of a collection whose chunks contain a zero-width block next to other blocks (typical after compute_chunk_sizes)",
    KF_OUT_DTYPE: "ufunc(..., out=v) whose natural result dtype differs from v's dtype",
    KF_SLICE_UOUT: "[fixed in /repo on 2026-09-22: Elemwise._accept_slice now slices where/out] a basic index / boolean mask (or compute_chunk_sizes, which slices internally) applied to a collection whose expression contains an ufunc out= result",
}


def step_tags(case):
    """Region ids of the last executed step of the history."""
    try:
        _, it = run_history(case["steps"], strict=False)
    except Exception:
        return set()
    return set(it.tags)


def _region_pred(fid):
    def pred(case):
        return fid in step_tags(case)

    pred.__doc__ = REGION_DOC[fid]
    return pred


REGIONS = {fid: _region_pred(fid) for fid in REGION_DOC}


def region_chunk_sizes_of_empty_slice_after_mask_assign(case):
    """compute_chunk_sizes() on an EMPTY basic slice of a collection that was assigned through a full-shape dask
    mask (structural, from the step list: a dask-mask setitem, a derive-slice that selects nothing, and a
    compute_chunk_sizes step)."""
    steps = case.get("steps") or []
    shapes = [tuple(s["shape"]) for s in steps if s.get("op") == "new"]
    if not shapes or not any(s.get("op") == "compute_chunk_sizes" for s in steps):
        return False
    if not any(s.get("op") == "setitem" and "dfull" in json.dumps(s.get("key")) for s in steps):
        return False
    for s in steps:
        if s.get("op") == "derive" and s.get("kind") == "slice":
            for shp in shapes:
                try:
                    if np.empty(shp)[gidx.dec(s["index"])].size == 0:
                        return True
                except Exception:
                    continue
    return False


KF_CCS_EMPTY = "KF-compute-chunk-sizes-empty-slice-after-mask-assign"
REGIONS[KF_CCS_EMPTY] = region_chunk_sizes_of_empty_slice_after_mask_assign


def _register_regions():
    from vf import known

    for fid, fn in REGIONS.items():
        known.PREDICATES["c11:" + fid] = fn


_register_regions()

_COMMON = [
    "step:new",
    "step:derive",
    "step:setitem",
    "step:ufunc_out",
    "step:compute_chunk_sizes",
    "step:compute",
    "step:compute_all",
    "key:int",
    "key:neg-int",
    "key:slice",
    "key:neg-step-slice",
    "key:ellipsis",
    "key:int-list",
    "key:np-int-arr",
    "key:np-bool-1d",
    "key:np-bool-full",
    "key:dask-bool-full",
    "key:dask-mask-from-pool",
    "key:dask-int",
    "key:dask-bool-1d",
    "key:masked-value",
    "value:scalar",
    "value:array",
    "value:broadcast",
    "value:dask",
    "value:dask-pool",
    "value:derived-from-target",
    "ufunc-out",
    "ufunc-where",
    "ufunc-where:dask",
    "ufunc-out-is-input",
    "compute_chunk_sizes",
    "ccs:unknown",
    "unknown-chunks-member",
    "derived-before-mutation",
    "derived-after-mutation",
    "mutation-after-compute",
    "mutation-before-first-compute",
    "mutated-twice",
    "mutate-derived",
    "alias",
    "both-raise",
    "multi-block",
    "joint-compute",
    "derive:persist",
    "derive:copy",
    "created-cold",
    "zero-length-axis",
]
REQUIRED_CLASSES = {"quick": list(_COMMON), "thorough": list(_COMMON)}
