"""C08 — optimisation terminates and is idempotent; never turns a computable
program into one that raises."""

from __future__ import annotations

import signal

import dask

from vf import progrun, rewrites, util
from vf.gen import programs as P
from vf.props.c02 import WEIGHTS

PROPERTY = "C08"
RULE = (
    "Program generators of C01 and C02 (rewrite-dense weights on every second shard). For every output whose raw form "
    "computes with optimisation off: simplify(), lower_completely(), fuse() and optimize() must return (watchdog "
    "120 s per case, >1000x the median), re-applying each phase to its own result must keep the name "
    "(idempotence), and computing with optimisation on must not raise. Non-trivial: >= 2 rewrites fired; distinct = "
    "distinct program JSON."
)
ASSUMPTIONS = [
    "non-termination is detected by a 120 s SIGALRM watchdog per case (the only place a timer feeds a verdict)",
    "NotImplementedError is a refusal, not a failure",
]
from vf import exclusions as _ex

EXCLUDE = _ex.RAISES
WATCHDOG_S = 120


class _Timeout(Exception):
    pass


def _alarm(signum, frame):
    raise _Timeout()


def check(case, vals=None):
    from dask_array._new_collection import new_collection

    prog = case["program"]
    vars_, status = progrun.build_or_reject(prog)
    if vars_ is None:
        return status, [], []
    fails, labs = [], []
    old = signal.signal(signal.SIGALRM, _alarm)
    signal.alarm(WATCHDOG_S)
    try:
        for o in prog["outputs"]:
            x = vars_[o]
            raw = x.expr
            try:
                with dask.config.set({"array.optimize-graph": False}):
                    new_collection(raw).compute()
            except _Timeout:
                raise
            except Exception:
                labs.append("raw-not-computable")
                continue
            try:
                with rewrites.recording() as recs:
                    simp = raw.simplify()
                    low = simp.lower_completely()
                fused = low.fuse()
                opt = raw.optimize()
            except _Timeout:
                raise
            except NotImplementedError:
                return "refused", fails, labs
            except Exception as e:
                fails.append((util.exc_bucket("optimize-raises", e), util.exc_detail(e)))
                continue
            if len(recs) >= 2:
                labs.append("rewrites>=2")
            if any(type(n).__name__ == "FusedBlockwise" for n in fused.walk()):
                labs.append("fused")
            for phase, ex, again in (
                ("simplify", simp, lambda e: e.simplify()),
                ("lower", low, lambda e: e.lower_completely()),
                ("fuse", fused, lambda e: e.fuse()),
                ("optimize", opt, lambda e: e.optimize()),
            ):
                try:
                    ex2 = again(ex)
                except _Timeout:
                    raise
                except Exception as e:
                    fails.append((util.exc_bucket(f"re-{phase}-raises", e), util.exc_detail(e)))
                    continue
                if ex2._name != ex._name:
                    kinds = f"{type(ex).__name__}->{type(ex2).__name__}"
                    fails.append((f"idempotence|{phase}|{kinds}", f"{phase} of an already {phase}d expression changed its name: {ex._name} -> {ex2._name}"))
            try:
                with dask.config.set({"array.optimize-graph": True}):
                    x.compute()
            except _Timeout:
                raise
            except NotImplementedError:
                labs.append("refused-at-compute")
            except Exception as e:
                fails.append((util.exc_bucket("optimised-compute-raises", e), util.exc_detail(e)))
    except _Timeout:
        fails.append(("termination|watchdog", f"case did not finish within {WATCHDOG_S}s"))
    finally:
        signal.alarm(0)
        signal.signal(signal.SIGALRM, old)
    return "ok", fails, sorted(set(labs))


def replay(case):
    _, fails, _ = check(case)
    return fails


shrink = progrun.shrink_case


def nontrivial(case, labels):
    return "rewrites>=2" in labels


def run_shard(spec, seed):
    kw = {"family_weights": WEIGHTS} if spec.get("dense") else {}
    return progrun.run_program_shard(spec, seed, check, nontrivial, exclude_only=EXCLUDE, strategy_kwargs=kw)


def region_shared_source_under_slices(case):
    """A variable consumed by >= 2 statements (or twice by one) in a program that also has a basic slice:
    whether a slice is pushed into a shared node depends on what its other consumers have already become,
    so one optimisation pass need not reach the fixpoint."""
    prog = case["program"]
    if any(s["op"] in ("pad", "roll", "diff") for s in prog["stmts"]):
        # these build their result from several slices of ONE input (pad: edge pieces + body; roll: two pieces;
        # diff: x[1:] - x[:-1]): the same sharing, written by the library instead of the program
        return True
    # explicit sharing under a slice, or under a rechunk that is pushed through a concatenate/stack of the
    # shared variable (the pushdown slices each part: concatenate([x, x, repeat(x)]).rechunk(...))
    return P.shares_variable(prog) and any(s["op"] in ("getitem", "getitem_list", "take", "rechunk", "rechunk_auto") for s in prog["stmts"])


def _register():
    from vf import known

    known.PREDICATES["c08:KF-optimize-not-idempotent-shared-slices"] = region_shared_source_under_slices


_register()


def plan(tier):
    specs = progrun.plan_cases(tier, 3200, 300000)
    for i, s in enumerate(specs):
        s["dense"] = bool(i % 2)
    return specs


REQUIRED_CLASSES = {"quick": ["rewrites>=2", "fused"], "thorough": ["rewrites>=2", "fused"]}
