"""C19 — windowed and scan operations match their NumPy definitions."""

from __future__ import annotations

import itertools
import warnings

import hypothesis
import numpy as np
from hypothesis import HealthCheck, Phase, given, settings
from hypothesis import strategies as st

from vf import exclusions, progrun, util
from vf.gen import chunks as gchunks
from vf.gen.draw import D
from vf.runner import Collector

PROPERTY = "C19"
RULE = (
    "Hypothesis draws one of six kinds over arrays of rank 1-3 (axis lengths 0-24, five chunking families incl. blocks "
    "smaller than the window/depth): (swv) sliding_window_view(x, w, axis) for every 1<=w<=n, alone or under sum/prod/"
    "min/max/any/all/mean/var/std/nansum/nanmean/nanmax with keepdims; (mo) map_overlap of radius-r stencils with depth "
    ">= r given as int/dict/asymmetric tuples, boundary none/reflect/periodic/nearest/constant per axis, trim on/off, and "
    "bottleneck.move_sum/mean/min/max with min_count; (ov) overlap then trim_overlap round trip and overlap alone; "
    "(diff) diff with n<=3, prepend/append; (grad) gradient with scalar/array spacing and edge_order 1-2; (cum) cumsum/"
    "cumprod/nancumsum/nancumprod, sequential and blelloch, axis int or None. Oracle: the NumPy definition "
    "(sliding_window_view, np.pad-based block-loop reference for overlaps, bottleneck on the whole array, np.diff, "
    "np.gradient, np.cumsum...). Non-trivial: window/depth exceeds some block or spans >= 2 block boundaries, or the "
    "scan axis has >= 3 blocks; distinct = distinct case JSON."
)
ASSUMPTIONS = [
    "dask 'reflect' = np.pad 'symmetric', 'nearest' = 'edge', 'periodic' = 'wrap' (read from the implementation's docstrings)",
    "trim=False is only generated when no block is smaller than the depth (otherwise dask re-chunks and the untrimmed block structure is unspecified)",
    "a call rejected while building (depth larger than the array, chunks too small for gradient) is counted, not a failure",
]

SWV_REDS = ["sum", "prod", "min", "max", "any", "all", "mean", "var", "std", "nansum", "nanmean", "nanmax"]
NPMODE = {"reflect": "symmetric", "nearest": "edge", "periodic": "wrap"}


def data(case):
    shape = tuple(case["shape"])
    size = int(np.prod(shape))
    base = np.arange(size, dtype=np.int64)
    if size and np.gcd(5, size) == 1:
        base = (base * 5 + 2) % size
    base = base.reshape(shape) + case.get("offset", 0)
    dt = np.dtype(case["dtype"])
    if dt == np.bool_:
        a = base % 3 == 0
    elif case.get("small"):
        a = np.array([1, -1, 2, 1])[base % 4].astype(dt)
    else:
        a = base.astype(dt)
    if case.get("nan") and dt.kind == "f" and size:
        a = a.copy()
        a.reshape(-1)[np.arange(size) % 4 == 1] = np.nan
    return a


def _depth_pairs(case, ndim):
    """[(left, right)] per axis from the JSON depth spec."""
    d = case["depth"]
    out = []
    for ax in range(ndim):
        v = d.get(str(ax), 0) if isinstance(d, dict) else d
        out.append((v, v) if isinstance(v, int) else (v[0], v[1]))
    return out


def _depth_arg(case, ndim):
    d = case["depth"]
    if isinstance(d, dict):
        return {int(k): (tuple(v) if isinstance(v, list) else v) for k, v in d.items()}
    return d


def _boundary_arg(case, ndim):
    b = case["boundary"]
    conv = lambda v: (float("nan") if v == "nan" else v)
    if isinstance(b, dict):
        return {int(k): conv(v) for k, v in b.items()}
    return conv(b)


def _boundary_per_axis(case, ndim):
    b = case["boundary"]
    out = []
    for ax in range(ndim):
        v = b.get(str(ax), "none") if isinstance(b, dict) else b
        out.append(float("nan") if v == "nan" else v)
    return out


def _pad(a, depths, bounds):
    """Pad the whole array the way each boundary kind prescribes; returns (P, offsets)."""
    P = a
    offs = []
    for ax, ((dl, dr), b) in enumerate(zip(depths, bounds)):
        if b == "none" or (dl == 0 and dr == 0):
            offs.append(0)
            continue
        width = [(0, 0)] * a.ndim
        width[ax] = (dl, dr)
        if isinstance(b, str):
            P = np.pad(P, width, mode=NPMODE[b])
        else:
            P = np.pad(P, width, mode="constant", constant_values=b)
        offs.append(dl)
    return P, offs


def ref_overlap_blocks(a, chunks, depths, bounds, func, trim):
    """Block-loop reference: extended block of every block (from the padded
    array; truncated at true array edges for boundary 'none'), ``func`` applied,
    optionally trimmed, then assembled."""
    P, offs = _pad(a, depths, bounds)
    starts = [np.cumsum((0,) + tuple(c)) for c in chunks]
    nested = {}
    for idx in itertools.product(*[range(len(c)) for c in chunks]):
        sl, tr = [], []
        for ax, i in enumerate(idx):
            s, e = starts[ax][i], starts[ax][i + 1]
            dl, dr = depths[ax]
            off = offs[ax]
            n = P.shape[ax]
            if bounds[ax] == "none" or (dl == 0 and dr == 0):
                # no padding on this axis: the halo is whatever really exists
                lo, hi = max(0, s - dl), min(n, e + dr)
                tl, trr = s - lo, hi - e
            else:
                lo, hi = s + off - dl, e + off + dr
                tl, trr = dl, dr
            sl.append(slice(lo, hi))
            tr.append((tl, trr))
        blk = func(P[tuple(sl)])
        if trim:
            blk = blk[tuple(slice(tl, blk.shape[ax] - trr) for ax, (tl, trr) in enumerate(tr))]
        nested[idx] = blk

    def build(prefix, ax):
        if ax == len(chunks):
            return nested[prefix]
        return np.concatenate([build(prefix + (i,), ax + 1) for i in range(len(chunks[ax]))], axis=ax)

    return build((), 0)


def _stencil(case):
    from vf import funcs

    if case["fn"] == "local_sum":
        radii = [list(r) for r in case["radii"]]
        return lambda b: funcs.local_sum(b, radii=radii), {"radii": radii}, funcs.local_sum
    ax = case["fn_axis"]
    return lambda b: funcs.forward_diff(b, axis=ax), {"axis": ax}, funcs.forward_diff


def run_case(case):
    import dask_array as da

    kind = case["kind"]
    shape = tuple(case["shape"])
    chunks = tuple(tuple(c) for c in case["chunks"])
    assert len(shape) == len(chunks) and all(sum(c) == n and (all(v > 0 for v in c) or tuple(c) == (0,)) for c, n in zip(chunks, shape))
    a = data(case)
    x = da.from_array(a.copy(), chunks=chunks)
    labs = ["kind:" + kind]
    ops = []
    with warnings.catch_warnings():
        warnings.simplefilter("ignore")
        with np.errstate(all="ignore"):
            try:
                if kind == "swv":
                    exp = np.lib.stride_tricks.sliding_window_view(a, case["w"], axis=case["axis"])
                    build = lambda: da.sliding_window_view(x, case["w"], axis=case["axis"])
                    if case.get("red"):
                        ops = [case["red"]]
                        kw = {"axis": -1, "keepdims": case.get("keepdims", False)}
                        exp = getattr(np, case["red"])(exp, **kw)
                        b0 = build
                        build = lambda: getattr(da, case["red"])(b0(), **kw)
                elif kind == "mo":
                    depths = _depth_pairs(case, a.ndim)
                    bounds = _boundary_per_axis(case, a.ndim)
                    if case["fn"].startswith("move_"):
                        import bottleneck

                        f = getattr(bottleneck, case["fn"])
                        kw = {"window": case["w"], "axis": case["axis"]}
                        if case.get("min_count") is not None:
                            kw["min_count"] = case["min_count"]
                        exp = f(a, **kw)
                        # dtype given explicitly, as xarray's rolling does: bottleneck rejects the 1-element meta probe
                        build = lambda: x.map_overlap(f, depth=_depth_arg(case, a.ndim), boundary="none", dtype=a.dtype, **kw)
                    else:
                        fn, kw, raw = _stencil(case)
                        exp = ref_overlap_blocks(a, chunks, depths, bounds, fn, case.get("trim", True))
                        build = lambda: x.map_overlap(raw, depth=_depth_arg(case, a.ndim), boundary=_boundary_arg(case, a.ndim), trim=case.get("trim", True), dtype=a.dtype, **kw)
                elif kind == "ov":
                    depths = _depth_pairs(case, a.ndim)
                    bounds = _boundary_per_axis(case, a.ndim)
                    if case.get("roundtrip", True):
                        exp = a
                        build = lambda: da.trim_overlap(da.overlap(x, _depth_arg(case, a.ndim), _boundary_arg(case, a.ndim)), _depth_arg(case, a.ndim), _boundary_arg(case, a.ndim))
                    else:
                        exp = ref_overlap_blocks(a, chunks, depths, bounds, lambda b: b, False)
                        build = lambda: da.overlap(x, _depth_arg(case, a.ndim), _boundary_arg(case, a.ndim))
                elif kind == "diff":
                    kw = {"n": case["n"], "axis": case["axis"]}
                    for key in ("prepend", "append"):
                        if key in case:
                            kw[key] = case[key]
                    exp = np.diff(a, **kw)
                    build = lambda: da.diff(x, **kw)
                elif kind == "grad":
                    sp = case.get("spacing")
                    args = []
                    if isinstance(sp, (int, float)):
                        args = [sp]
                    elif sp == "coords":
                        args = [np.cumsum(np.arange(1, a.shape[case["axis"]] + 1)).astype("f8")]
                    kw = {"axis": case["axis"], "edge_order": case.get("edge_order", 1)}
                    exp = np.gradient(a, *args, **kw)
                    build = lambda: da.gradient(x, *args, **kw)
                elif kind == "cum":
                    name = case["fn"]
                    ops = [name]
                    ax = case["axis"]
                    exp = getattr(np, name)(a, axis=ax)
                    kw = {"method": case["method"]} if case.get("method") else {}
                    build = lambda: getattr(da, name)(x, axis=ax, **kw)
                else:
                    raise AssertionError(kind)
            except (ValueError, IndexError, TypeError, ZeroDivisionError) as e:
                raise AssertionError(f"numpy undefined: {type(e).__name__}: {e}")
    stage = "build"
    try:
        y = build()
        stage = "compute"
        with warnings.catch_warnings():
            warnings.simplefilter("ignore")
            got = y.compute()
    except NotImplementedError:
        return labs + ["refused-NotImplementedError"], []
    except Exception as e:
        if stage == "build" and isinstance(e, (ValueError, TypeError)) and kind in ("mo", "ov", "grad", "swv"):
            return labs + ["rejected-at-build:" + util.norm_msg(e, 40)], []
        if isinstance(e, ValueError) and "overlapping depth" in str(e) and "larger than your array" in str(e):
            # explicit rejection; map_overlap is lazy so it surfaces when the expression is lowered
            return labs + ["rejected:depth-larger-than-array"], []
        return labs, [(util.exc_bucket(f"{kind}-{stage}-raises", e), util.exc_detail(e))]
    atol = util.float_tolerance([a, exp], ops)
    if kind == "grad" and atol is not None:
        atol *= 64
    why = util.same(got, exp, rtol=0.0 if kind != "cum" or case["fn"] not in ("cumprod", "nancumprod") else 1e-9, atol=atol)
    if why is not None:
        sub = case.get("red") or case.get("fn") or ""
        return labs, [(f"{kind}|{sub}|{why.split(' ')[0]}", f"{why}\n got={util.short(got)}\n exp={util.short(exp)}")]
    if tuple(y.shape) != np.asarray(exp).shape:
        return labs, [(f"{kind}|advertised-shape", f"{tuple(y.shape)} vs {np.asarray(exp).shape}")]
    if kind in ("swv", "cum"):
        # the window kernels choose their own block layout; what comes out (also through persist,
        # which must keep the advertised chunks) has to be the advertised grid
        from vf.props import c03

        _, f, _ = c03.check_array(build(), "opt")
        if f:
            return labs, [(f"{kind}|{b}", d) for b, d in f[:1]]
        try:
            p = build().persist()
            if tuple(map(tuple, p.chunks)) != tuple(map(tuple, y.chunks)):
                return labs, [(f"{kind}|persist-changed-chunks", f"{y.chunks} -> {p.chunks}")]
        except Exception as e:
            return labs, [(util.exc_bucket(f"{kind}-persist", e), util.exc_detail(e))]
        labs = labs + ["blocks-checked"]
    return labs + ["compared"], []


def replay(case):
    _, fails = run_case(case)
    return fails


def region_minmax_empty(case):
    return case["kind"] == "swv" and case.get("red") in ("min", "max", "nanmax") and 0 in case["shape"]


def region_trim_false(case):
    return case["kind"] == "mo" and case.get("trim") is False


def region_cum_flat_zero_size(case):
    return case["kind"] == "cum" and case.get("axis") is None and 0 in case["shape"] and len(case["shape"]) >= 2


REGIONS = {"KF-map-overlap-trim-false": region_trim_false, "KF-reshape-zero-size": region_cum_flat_zero_size}


def _register():
    from vf import known

    for fid, fn in REGIONS.items():
        known.PREDICATES["c19:" + fid] = fn


_register()


def _gen_array(D_, max_len=24, min_rank=1, max_rank=3, long_min=2):
    rank = D_.weighted([(r, w) for r, w in [(1, 5), (2, 5), (3, 2)] if min_rank <= r <= max_rank])
    main = D_.int(0, rank - 1)
    shape = [D_.int(long_min, max_len) if ax == main else D_.weighted([(0, 1), (1, 2), (2, 3), (3, 3), (5, 1)]) for ax in range(rank)]
    chunks = [list(gchunks.axis_chunks(D_, n, max_blocks=9 if ax == main else 3)) for ax, n in enumerate(shape)]
    return rank, main, shape, chunks


@st.composite
def case_strategy(draw):
    D_ = D(draw)
    kind = D_.weighted([("swv", 6), ("mo", 7), ("ov", 2), ("diff", 2), ("grad", 2), ("cum", 4)])
    rank, main, shape, chunks = _gen_array(D_)
    case = {"kind": kind, "shape": shape, "chunks": chunks, "dtype": D_.choice(["f8", "f8", "i8", "f4", "i4"]), "offset": D_.choice([0, -4, 2]), "main": main}
    n = shape[main]
    if kind == "swv":
        case["axis"] = main - (rank if D_.chance(1, 4) else 0)
        case["w"] = D_.weighted([(1, 1), (n, 1), (D_.int(1, n), 6)])
        if D_.chance(3, 4):
            case["red"] = D_.choice(SWV_REDS)
            case["keepdims"] = D_.chance(1, 4)
            if case["red"] == "prod":
                case["small"] = True
            if case["red"].startswith("nan"):
                case["dtype"] = D_.choice(["f8", "f4"])
                case["nan"] = True
            if case["red"] in ("any", "all") and D_.bool():
                case["dtype"] = "bool"
        return case
    if kind in ("mo", "ov"):
        fnk = D_.weighted([("local_sum", 5), ("forward_diff", 2), ("move", 3)]) if kind == "mo" else "none"
        if fnk == "move":
            case["fn"] = D_.choice(["move_sum", "move_mean", "move_min", "move_max"])
            case["dtype"] = D_.choice(["f8", "f4"])
            case["axis"] = main
            w = D_.int(1, n)
            case["w"] = w
            case["depth"] = {str(main): [w - 1, 0]}
            case["boundary"] = "none"
            if D_.bool():
                case["min_count"] = D_.int(1, w)
            case["nan"] = D_.chance(1, 3)
            return case
        axes = sorted(set(D_.subset(range(rank), 0)) | {main})
        depth = {}
        radii = []
        bnd = {}
        asym = False
        for ax in axes:
            nn = shape[ax]
            if nn == 0:
                continue
            r = D_.int(0, min(3, nn))
            extra = D_.int(0, 2)
            kindb = D_.weighted([("none", 3), ("reflect", 3), ("periodic", 2), ("nearest", 2), ("const", 2)])
            if kindb == "none" and D_.chance(1, 3):
                depth[str(ax)] = [r + D_.int(0, 1), r + D_.int(0, 2)]
                asym = True
            else:
                depth[str(ax)] = r + extra
            bnd[str(ax)] = {"none": "none", "reflect": "reflect", "periodic": "periodic", "nearest": "nearest"}.get(kindb) or D_.choice([0, -7, "nan" if case["dtype"] in ("f8", "f4") else 3])
            radii.append([ax, r])
        if not depth:
            depth = {str(main): 0}
            bnd = {str(main): "none"}
        if len(depth) == rank and not asym and len({repr(v) for v in depth.values()}) == 1 and D_.bool():
            case["depth"] = list(depth.values())[0]
        else:
            case["depth"] = depth
        if len({repr(v) for v in bnd.values()}) == 1 and len(bnd) == rank and D_.bool():
            case["boundary"] = list(bnd.values())[0]
        else:
            # axes without an entry get dask's default ('reflect' for map_overlap); make all explicit
            for ax in range(rank):
                bnd.setdefault(str(ax), "none")
                depth.setdefault(str(ax), 0) if isinstance(case["depth"], dict) else None
            case["boundary"] = bnd
        if kind == "mo":
            if fnk == "local_sum":
                case["fn"] = "local_sum"
                case["radii"] = radii
            else:
                case["fn"] = "forward_diff"
                case["fn_axis"] = main
                d = case["depth"]
                dm = d.get(str(main), 0) if isinstance(d, dict) else d
                if (dm if isinstance(dm, int) else dm[1]) < 1:
                    if isinstance(d, dict):
                        d[str(main)] = 1
                    else:
                        case["depth"] = max(1, d)
            maxd = max([max(v) if isinstance(v, list) else v for v in (case["depth"].values() if isinstance(case["depth"], dict) else [case["depth"]])] + [0])
            if min(min(c) for c in chunks) >= max(1, maxd) and D_.chance(1, 4):
                case["trim"] = False
        else:
            maxd = max([max(v) if isinstance(v, list) else v for v in (case["depth"].values() if isinstance(case["depth"], dict) else [case["depth"]])] + [0])
            # the un-trimmed block structure is only specified when dask does not re-chunk first
            can_inspect = min(min(c) for c in chunks) > maxd  # dask merges blocks that are not larger than the depth
            case["roundtrip"] = True if not can_inspect else D_.chance(1, 2)
        return case
    if kind == "diff":
        case["axis"] = main - (rank if D_.chance(1, 4) else 0)
        case["n"] = D_.int(0, 3)
        if D_.chance(1, 3):
            case["prepend"] = D_.int(-2, 5)
        if D_.chance(1, 3):
            case["append"] = D_.int(-2, 5)
        return case
    if kind == "grad":
        case["axis"] = main
        case["dtype"] = D_.choice(["f8", "i8", "f4"])
        case["edge_order"] = D_.choice([1, 1, 2])
        sp = D_.choice([None, 2, 0.5, "coords"])
        if sp is not None:
            case["spacing"] = sp
        return case
    # cum
    case["fn"] = D_.choice(["cumsum", "cumsum", "cumprod", "nancumsum", "nancumprod"])
    if case["fn"] in ("cumprod", "nancumprod"):
        case["small"] = True
    if case["fn"].startswith("nan"):
        case["dtype"] = D_.choice(["f8", "f4"])
        case["nan"] = True
    ax = D_.weighted([("main", 6), ("other", 2), ("none", 2 if not case["fn"].startswith("nan") else 0)])
    case["axis"] = main if ax == "main" else (D_.int(-rank, rank - 1) if ax == "other" else None)
    if D_.chance(1, 2):
        case["method"] = D_.choice(["sequential", "blelloch"])
    return case


def labels_for(case):
    labs = []
    kind = case["kind"]
    main = case["main"]
    ch = case["chunks"][main]
    nb = len(ch)
    if kind == "swv":
        w = case["w"]
        if nb >= 2 and w - 1 > min(ch):
            labs.append("window>block")
        if nb >= 3 and w - 1 > ch[0] + ch[1] if nb >= 3 else False:
            labs.append("window-spans>=3-blocks")
        if case.get("red"):
            labs.append("swv-red:" + case["red"])
        else:
            labs.append("swv-plain")
    if kind in ("mo", "ov"):
        d = case["depth"]
        vals = [max(v) if isinstance(v, list) else v for v in (d.values() if isinstance(d, dict) else [d])]
        md = max(vals + [0])
        if nb >= 2 and md > min(ch):
            labs.append("depth>block")
        if any(isinstance(v, list) for v in (d.values() if isinstance(d, dict) else [])):
            labs.append("asymmetric-depth")
        b = case["boundary"]
        for v in b.values() if isinstance(b, dict) else [b]:
            labs.append("boundary:" + (v if isinstance(v, str) and v != "nan" else "constant"))
        if case.get("trim") is False:
            labs.append("trim=False")
        if str(case.get("fn", "")).startswith("move_"):
            labs.append("bottleneck:" + case["fn"])
            if nb >= 2 and case["w"] - 1 > min(ch):
                labs.append("window>block")
    if kind == "cum":
        labs.append("cum:" + case["fn"])
        labs.append("method:" + str(case.get("method")))
        if case["axis"] is None:
            labs.append("cum-axis-none")
        if nb >= 3:
            labs.append("scan>=3-blocks")
    if 0 in case["shape"]:
        labs.append("zero-length-axis")
    if nb >= 2:
        labs.append("multi-block")
    return labs


def nontrivial(labels):
    return any(l in labels for l in ("window>block", "depth>block", "scan>=3-blocks", "window-spans>=3-blocks")) or ("multi-block" in labels and any(l.startswith(("kind:diff", "kind:grad")) for l in labels))


def run_shard(spec, seed):
    col = Collector()
    open_ids = exclusions._open_ids()

    @hypothesis.seed(seed)
    @settings(max_examples=spec["cases"], database=None, deadline=None, derandomize=False, phases=[Phase.generate], suppress_health_check=list(HealthCheck))
    @given(case_strategy())
    def body(case):
        for fid, fn in REGIONS.items():
            if fid in open_ids and fn(case):
                col.exclude(fid)
                return
        try:
            labs, fails = run_case(case)
        except AssertionError as e:
            col.reject("invalid:" + str(e)[:60])
            return
        labels = labs + labels_for(case)
        col.case(case, nontrivial(labels), labels)
        for b, d in fails:
            col.fail(b, case, d)

    body()
    return col.result()


def plan(tier):
    return progrun.plan_cases(tier, 3200, 250000)


REQUIRED_CLASSES = {
    "quick": ["kind:swv", "kind:mo", "kind:ov", "kind:diff", "kind:grad", "kind:cum", "window>block", "depth>block", "asymmetric-depth", "boundary:reflect", "boundary:periodic", "boundary:nearest", "boundary:constant", "boundary:none", "method:blelloch", "scan>=3-blocks", "bottleneck:move_sum", "compared"],
    "thorough": ["kind:swv", "kind:mo", "kind:ov", "kind:diff", "kind:grad", "kind:cum", "window>block", "depth>block", "asymmetric-depth", "boundary:reflect", "boundary:periodic", "boundary:nearest", "boundary:constant", "boundary:none", "method:blelloch", "scan>=3-blocks", "bottleneck:move_sum", "cum-axis-none", "window-spans>=3-blocks", "compared"],
}
