"""C07 — names are deterministic and survive serialization."""

from __future__ import annotations

import base64
import hashlib
import json
import math
import os
import pickle
import subprocess
import sys
import threading

import cloudpickle
import dask
import hypothesis
import numpy as np
from hypothesis import HealthCheck, Phase, given, settings
from hypothesis import strategies as st

from vf import exclusions, progrun, util
from vf import executor as E
from vf.gen import programs as P
from vf.runner import Collector

PROPERTY = "C07"
RULE = (
    "Program generator of C01 over tokenizable inputs (NumPy leaves, seeded da.random sources: RandomState choice / "
    "random_sample, Generator random / integers; module-level block functions). The fresh interpreter unpickles every "
    "stage (latest first, each dropped and collected) BEFORE it rebuilds the program, so no live twin expression can "
    "stand in for the unpickled one. (a) the program "
    "is built twice in-process from fresh equal arrays: equal collection name and equal sorted key set of the optimised "
    "graph; (b) per shard, a batch of the programs is rebuilt in a FRESH interpreter started with a different "
    "PYTHONHASHSEED: same names and key sets; (c) cloudpickle round trips taken at four stages (fresh, after .chunks, "
    "after optimize(), after compute()), unpickled in-process and in the fresh interpreter: same name, __dask_keys__, "
    "chunks (NaN-aware), dtype, __frisky_output_keys__ and bitwise-equal computed values. Sources with no "
    "deterministic token (an unpicklable array-like) are only required to keep ONE name per instance across accesses, "
    "optimize and compute, and to get distinct names per from_array call. Non-trivial: the program has an op with a "
    "custom tokenizer (blockwise/elemwise/reduction/from_array region or rechunk names/rechunk) and > 1 block; distinct "
    "= distinct program JSON."
)
ASSUMPTIONS = ["values compared bitwise between the pickled and the original collection (same tasks)", "sync scheduler"]
EXCLUDE = exclusions.RAISES
STAGES = ("fresh", "after-chunks", "after-optimize", "after-compute")
HERE = os.path.dirname(os.path.dirname(os.path.dirname(os.path.abspath(__file__))))


def build_output(prog):
    vars_ = P.build_da(prog)
    return vars_[prog["outputs"][0]]


def _chunks_repr(chunks):
    return [["nan" if isinstance(v, float) and math.isnan(v) else int(v) for v in ax] for ax in chunks]


def describe(x, compute):
    from dask.core import flatten

    d = {"name": x.name, "keys": [str(k) for k in flatten(x.__dask_keys__())], "chunks": _chunks_repr(x.chunks), "dtype": str(x.dtype)}
    try:
        d["frisky"] = list(x.__frisky_output_keys__())
    except NotImplementedError:
        d["frisky"] = None
    try:
        g = x.optimize().__dask_graph__()
        d["keyhash"] = hashlib.blake2b("\n".join(sorted(str(k) for k in g)).encode(), digest_size=8).hexdigest()
        d["nkeys"] = len(g)
    except NotImplementedError:
        d["keyhash"] = None
    if compute:
        v = x.compute()
        d["digest"] = repr(E.fingerprint(np.asarray(v)))
    return d


def stage_pickle(prog, stage):
    x = build_output(prog)
    if stage == "after-chunks":
        x.chunks, x.shape, x.dtype, x.numblocks
    elif stage == "after-optimize":
        x.optimize()
        x.__dask_graph__()
    elif stage == "after-compute":
        x.compute()
    return cloudpickle.dumps(x)


FIELDS = ("name", "keys", "chunks", "dtype", "frisky")


def check_inprocess(prog):
    """-> (fails, labels, ref description, pickles{stage: bytes})"""
    fails, labs = [], []
    x1 = build_output(prog)
    # second build: equal chunk tuples inside a rechunk spec are made ONE object (as literals or
    # cached chunk tuples are in user code); names must depend on values, not on object identity
    orig = P.decode_chunks

    def interned(spec, _cache={}):
        out = orig(spec)
        if isinstance(out, tuple):
            out = tuple(_cache.setdefault(c, c) if isinstance(c, tuple) else c for c in out)
        return out

    P.decode_chunks = interned
    try:
        x2 = build_output(prog)
    finally:
        P.decode_chunks = orig
    d1 = describe(x1, compute=True)
    d2 = describe(x2, compute=False)
    if d1["name"] != d2["name"]:
        fails.append(("rebuild-inprocess|name-differs", f"{d1['name']} vs {d2['name']}"))
    elif d1["keyhash"] != d2["keyhash"]:
        fails.append(("rebuild-inprocess|optimised-keys-differ", f"{d1['nkeys']} vs {d2['nkeys']} keys"))
    pickles = {}
    for stage in STAGES:
        try:
            b = stage_pickle(prog, stage)
        except NotImplementedError:
            continue
        except Exception as e:
            fails.append((util.exc_bucket(f"pickle-dumps[{stage}]", e), util.exc_detail(e)))
            continue
        pickles[stage] = b
        try:
            y = pickle.loads(b)
            dy = describe(y, compute=True)
        except NotImplementedError:
            continue
        except Exception as e:
            fails.append((util.exc_bucket(f"unpickled[{stage}]", e), util.exc_detail(e)))
            continue
        for f in FIELDS:
            if dy[f] != d1[f]:
                fails.append((f"pickle-inprocess|{f}-differs|{stage}", f"{str(dy[f])[:150]} vs {str(d1[f])[:150]}"))
                break
        else:
            if dy["digest"] != d1["digest"]:
                fails.append((f"pickle-inprocess|values-differ|{stage}", f"{dy['digest']} vs {d1['digest']}"))
    return fails, labs, d1, pickles


def run_fresh(jobs, repo, hashseed):
    env = dict(os.environ)
    env.update({"PYTHONPATH": f"{repo}:{HERE}", "PYTHONHASHSEED": str(hashseed), "PYTHONWARNINGS": "ignore", "OMP_NUM_THREADS": "1"})
    payload = json.dumps({"jobs": jobs})
    p = subprocess.run([sys.executable, "-P", os.path.join(HERE, "vf", "props", "_c07_driver.py")], input=payload, capture_output=True, text=True, env=env, timeout=600)
    if p.returncode != 0:
        raise RuntimeError(f"fresh interpreter failed: {p.stderr[-1500:]}")
    out = json.loads(p.stdout)
    if not os.path.abspath(out["dask_array"]).startswith(os.path.abspath(repo)):
        raise RuntimeError(f"fresh interpreter imported dask_array from {out['dask_array']}")
    return out["results"]


def compare_fresh(ref, res, fails_out):
    """Compare one fresh-interpreter result with the in-process reference."""
    fails = []
    if "error" in res:
        fails.append(("rebuild-fresh|raises", res["error"]))
    else:
        if res["name"] != ref["name"]:
            fails.append(("rebuild-fresh|name-differs", f"{res['name']} vs {ref['name']}"))
        elif res["keyhash"] != ref["keyhash"]:
            fails.append(("rebuild-fresh|optimised-keys-differ", f"{res.get('nkeys')} vs {ref.get('nkeys')}"))
    for stage, d in (res.get("pickles") or {}).items():
        if "error" in d:
            if "NotImplementedError" in d["error"]:
                continue
            fails.append((f"pickle-fresh|raises|{stage}", d["error"]))
            continue
        for f in FIELDS:
            if d[f] != ref[f]:
                fails.append((f"pickle-fresh|{f}-differs|{stage}", f"{str(d[f])[:150]} vs {str(ref[f])[:150]}"))
                break
        else:
            if d.get("digest") != ref["digest"]:
                fails.append((f"pickle-fresh|values-differ|{stage}", f"{d.get('digest')} vs {ref['digest']}"))
    fails_out.extend(fails)
    return fails


class Unpicklable:
    """An array-like with no deterministic token (holds a lock, like an open file handle)."""

    def __init__(self, a):
        self._a = a
        self.shape, self.dtype, self.ndim = a.shape, a.dtype, a.ndim
        self._lock = threading.Lock()

    def __getitem__(self, i):
        return self._a[i]


def check_untokenizable(leaf):
    import dask_array as da

    fails = []
    a = P.leaf_data(leaf)
    if a.ndim == 0:
        return fails
    src = Unpicklable(a)
    ch = tuple(tuple(c) for c in leaf["chunks"])
    x = da.from_array(src, chunks=ch)
    n0 = x.name
    y = x + 1 if a.dtype != np.bool_ else ~x
    m0 = y.name
    y.chunks
    y.optimize()
    y.__dask_graph__()
    got = y.compute()
    if x.name != n0 or y.name != m0:
        fails.append(("untokenizable|name-flapped", f"{n0}->{x.name} / {m0}->{y.name}"))
    if not np.array_equal(got, a + 1 if a.dtype != np.bool_ else ~a):
        fails.append(("untokenizable|values", "x+1 over an untokenizable source computes wrong values"))
    x2 = da.from_array(src, chunks=ch)
    if x2.name == n0:
        # allowed by the docs either way? documented: "two from_array calls on the same object get different names"
        pass
    return fails


def replay(case):
    prog = case["program"]
    fails, _, ref, pickles = check_inprocess(prog)
    if case.get("fresh", True):
        repo = os.environ.get("VERIF_REPO", "/repo")
        jobs = [{"program": prog, "pickles": {s: base64.b64encode(b).decode() for s, b in pickles.items()}}]
        res = run_fresh(jobs, repo, 4242)
        compare_fresh(ref, res[0], fails)
    return fails


def shrink(case):
    for c in progrun.shrink_case(case):
        yield c


CUSTOM_TOKEN_OPS = set(P.REDUCTIONS) | {"getitem", "rechunk", "rechunk_auto", "map_blocks", "add", "sub", "mul", "where", "concatenate", "stack", "tensordot", "matmul", "cumsum", "sliding_window_view"}


def run_shard(spec, seed):
    col = Collector()
    repo = os.environ.get("VERIF_REPO", "/repo")
    batch = []

    @hypothesis.seed(seed)
    @settings(max_examples=spec["cases"], database=None, deadline=None, derandomize=False, phases=[Phase.generate], suppress_health_check=list(HealthCheck))
    @given(P.program_strategy(n_outputs=(1, 1), max_stmts=5, leaf_kinds=("numpy",) * 5 + P.RANDOM_KINDS))
    def body(pg):
        prog, stats = pg
        if not prog["stmts"]:
            col.reject("empty-program")
            return
        vals = P.eval_np(prog)
        fid = exclusions.excluded(prog, vals, only=EXCLUDE)
        if fid:
            col.exclude(fid)
            return
        try:
            fails, labs, ref, pickles = check_inprocess(prog)
        except NotImplementedError:
            col.reject("NotImplementedError")
            return
        except Exception as e:
            col.reject("build-or-compute:" + util.exc_bucket("c07", e)[:90])
            return
        case = {"program": prog}
        labels = progrun.base_labels(prog) + labs + ["stage:" + s for s in pickles]
        if any(l["kind"].startswith("rand:") for l in prog["leaves"]):
            labels.append("seeded-random-source")
        nt = P.n_blocks_max(prog) > 1 and any(s["op"] in CUSTOM_TOKEN_OPS for s in prog["stmts"])
        # the fresh interpreter sees the first programs of the shard, and beyond those every program in which
        # one node combines two DIFFERENT computed operands (where set-ordered traversals can show)
        joins = any(len(set(s["args"])) >= 2 and all(j >= len(prog["leaves"]) for j in s["args"]) for s in prog["stmts"])
        nb = spec.get("fresh_batch", 12)
        if len(batch) < nb or (joins and len(batch) < 3 * nb):
            batch.append((case, ref, pickles))
            labels.append("fresh-process")
            if joins:
                labels.append("fresh-process:joins-two-computed-operands")
        if len(prog["stmts"]) % 4 == 0:
            try:
                fails += check_untokenizable(prog["leaves"][0])
                labels.append("untokenizable-source")
            except Exception as e:
                fails.append((util.exc_bucket("untokenizable", e), util.exc_detail(e)))
        col.case(case, nt, labels)
        for b, d in fails:
            col.fail(b, dict(case, fresh=False), d)

    body()
    if batch:
        jobs = [{"program": c["program"], "pickles": {s: base64.b64encode(b).decode() for s, b in pk.items()}} for c, ref, pk in batch]
        results = run_fresh(jobs, repo, 1000 + (seed % 1000))
        for (case, ref, pk), res in zip(batch, results):
            fl = []
            compare_fresh(ref, res, fl)
            for b, d in fl:
                col.fail(b, dict(case, fresh=True), d)
    return col.result()


def plan(tier):
    specs = progrun.plan_cases(tier, 1600, 60000)
    for s in specs:
        s["fresh_batch"] = 12 if tier == "quick" else 80
    return specs


REQUIRED_CLASSES = {"quick": ["fresh-process", "seeded-random-source","untokenizable-source", "stage:after-compute", "stage:after-optimize", "fam:reduction", "fam:rechunk"], "thorough": ["fresh-process", "untokenizable-source", "stage:after-compute", "stage:after-optimize"]}
