"""C09 — results do not depend on materialization history or planner configuration."""

from __future__ import annotations

import gc
import json

import dask
import hypothesis
import numpy as np
from hypothesis import HealthCheck, Phase, given, settings
from hypothesis import strategies as st

from vf import exclusions, progrun, util
from vf.gen import programs as P
from vf.gen.draw import D
from vf.runner import Collector

PROPERTY = "C09"
RULE = (
    "HISTORIES (one Hypothesis example = one history of <= 30 steps in one process, the shared lowering cache and the "
    "singleton registry persisting across the whole shard): over a pool of variables built from <= 2 shared leaves with "
    "the C01 op table, steps are build(statement) / compute(v) / compute_many(vs) / optimize(v) / graph(v) / persist(v) "
    "(result joins the pool) / rebuild(v) (same statement again) / drop(v)+gc, each executed under a freshly drawn "
    "configuration: array.optimize-graph {T,F}, array.rechunk.threshold {1,4,32,1000}, array.rechunk.degree-limit "
    "{2,3,100}, array.rechunk.method {None,'tasks'}, array.chunk-size {64B,1kiB,128MiB}, array.unify-chunks-policy "
    "{auto,coarse,refine}, array.unify-chunks-limit {None,32B,512MiB}, split_every {2,3,16}. One history in six starts "
    "with a scripted prefix: a 1-d input of 7-20 one- or two-element blocks is reduced under fan-in 2/3, computed, the "
    "same statement is rebuilt under fan-in 4/16 (or in the other order) while the first is alive, and computed. Oracle: every compute, "
    "whenever and under whatever configuration it happens, equals the NumPy value fixed when the variable was built "
    "(C01 tolerance). Non-trivial: the history computes variables sharing a subtree under >= 2 different "
    "configurations with a drop or rebuild in between; distinct = distinct history JSON."
)
ASSUMPTIONS = ["NumPy twin is the reference", "sync scheduler", "the listed config keys are applied with dask.config.set around each step (construction-time and graph-build-time reads are both covered because build and compute steps draw independently)"]
EXCLUDE = exclusions.ALL

CFG = {
    "array.optimize-graph": [True, True, False],
    "array.rechunk.threshold": [None, 1, 4, 32, 1000],
    "array.rechunk.degree-limit": [None, 2, 3, 100],
    "array.rechunk.method": [None, "tasks"],
    "array.chunk-size": [None, "64B", "1kiB", "128MiB"],
    "array.unify-chunks-policy": [None, "auto", "coarse", "refine"],
    "array.unify-chunks-limit": [None, "32B", "512MiB"],
    "split_every": [None, 2, 3, 16],
}


def draw_cfg(D_):
    if D_.chance(1, 4):
        return {}
    cfg = {}
    for k, vs in CFG.items():
        if D_.chance(1, 2):
            v = D_.choice(vs)
            if v is not None or k == "array.optimize-graph":
                cfg[k] = v
    return cfg


def _cfg(cfg):
    # a per-axis split_every mapping travels through JSON with string keys
    return dask.config.set({k: ({int(a): b for a, b in v.items()} if isinstance(v, dict) else v) for k, v in cfg.items() if v is not None})


class History:
    """Interpreter for a history; used both while generating and for replay."""

    def __init__(self, leaves):
        import dask_array as da

        self.leaves = leaves
        self.np = [P.leaf_data(l) for l in leaves]
        self.da = [da.from_array(a.copy(), chunks=tuple(tuple(c) for c in l["chunks"])) for a, l in zip(self.np, leaves)]
        self.stmt = [None] * len(leaves)  # statement that built each variable (args are pool indices)
        self.alive = [True] * len(leaves)
        self.ops = [[] for _ in leaves]  # ops in each variable's ancestry
        self.fails = []
        self.labels = set()
        self.computed_cfgs = {}
        self.event_between = False

    def atol(self, v):
        return util.float_tolerance([self.np[v]] + self.np[: len(self.leaves)], self.ops[v])

    def step(self, s):
        k = s["k"]
        cfg = s.get("cfg", {})
        self.labels.add("step:" + k)
        if cfg:
            self.labels.add("non-default-config")
            for key in cfg:
                self.labels.add("cfg:" + key)
        try:
            with _cfg(cfg):
                if k == "build":
                    st_ = s["stmt"]
                    o = P.OPS[st_["op"]]
                    args = [self.da[j] for j in st_["args"]]
                    x = o.da(st_, args)
                    self.da.append(x)
                    self.np.append(P.np_apply(st_, self.np))
                    self.stmt.append(st_)
                    self.alive.append(True)
                    self.ops.append(sorted({st_["op"]} | {o2 for j in st_["args"] for o2 in self.ops[j]}))
                elif k == "rebuild":
                    v = s["v"]
                    st_ = self.stmt[v]
                    if st_ is None or any(not self.alive[j] for j in st_["args"]):
                        return  # nothing to rebuild from (persisted result, or an operand was dropped)
                    x = P.OPS[st_["op"]].da(st_, [self.da[j] for j in st_["args"]])
                    self.da.append(x)
                    self.np.append(self.np[v])
                    self.stmt.append(st_)
                    self.alive.append(True)
                    self.ops.append(self.ops[v])
                    self.event_between = True
                elif k == "drop":
                    v = s["v"]
                    if v >= len(self.leaves):
                        self.da[v] = None
                        self.alive[v] = False
                        gc.collect()
                        self.event_between = True
                elif k == "compute":
                    self._compare(s["v"], self.da[s["v"]].compute(), cfg)
                elif k == "compute_many":
                    vs = [v for v in s["vs"] if self.alive[v]]
                    if vs:
                        got = dask.compute(*[self.da[v] for v in vs])
                        for v, g in zip(vs, got):
                            self._compare(v, g, cfg)
                elif k == "optimize":
                    self.da[s["v"]].optimize()
                elif k == "graph":
                    self.da[s["v"]].__dask_graph__()
                elif k == "persist":
                    v = s["v"]
                    p = self.da[v].persist()
                    self.da.append(p)
                    self.np.append(self.np[v])
                    self.stmt.append(None)
                    self.alive.append(True)
                    self.ops.append(self.ops[v])
        except NotImplementedError:
            self.labels.add("refused:" + k)
            if k in ("build", "rebuild", "persist") and len(self.da) < len(self.np):
                self.np.pop()
        except P.NumpyUndefined as e:
            raise AssertionError(f"invalid history: {e}")
        except Exception as e:
            if k in ("build", "rebuild") :
                # a public call rejecting the statement while building: not a program (as in C01)
                self.labels.add("rejected-at-build")
                while len(self.np) > len(self.da):
                    self.np.pop()
                return
            last = self.ops[s["v"]][-1:] if "v" in s and s["v"] < len(self.ops) else []
            self.fails.append((util.exc_bucket(f"{k}-raises", e), f"step {s}: " + util.exc_detail(e)))

    def _compare(self, v, got, cfg):
        why = util.same(got, self.np[v], rtol=0.0, atol=self.atol(v))
        key = json.dumps(cfg, sort_keys=True)
        prev = self.computed_cfgs.setdefault("any", set())
        if prev and key not in prev and self.event_between:
            self.labels.add("recompute-under-other-config-after-drop-or-rebuild")
        prev.add(key)
        if why:
            op = self.stmt[v]["op"] if self.stmt[v] else "persisted"
            self.fails.append((f"compute-differs|{why.split(' ')[0]}|{op}", f"variable {v} under config {cfg}: {why}\n got={util.short(got)}\n exp={util.short(self.np[v])}"))


def replay(case):
    h = History(case["leaves"])
    for s in case["steps"]:
        if "v" in s and (s["v"] >= len(h.da) or not h.alive[s["v"]]):
            raise AssertionError("step refers to a missing variable")
        if s["k"] == "build" and any(j >= len(h.da) or not h.alive[j] for j in s["stmt"]["args"]):
            raise AssertionError("statement refers to a missing variable")
        n0 = len(h.da)
        h.step(s)
        if s["k"] in ("build", "rebuild", "persist") and len(h.da) == n0:
            # keep indices aligned with the recorded history
            h.da.append(None)
            h.np.append(None)
            h.stmt.append(None)
            h.alive.append(False)
            h.ops.append([])
    return h.fails


def shrink(case):
    steps = case["steps"]
    # drop one step (only if nothing later refers to the variable it creates)
    creates = []
    n = len(case["leaves"])
    for s in steps:
        creates.append(n if s["k"] in ("build", "rebuild", "persist") else None)
        if s["k"] in ("build", "rebuild", "persist"):
            n += 1
    for i in reversed(range(len(steps))):
        c = creates[i]
        if c is not None:
            used = any((t.get("v") == c) or (c in t.get("vs", [])) or (t["k"] == "build" and c in t["stmt"]["args"]) for t in steps[i + 1 :])
            if used:
                continue

            def shift(j):
                return j - 1 if j > c else j

            new = []
            for t in steps[:i] + steps[i + 1 :]:
                new.append(json.loads(json.dumps(t)))
            for t in new[i:]:
                if "v" in t:
                    t["v"] = shift(t["v"])
                if "vs" in t:
                    t["vs"] = [shift(j) for j in t["vs"]]
                if t["k"] == "build":
                    t["stmt"]["args"] = [shift(j) for j in t["stmt"]["args"]]
            yield {"leaves": case["leaves"], "steps": new}
        else:
            yield {"leaves": case["leaves"], "steps": steps[:i] + steps[i + 1 :]}
    # default configs
    for i, s in enumerate(steps):
        if s.get("cfg"):
            for key in list(s["cfg"]):
                t = json.loads(json.dumps(steps))
                del t[i]["cfg"][key]
                yield {"leaves": case["leaves"], "steps": t}


@st.composite
def history_st(draw, max_steps):
    D_ = D(draw)
    leaves = [P.gen_leaf(D_, max_rank=3, max_len=7)]
    if D_.chance(1, 2):
        leaves.append(P.gen_leaf(D_, shape=tuple(leaves[0]["shape"])))
    script = []
    tree_seen, unify_seen = [False], [False]
    if D_.chance(1, 6):
        # scripted prefix: one input with MANY blocks, reduced under a small fan-in, computed (its lowered
        # tree stays alive), then the same statement again under a larger fan-in (or the other way round)
        n = D_.int(7, 20)
        ch = [1] * n if D_.bool() else [2] * (n // 2) + ([1] if n % 2 else [])
        leaves = [{"shape": [n], "dtype": D_.choice(["f8", "i8"]), "chunks": [ch], "offset": D_.choice([0, 1, -3]), "kind": "numpy"}]
        s = P.OPS[D_.choice(["sum", "sum", "mean", "max", "min", "argmax"])].gen(D_, [P.leaf_data(leaves[0])])
        if s is not None:
            s = {k: v for k, v in s.items() if k != "split_every"}
            s["args"] = [0]
            a, b = D_.choice([2, 3]), D_.choice([4, 16])
            if D_.chance(1, 4):
                a, b = b, a
            script = [{"k": "build", "stmt": s, "cfg": {"split_every": a}}, {"k": "compute", "v": 1, "cfg": {}}, {"k": "rebuild", "v": 1, "cfg": {"split_every": b}}, {"k": "compute", "v": 2, "cfg": {}}]
            tree_seen[0] = True
        if D_.chance(1, 3):
            # variant: a 2-d input of one-element blocks reduced over both axes under a PER-AXIS fan-in mapping
            # (the axis with the most blocks is not the one that needs the most levels)
            if D_.chance(2, 3):
                # the relation that matters: the axis with MORE blocks has the LARGER fan-in and needs fewer
                # levels than the other one (7 blocks / fan-in 3: 2 levels; 6 blocks / fan-in 2: 3 levels)
                n1 = D_.int(5, 6)
                n0 = D_.int(n1, 8)
                f0, f1 = 3, 2
                if D_.bool():
                    n0, n1, f0, f1 = n1, n0, f1, f0
            else:
                n0, n1, f0, f1 = D_.int(5, 7), D_.int(4, 6), D_.choice([2, 3, 4]), D_.choice([2, 3, 4])
            leaves = [{"shape": [n0, n1], "dtype": D_.choice(["f8", "i8"]), "chunks": [[1] * n0, [1] * n1], "offset": D_.choice([0, 1, -3]), "kind": "numpy"}]
            red = D_.choice(["sum", "sum", "mean", "max", "min"])
            s = {"op": red, "args": [0], "axis": None if D_.bool() else [0, 1], "keepdims": D_.chance(1, 3)}
            fan = {"0": f0, "1": f1}
            script = [{"k": "build", "stmt": s, "cfg": {"split_every": fan}}, {"k": "compute", "v": 1, "cfg": {}}, {"k": "compute", "v": 1, "cfg": {"split_every": D_.choice([2, 16])}}]
            tree_seen[0] = True
    h = History(leaves)
    steps = []
    for step in script:
        h.step(step)
        steps.append(step)
        if h.fails:
            return {"leaves": leaves, "steps": steps}, h.fails, sorted(h.labels | {"fan-in-script"})
    if script:
        h.labels.add("fan-in-script")
    fams = P.ops_by_family()
    fw = dict(P.FAMILY_WEIGHTS)
    nsteps = D_.int(4, max_steps)
    for _ in range(nsteps):
        alive = [i for i, a in enumerate(h.alive) if a]
        built = [i for i in alive if i >= len(leaves)]
        kind = D_.weighted([("build", 8), ("compute", 6 if built else 0), ("compute_many", 2 if len(built) >= 2 else 0), ("optimize", 2 if built else 0), ("graph", 2 if built else 0), ("persist", 1 if built else 0), ("rebuild", 2 if built else 0), ("drop", 2 if built else 0)])
        cfg = draw_cfg(D_)
        if tree_seen[0] and "KF-matmul-tree-depth-config-drift" in exclusions._open_ids():
            cfg = {k: v for k, v in cfg.items() if not k.startswith("array.unify-chunks")}
        if any(k.startswith("array.unify-chunks") for k in cfg):
            unify_seen[0] = True
        if kind == "build":
            fam = D_.weighted([(f, fw[f]) for f in sorted(fams) if fw.get(f, 0) > 0])
            name = D_.choice(fams[fam])
            # generate against the alive variables only
            idx_map = alive
            sub_vals = [h.np[i] for i in idx_map]
            s = P.OPS[name].gen(D_, sub_vals)
            if s is None:
                continue
            s = dict(s)
            s["args"] = [idx_map[j] for j in s["args"]]
            try:
                v = P.np_apply(s, h.np)
            except P.NumpyUndefined:
                continue
            if v.size > 300 or v.ndim > 4:
                continue
            # steer around regions of listed findings
            probe = {"leaves": [], "stmts": [dict(s, args=list(range(len(s["args"]))))], "outputs": [len(s["args"])]}
            try:
                pv = [h.np[j] for j in s["args"]] + [v]
                probe_prog = {"leaves": [{} for _ in s["args"]], "stmts": probe["stmts"], "outputs": probe["outputs"]}
                if exclusions.excluded(probe_prog, pv, only=EXCLUDE):
                    continue
            except Exception:
                pass
            if s["op"] in TREE_OPS and "KF-matmul-tree-depth-config-drift" in exclusions._open_ids():
                # region of a listed finding: a tree reduction with a non-default fan-in (keyword or
                # config) in a history that also changes chunk unification
                if unify_seen[0]:
                    cfg = {k: v for k, v in cfg.items() if k != "split_every"}
                    s.pop("split_every", None)
                elif "split_every" in cfg or "split_every" in s:
                    tree_seen[0] = True
            step = {"k": "build", "stmt": s, "cfg": cfg}
        elif kind == "compute_many":
            step = {"k": kind, "vs": D_.subset(built, 2, 3), "cfg": cfg}
        else:
            v = D_.choice(built)
            if kind == "rebuild":
                # prefer re-building tree reductions, under another fan-in: two live programs that
                # differ only in a construction-time option must not be confused with each other
                trees = [i for i in built if h.stmt[i] and h.stmt[i]["op"] in TREE_OPS and "split_every" not in h.stmt[i]]
                if trees and D_.chance(2, 3):
                    v = D_.choice(trees)
                    if not unify_seen[0] or "KF-matmul-tree-depth-config-drift" not in exclusions._open_ids():
                        cfg = dict(cfg, split_every=D_.choice([2, 4, 16]))
                        tree_seen[0] = True
            step = {"k": kind, "v": v, "cfg": cfg}
        n0 = len(h.da)
        h.step(step)
        if step["k"] in ("build", "rebuild", "persist") and len(h.da) == n0:
            continue  # refused/rejected: leave it out of the recorded history
        steps.append(step)
        if h.fails:
            break
    return {"leaves": leaves, "steps": steps}, h.fails, sorted(h.labels)


def region_matmul_split_every(case):
    """A matmul built while a `split_every` configuration is in effect (its reduction-tree depth is
    frozen from the construction-time block count) in a history that also changes chunk unification."""
    built = any(s["k"] == "build" and s["stmt"]["op"] in TREE_OPS and ("split_every" in s.get("cfg", {}) or "split_every" in s["stmt"]) for s in case["steps"])
    unify = any(any(k.startswith("array.unify-chunks") for k in s.get("cfg", {})) for s in case["steps"])
    return built and unify


TREE_OPS = set(P.REDUCTIONS) | {"matmul", "tensordot", "wsum"}


def _register():
    from vf import known

    known.PREDICATES["c09:KF-matmul-tree-depth-config-drift"] = region_matmul_split_every


_register()


def run_shard(spec, seed):
    col = Collector()

    @hypothesis.seed(seed)
    @settings(max_examples=spec["cases"], database=None, deadline=None, derandomize=False, phases=[Phase.generate], suppress_health_check=list(HealthCheck))
    @given(history_st(spec.get("max_steps", 25)))
    def body(res):
        case, fails, labels = res
        if not case["steps"]:
            col.reject("empty-history")
            return
        col.case(case, "recompute-under-other-config-after-drop-or-rebuild" in labels, labels)
        for b, d in fails:
            col.fail(b, case, d)

    body()
    from dask_array import _materialize

    col.extra["lower_cache_size_at_end"] = len(_materialize._LOWER_CACHE)
    return col.result()


def plan(tier):
    specs = progrun.plan_cases(tier, 640, 9000)
    for s in specs:
        s["max_steps"] = 25 if tier == "quick" else 45
    return specs


REQUIRED_CLASSES = {
    "quick": ["fan-in-script", "step:build","step:compute", "step:compute_many", "step:persist", "step:rebuild", "step:drop", "step:optimize", "step:graph", "non-default-config", "recompute-under-other-config-after-drop-or-rebuild"] + ["cfg:" + k for k in CFG],
    "thorough": ["step:build", "step:compute", "step:compute_many", "step:persist", "step:rebuild", "step:drop", "non-default-config", "recompute-under-other-config-after-drop-or-rebuild"] + ["cfg:" + k for k in CFG],
}
