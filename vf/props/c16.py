"""C16 — chunk normalisation yields valid layouts within the byte limit.

Code under test: ``dask_array._core_utils.normalize_chunks`` (and through it
``auto_chunks``, ``round_to``, ``_compute_multiplier``,
``_convert_int_chunk_to_tuple``, ``blockdims_from_blockshape``).

Oracle: a validity predicate on ACCEPTED inputs (the call returned).  An
exception means "spec not accepted": it is counted per exception type (and
message) and is never a failure; exception types that look like a crash rather
than a refusal (ZeroDivisionError, ...) are additionally recorded as
curiosities in the evidence.  The predicate (per axis of length n):

* result is a tuple with one non-empty tuple per axis, entries integral >= 0,
  sum == n; a zero-size chunk only when n == 0 -- except inside an explicit
  tuple of sizes supplied by the caller, which is returned unchanged;
* ``-1`` / ``None``  -> ``(n,)``;
* uniform int c > 0 -> ``(c,)*(n//c) + ((n%c,) if n%c else ())`` (n > 0), ``(0,)`` (n == 0);
* explicit tuple/list of sizes -> the same sizes;
* "auto" / byte-string axes: (product over axes of the largest chunk) * itemsize
  <= limit, where limit = ``limit=`` argument, else the byte string, else config
  ``array.chunk-size``; ``limit * array.chunk-size-tolerance`` is allowed iff
  ``previous_chunks`` was given (DESIGN section 2/7); no bound is demanded when the
  non-auto axes alone already exceed the limit or every auto axis is at size <= 1.

A case is plain JSON::

    {"shape": [..], "spec": <enc>, "dtype": "f8"|null, "limit": null|int|"64B",
     "prev": null|[<enc per axis>], "cfg": {"chunk-size": "1kiB", "tolerance": 1.25}}

with ``<enc>``: int | null | str | {"t": [..]} tuple | {"l": [..]} list |
{"d": [[axis, enc], ..]} dict | {"np": v, "k": "int64"} numpy integer | {"nd": [..]} ndarray.
"""

from __future__ import annotations

import itertools
import math
import os
import re
import signal
from fractions import Fraction
from numbers import Integral

import numpy as np

from vf import util
from vf.runner import Collector

PROPERTY = "C16"
RULE = (
    "normalize_chunks(spec, shape, limit, dtype, previous_chunks) under dask.config array.chunk-size in "
    "{64B,1kiB,1MiB,128MiB} and array.chunk-size-tolerance in {1.0,1.25,2.0}. Exhaustive shards: every int spec "
    "c in 1..n+1 / -1 / None for n<=12 in seven spec forms, rank-2 products of those, every composition of n as an "
    "explicit tuple (nested, flat-1d, list), 'auto'/byte-string on rank 1 (every limit 0..(n+2)*itemsize, itemsize 1-3) "
    "and rank 2 (auto with auto/int/-1/explicit partner, every limit), and 'auto' with every composition of n as "
    "previous_chunks x every limit x three tolerances (rank 1 and 2; a further shard inserts one zero-size chunk into "
    "previous_chunks), and an 'invalid' shard (sizes 0 and < -1 in four forms, explicit tuples with a negative entry and a "
    "matching sum, one fixed probe of a negative size with auto axes and previous_chunks). Random shards (Hypothesis, constructed not "
    "filtered): rank 0-4, axis lengths 0/1/2-12/13-200/201-10^4, 11 dtypes with itemsize 1-16, spec forms scalar / "
    "tuple / list / dict / ndarray / flat-1d whose entries mix int, numpy int, explicit tuple or list of sizes, -1, "
    "None, 'auto', byte strings; limit None / int / byte string / derived from the array's byte size; previous_chunks "
    "as full tuples, rioxarray-style 1-tuples or ints. A small share of invalid specs (0, negative ints, wrong sums, "
    "rank mismatch, inconsistent byte strings) checks that what is accepted is still valid. Oracle = validity "
    "predicate on accepted calls; exceptions are rejections counted by type. Non-trivial: accepted and at least one "
    "auto axis or an explicit tuple with two different sizes; distinct = distinct case JSON."
)
ASSUMPTIONS = [
    "an exception from normalize_chunks means the spec was not accepted (counted by type, never a failure); ZeroDivisionError and other non-refusal types are surfaced as curiosities",
    "with previous_chunks given, blocks may exceed the limit by the documented factor array.chunk-size-tolerance; without previous_chunks, and at tolerance 1.0, the bound is strict",
    "the largest block is the product over axes of the largest chunk; 'fixed axes alone' is the product over the non-auto axes of the largest resulting chunk times itemsize",
    "no bound is demanded when every auto axis already has chunks of size <= 1 (nothing smaller exists)",
    "an explicit tuple of sizes supplied by the caller is returned unchanged, including zero-size entries it contains; the 'zero-size chunks only on zero-length axes' clause is applied to chunks the normaliser produces (int, -1/None, auto)",
    "previous_chunks are valid chunkings of the shape (sizes summing to the axis), a 1-tuple (c,) or an int c meaning uniform size c",
    "NaN (unknown) sizes are not generated",
    "a call on a valid spec that, in two attempts, does not return within 3 s and then 6 s of the process's own CPU time (ITIMER_VIRTUAL, not wall-clock) is reported as non-termination (the call normally takes < 1 ms, < 50 ms for 10^4-long axes); non-termination on a spec containing a negative size other than -1 is outside the property (neither accepted nor refused) and is surfaced as a curiosity. Random shards do not combine such negative sizes with auto axes and previous_chunks (that combination loops forever on the unchanged tree; one fixed probe in the 'invalid-int' shard keeps it visible)",
]

CFG_SIZES = ["64B", "1kiB", "1MiB", "128MiB"]
TOLERANCES = [1.0, 1.25, 2.0]
DTYPES = ["u1", "?", "i2", "S3", "f4", "S5", "S7", "f8", "V10", "U3", "c16"]
BYTE_STRINGS = ["1B", "8B", "64B", "100B", "1kB", "1kiB", "1 kiB", "4kiB", "64kiB", "1MB", "1MiB", "128MiB"]
LIMIT_INTS = [1, 2, 7, 8, 64, 100, 1000, 1024, 4096, 65536, 10**6]
NP_KINDS = ["int64", "int32", "uint8", "intp"]
HANG_SECONDS = 6.0  # CPU seconds of this process (ITIMER_VIRTUAL), tried twice: 3 s then 6 s

_UNITS = {"B": 1, "kB": 10**3, "MB": 10**6, "GB": 10**9, "kiB": 2**10, "MiB": 2**20, "GiB": 2**30}
_BYTES_RE = re.compile(r"^\s*(\d+)\s*(B|kB|MB|GB|kiB|MiB|GiB)\s*$")


def own_parse_bytes(s):
    """Independent parser for the byte strings this engine generates."""
    m = _BYTES_RE.match(s)
    assert m, f"unsupported byte string {s!r}"
    return int(m.group(1)) * _UNITS[m.group(2)]


# ---------------------------------------------------------------------------
# encoding


def _is_int(x):
    return isinstance(x, Integral) and not isinstance(x, bool)


def enc(o):
    if o is None or isinstance(o, str):
        return o
    if isinstance(o, np.integer):
        return {"np": int(o), "k": type(o).__name__}
    if isinstance(o, int) and not isinstance(o, bool):
        return o
    if isinstance(o, tuple):
        return {"t": [enc(x) for x in o]}
    if isinstance(o, list):
        return {"l": [enc(x) for x in o]}
    if isinstance(o, dict):
        return {"d": [[int(k), enc(v)] for k, v in sorted(o.items())]}
    if isinstance(o, np.ndarray):
        return {"nd": o.tolist()}
    raise TypeError(type(o))


def dec(o):
    if o is None or isinstance(o, str):
        return o
    if isinstance(o, bool):
        raise AssertionError("bool in spec")
    if isinstance(o, int):
        return o
    if isinstance(o, dict):
        assert len(o) in (1, 2)
        if "t" in o:
            assert isinstance(o["t"], list)
            return tuple(dec(x) for x in o["t"])
        if "l" in o:
            assert isinstance(o["l"], list)
            return [dec(x) for x in o["l"]]
        if "d" in o:
            out = {}
            for kv in o["d"]:
                assert isinstance(kv, list) and len(kv) == 2 and isinstance(kv[0], int) and not isinstance(kv[0], bool)
                out[kv[0]] = dec(kv[1])
            return out
        if "np" in o:
            assert o.get("k") in NP_KINDS and isinstance(o["np"], int) and not isinstance(o["np"], bool)
            info = np.iinfo(getattr(np, o["k"]))
            assert info.min <= o["np"] <= info.max
            return getattr(np, o["k"])(o["np"])
        if "nd" in o:
            a = np.array(o["nd"], dtype=np.int64) if not o["nd"] else np.array(o["nd"])
            assert a.dtype.kind in "iu" and a.ndim in (1, 2)
            return a
    raise AssertionError(f"cannot decode {o!r}")


def _validate(case):
    """Reject malformed cases (the shrinkers produce them)."""
    assert isinstance(case, dict)
    shape = case["shape"]
    assert isinstance(shape, list) and len(shape) <= 6
    assert all(isinstance(n, int) and not isinstance(n, bool) and 0 <= n <= 10**6 for n in shape)
    dt = case.get("dtype")
    if dt is not None:
        assert isinstance(dt, str)
        d = np.dtype(dt)
        assert d.itemsize >= 1 and not d.hasobject
    cfg = case["cfg"]
    assert cfg["chunk-size"] in CFG_SIZES or _BYTES_RE.match(cfg["chunk-size"])
    tol = cfg["tolerance"]
    assert isinstance(tol, (int, float)) and not isinstance(tol, bool) and 1 <= tol <= 16
    lim = case.get("limit")
    if isinstance(lim, str):
        assert _BYTES_RE.match(lim)
    else:
        assert lim is None or (isinstance(lim, int) and not isinstance(lim, bool))
    prev = case.get("prev")
    if prev is not None:
        assert isinstance(prev, list) and len(prev) == len(shape)
        for p, n in zip(prev, shape):
            if isinstance(p, dict):
                assert set(p) == {"t"}
                t = p["t"]
                assert isinstance(t, list) and len(t) >= 1
                assert all(isinstance(x, int) and not isinstance(x, bool) and x >= 0 for x in t)
                if len(t) == 1:
                    assert t[0] >= 1 or n == 0  # 1-tuple style: a uniform size
                else:
                    assert sum(t) == n
            else:
                assert isinstance(p, int) and not isinstance(p, bool) and p >= 1
    spec = dec(case["spec"])  # raises AssertionError when undecodable

    def strings(o):
        if isinstance(o, str):
            yield o
        elif isinstance(o, (tuple, list)):
            for x in o:
                yield from strings(x)
        elif isinstance(o, dict):
            for x in o.values():
                yield from strings(x)

    for s in strings(spec):
        assert s == "auto" or _BYTES_RE.match(s), f"string {s!r} not supported by the oracle"
    return spec


# ---------------------------------------------------------------------------
# the oracle's own reading of a spec: one (kind, payload) per axis, or None


def interpret(spec, shape):
    rank = len(shape)
    if isinstance(spec, np.ndarray):
        spec = spec.tolist()
    if spec is None:
        return None
    if isinstance(spec, list):
        spec = tuple(spec)
    if _is_int(spec) or isinstance(spec, str):
        spec = (spec,) * rank
    elif isinstance(spec, dict):
        spec = tuple(spec.get(i) for i in range(rank))
    if not isinstance(spec, tuple):
        return None
    if not spec and rank and all(n == 0 for n in shape):
        return [("full", None)] * rank
    if rank == 1 and len(spec) > 1 and all(_is_int(c) or isinstance(c, str) for c in spec):
        spec = (spec,)  # flat explicit sizes for a 1-d array
    if len(spec) != rank:
        return None
    out = []
    for c in spec:
        if c is None or (_is_int(c) and c == -1):
            out.append(("full", None))
        elif isinstance(c, str):
            out.append(("auto", c))
        elif _is_int(c):
            out.append(("int", int(c)))
        elif isinstance(c, (tuple, list)):
            if not all(_is_int(x) for x in c):
                return None
            out.append(("explicit", tuple(int(x) for x in c)))
        else:
            return None
    return out


class _Hang(BaseException):
    pass


_handler_installed = False


def _install_handler():
    global _handler_installed
    if not _handler_installed:

        def _on_alarm(signum, frame):
            raise _Hang()

        signal.signal(signal.SIGVTALRM, _on_alarm)
        _handler_installed = True


def _call_once(spec, shape, kw, cfg, budget):
    import dask
    from dask_array._core_utils import normalize_chunks

    with dask.config.set({"array.chunk-size": cfg["chunk-size"], "array.chunk-size-tolerance": cfg["tolerance"]}):
        # CPU-time (not wall-clock) budget of this process: an endless loop burns CPU, a loaded machine does not
        signal.setitimer(signal.ITIMER_VIRTUAL, budget)
        try:
            return normalize_chunks(spec, tuple(shape), **kw)
        finally:
            signal.setitimer(signal.ITIMER_VIRTUAL, 0)


def _call(spec, shape, limit, dtype, prev, cfg):
    _install_handler()
    kw = {}
    if limit is not None:
        kw["limit"] = limit
    if dtype is not None:
        kw["dtype"] = np.dtype(dtype)
    if prev is not None:
        kw["previous_chunks"] = prev
    try:
        return _call_once(spec, shape, kw, cfg, HANG_SECONDS / 2)
    except _Hang:
        # confirm with the full budget before calling it non-termination
        return _call_once(spec, shape, kw, cfg, HANG_SECONDS)


def _short(res, limit=14):
    try:
        return "(" + ", ".join(repr(tuple(c)) if len(c) <= limit else f"({', '.join(map(repr, c[:6]))}, ..{len(c)} entries.., {c[-1]!r})" for c in res) + ")"
    except Exception:
        return repr(res)[:400]


def evaluate(case):
    """Run one case.  Returns dict(accepted, exc, fails, labels, nontrivial)."""
    spec = _validate(case)
    shape = list(case["shape"])
    rank = len(shape)
    dtype = case.get("dtype")
    limit = case.get("limit")
    cfg = case["cfg"]
    prev_enc = case.get("prev")
    prev = None if prev_enc is None else tuple(dec(p) for p in prev_enc)
    entries = interpret(spec, shape)
    labels = [f"rank={rank}"]
    out = {"accepted": False, "exc": None, "fails": [], "labels": labels, "nontrivial": False, "crashlike": False}

    try:
        res = _call(spec, shape, limit, dtype, prev, cfg)
    except _Hang:
        why = f"normalize_chunks did not return within {HANG_SECONDS:g} s of CPU time (two attempts): spec={spec!r} shape={tuple(shape)} limit={limit!r} dtype={dtype!r} previous_chunks={prev!r} cfg={cfg}"
        if entries is not None and any((k == "int" and p < -1) or (k == "explicit" and any(x < 0 for x in p)) for k, p in entries):
            # an invalid (negative) size: neither accepted nor refused -> outside the property, surfaced as a curiosity
            out["exc"] = "no-termination|negative-size-in-spec"
            out["exc_type"] = "no-termination"
            out["crashlike"] = True
            return out
        out["accepted"] = True
        out["fails"].append(("no-termination|valid-spec", why))
        return out
    except Exception as e:
        tname = type(e).__name__
        msg = re.split(r"\. Got | Got |\. Used |: ", str(e), maxsplit=1)[0]  # drop the echoed arguments
        out["exc"] = f"{tname}|{util.innermost_repo_frame(e)}|{util.norm_msg(msg, 70)}"
        out["exc_type"] = tname
        out["crashlike"] = not isinstance(e, (ValueError, TypeError, NotImplementedError))
        return out

    out["accepted"] = True
    fails = out["fails"]
    desc = f"spec={spec!r} shape={tuple(shape)} limit={limit!r} dtype={dtype!r} previous_chunks={prev!r} cfg={cfg} -> {_short(res)}"

    def fail(bucket, why=""):
        if not any(b == bucket for b, _ in fails):
            fails.append((bucket, (why + ": " if why else "") + desc))

    # ---- structure
    if not isinstance(res, tuple):
        fail("structure|result-not-tuple")
        return out
    if len(res) != rank:
        fail("structure|wrong-number-of-axes", f"{len(res)} axis tuples for rank {rank}")
        return out
    if any(not isinstance(c, tuple) for c in res):
        fail("structure|axis-not-tuple")
        return out
    if any(len(c) == 0 for c in res):
        fail("structure|empty-axis-tuple")
        return out

    if entries is None:
        labels.append("accepted-uninterpreted-spec")
        entries = [("unknown", None)] * rank

    kinds = [k for k, _ in entries]
    if any((k == "int" and p is not None and p < -1) or (k == "explicit" and any(x < 0 for x in p)) for k, p in entries if p is not None):
        # A negative size other than -1 is not one of the specification forms the
        # property quantifies over (int, tuple, dict, -1, None, 'auto', byte
        # strings): whatever normalize_chunks does with it (it returns a layout with
        # a negative size instead of refusing) is observed and counted, not judged.
        labels.append("out-of-domain:negative-size-spec")
        return out
    has_auto = "auto" in kinds
    usable = True  # numbers sane enough for the byte-limit check
    for ax, ((kind, payload), n, got) in enumerate(zip(entries, shape, res)):
        neg_spec = kind == "int" and payload < -1
        if neg_spec:
            labels.append("accepted:negative-int")

        neg_explicit = kind == "explicit" and any(x < 0 for x in payload)

        def bkt(b, neg_spec=neg_spec, neg_explicit=neg_explicit):
            # one root cause each: a negative uniform size is not refused and yields an invalid layout;
            # an explicit tuple with a negative entry whose sum still matches is passed through
            if neg_spec:
                return "negative-int-spec|invalid-layout"
            if neg_explicit:
                return "negative-explicit-size|passed-through"
            return b

        bad_type = [x for x in got if not _is_int(x)]
        if bad_type:
            fail(bkt(f"entry|not-integral|{type(bad_type[0]).__name__}|{kind}"), f"axis {ax}: {got!r}")
            usable = False
            continue
        if any(x < 0 for x in got):
            fail(bkt(f"entry|negative|{kind}"), f"axis {ax} (length {n}, spec {payload!r}): {got!r}")
            usable = False
            continue
        if sum(got) != n:
            fail(bkt(f"sum-mismatch|{kind}"), f"axis {ax}: sum {sum(got)} != {n}")
            usable = False
            continue
        if neg_spec:
            continue
        if kind != "explicit" and n > 0 and any(x == 0 for x in got):
            fail(f"zero-chunk-on-nonempty-axis|{kind}", f"axis {ax}: {got!r}")
        if kind == "full":
            if tuple(got) != (n,):
                fail("full|not-single-chunk", f"axis {ax}: {got!r} != ({n},)")
        elif kind == "int":
            c = payload
            if c > 0:
                want = ((c,) * (n // c) + ((n % c,) if n % c else ())) if n else (0,)
                if tuple(got) != want:
                    fail("uniform-int|differs", f"axis {ax}: c={c} n={n}: {got!r} != {want!r}")
            else:
                labels.append("accepted:zero-int")
        elif kind == "explicit":
            if tuple(int(x) for x in got) != payload:
                fail("explicit|changed", f"axis {ax}: {got!r} != {payload!r}")
            if n > 0 and any(x == 0 for x in payload):
                labels.append("explicit-zero-chunk-kept")

    # ---- byte limit on auto axes
    if has_auto and usable and dtype is not None:
        item = np.dtype(dtype).itemsize
        cands = set()
        if limit is not None:
            cands.add(own_parse_bytes(limit) if isinstance(limit, str) else int(limit))
        for k, p in entries:
            if k == "auto" and p != "auto":
                cands.add(own_parse_bytes(p))
        if not cands:
            cands.add(own_parse_bytes(cfg["chunk-size"]))
        if len(cands) > 1:
            labels.append("accepted:inconsistent-limits")
        L = max(cands)
        tol = Fraction(cfg["tolerance"])
        autos = [i for i, k in enumerate(kinds) if k == "auto"]
        maxes = [max(c) for c in res]
        block = math.prod(maxes) * item
        fixed = math.prod(maxes[i] for i in range(rank) if i not in autos) * item
        prev_given = bool(prev)
        if any(maxes[i] < shape[i] for i in autos):
            labels.append("limit-binding")
        if block <= L:
            labels.append("auto:within-limit")
        elif fixed > L:
            labels.append("auto:exempt-fixed-axes-exceed")
        elif all(maxes[i] <= 1 for i in autos):
            labels.append("auto:exempt-autos-at-1")
        elif prev_given and block <= L * tol:
            labels.append("auto:over-limit-within-tolerance")
        else:
            if not prev_given:
                b = "auto-limit|exceeded|no-previous_chunks"
            elif any(isinstance(p, tuple) and len(p) > 1 and 0 in p for p, n in zip(prev, shape) if n > 0):
                # separate root cause: a zero-size chunk makes the median of previous_chunks < 1
                b = "auto-limit|exceeded|previous_chunks-with-zero-size-chunk"
            elif tol == 1:
                b = "auto-limit|exceeded|previous_chunks|tolerance=1.0"
            else:
                b = "auto-limit|exceeded|previous_chunks|tolerance>1"
            fail(b, f"largest block {block} B > limit {L} B" + (f" x tolerance {float(tol)} = {float(L * tol)} B" if prev_given else "") + f" (fixed axes alone {fixed} B, itemsize {item})")

    # ---- labels
    if has_auto:
        labels.append("auto-axis")
        if any(k != "auto" for k in kinds):
            labels.append("auto+fixed")
        if len([k for k in kinds if k == "auto"]) >= 2:
            labels.append("auto:multi-axis")
        if prev:
            labels.append("auto+previous_chunks")
            labels.append(f"auto+previous_chunks:tolerance={cfg['tolerance']}")
        if any(n == 0 for n, k in zip(shape, kinds) if k == "auto"):
            labels.append("zero-length-auto-axis")
    for k in sorted(set(kinds)):
        labels.append("axis:" + k)
    if any(n == 0 and k in ("int", "full") for n, k in zip(shape, kinds)):
        labels.append("zero-length-axis:int-or-full")
    nonuniform = any(k == "explicit" and len(set(p)) > 1 for k, p in entries)
    if nonuniform:
        labels.append("explicit-nonuniform")
    out["nontrivial"] = has_auto or nonuniform
    return out


def _form_labels(case):
    s = case["spec"]
    labs = []
    if isinstance(s, dict):
        key = next(k for k in ("t", "l", "d", "np", "nd") if k in s)
        labs.append({"t": "form:tuple", "l": "form:list", "d": "form:dict", "np": "form:scalar-numpy-int", "nd": "form:ndarray"}[key])
        blob = util.canon(s)
        if '"np"' in blob and key != "np":
            labs.append("entry:numpy-int")
        if len(case["shape"]) == 1 and key in ("t", "l", "nd") and len(s[key]) > 1 and all(isinstance(x, int) or (isinstance(x, dict) and "np" in x) for x in s[key]):
            labs.append("form:flat-1d-explicit")
        items = s.get("t") or s.get("l") or [v for _, v in (s.get("d") or [])]
        if any(x == "auto" for x in items):
            labs.append("entry:auto")
        if any(isinstance(x, str) and x != "auto" for x in items):
            labs.append("entry:byte-string")
        if any(x is None for x in items):
            labs.append("entry:None")
        if any(x == -1 for x in items if isinstance(x, int)):
            labs.append("entry:-1")
        if any(isinstance(x, dict) and "l" in x for x in items):
            labs.append("entry:explicit-list")
        if any(isinstance(x, dict) and "t" in x for x in items):
            labs.append("entry:explicit-tuple")
    elif s is None:
        labs.append("form:None")
    elif isinstance(s, str):
        labs.append("form:scalar-auto" if s == "auto" else "form:scalar-byte-string")
    else:
        labs.append("form:scalar-int" if s != -1 else "form:scalar--1")
    if case.get("limit") is not None:
        labs.append("limit-arg:str" if isinstance(case["limit"], str) else "limit-arg:int")
    if case.get("prev") is not None:
        labs.append("previous_chunks")
        if any(isinstance(p, int) for p in case["prev"]):
            labs.append("previous_chunks:int-style")
        if any(isinstance(p, dict) and len(p["t"]) == 1 for p in case["prev"]):
            labs.append("previous_chunks:1-tuple-style")
        if any(isinstance(p, dict) and len(p["t"]) > 1 for p in case["prev"]):
            labs.append("previous_chunks:full-tuple")
        if any(isinstance(p, dict) and len(p["t"]) > 1 and 0 in p["t"] and n > 0 for p, n in zip(case["prev"], case["shape"])):
            labs.append("previous_chunks:zero-size-chunk")
    if any(n == 0 for n in case["shape"]):
        labs.append("zero-length-axis")
    labs.append(f"tolerance={case['cfg']['tolerance']}")
    labs.append("chunk-size=" + case["cfg"]["chunk-size"])
    if case.get("dtype") is not None:
        labs.append(f"itemsize={np.dtype(case['dtype']).itemsize}")
    return labs


def replay(case):
    return list(evaluate(case)["fails"])


def _record(col, case, extra_labels=()):
    r = evaluate(case)
    if not r["accepted"]:
        col.reject(r["exc"])
        col.label("rejected:" + r["exc_type"])
        if r["crashlike"]:
            col.label("rejected-crashlike:" + r["exc_type"])
            k = "curiosity_crashlike_rejections"
            col.extra[k] = col.extra.get(k, 0) + 1
            ek = "curiosity_example|" + r["exc"]
            old = col.extra.get(ek)
            if old is None or len(util.canon(case)) < len(old):
                col.extra[ek] = util.canon(case)
        return r
    labels = r["labels"] + _form_labels(case) + list(extra_labels) + ["accepted"]
    col.case(case, r["nontrivial"], labels)
    for b, d in r["fails"]:
        col.fail(b, case, d)
    return r


# ---------------------------------------------------------------------------
# exhaustive parts


def compositions(n):
    if n == 0:
        yield (0,)
        return
    for bits in itertools.product((0, 1), repeat=n - 1):
        out = []
        cur = 1
        for b in bits:
            if b:
                out.append(cur)
                cur = 1
            else:
                cur += 1
        out.append(cur)
        yield tuple(out)


DEFAULT_CFG = {"chunk-size": "128MiB", "tolerance": 1.25}


def _mk(shape, spec, dtype=None, limit=None, prev=None, cfg=None):
    return {
        "shape": list(shape),
        "spec": enc(spec),
        "dtype": dtype,
        "limit": limit,
        "prev": None if prev is None else [enc(p) for p in prev],
        "cfg": dict(cfg or DEFAULT_CFG),
    }


def run_exhaustive(spec, col):
    part = spec["part"]
    if part == "int1d":
        for n in range(0, spec["nmax"] + 1):
            for c in list(range(1, n + 2)) + [-1, None]:
                forms = [(c,), [c], {0: c}, {}]
                if c is not None:
                    forms += [c, np.int64(c), (np.int32(c),), np.array([c])]
                for f in forms:
                    if isinstance(f, dict) and not f and c is not None:
                        continue
                    _record(col, _mk((n,), f), ["exhaustive:int1d"])
    elif part == "int2d":
        n0 = spec["n"]
        for n1 in range(0, spec["nmax"] + 1):
            for c0 in list(range(1, n0 + 2)) + [-1]:
                for c1 in list(range(1, n1 + 2)) + [None]:
                    _record(col, _mk((n0, n1), (c0, c1)), ["exhaustive:int2d"])
                    _record(col, _mk((n0, n1), {0: c0, 1: c1}), ["exhaustive:int2d"])
                    if c1 is not None:
                        _record(col, _mk((n0, n1), [c0, np.int64(c1)]), ["exhaustive:int2d"])
                    if c0 == c1:
                        _record(col, _mk((n0, n1), c0), ["exhaustive:int2d"])
    elif part == "explicit":
        for n in range(0, spec["nmax"] + 1):
            for comp in compositions(n):
                _record(col, _mk((n,), (comp,)), ["exhaustive:explicit"])
                _record(col, _mk((n,), [list(comp)]), ["exhaustive:explicit"])
                if len(comp) > 1:
                    _record(col, _mk((n,), comp), ["exhaustive:explicit"])
                    _record(col, _mk((n,), np.array(comp)), ["exhaustive:explicit"])
                _record(col, _mk((n, 3), (comp, 2)), ["exhaustive:explicit"])
                _record(col, _mk((2, n), (-1, list(comp))), ["exhaustive:explicit"])
        for n0 in range(0, spec["n2max"] + 1):
            for n1 in range(0, spec["n2max"] + 1):
                for c0 in compositions(n0):
                    for c1 in compositions(n1):
                        _record(col, _mk((n0, n1), (c0, c1)), ["exhaustive:explicit"])
    elif part == "auto1d":
        for dt in ("u1", "i2", "S3"):
            item = np.dtype(dt).itemsize
            for n in range(0, spec["nmax"] + 1):
                for L in range(0, (n + 2) * item + 1):
                    _record(col, _mk((n,), "auto", dt, limit=L), ["exhaustive:auto1d"])
                    _record(col, _mk((n,), ("auto",), dt, limit=L, cfg={"chunk-size": "64B", "tolerance": 1.0}), ["exhaustive:auto1d"])
                    _record(col, _mk((n,), f"{L}B", dt), ["exhaustive:auto1d"])
                    _record(col, _mk((n,), {0: f"{L}B"}, dt, limit=L), ["exhaustive:auto1d"])
    elif part == "auto1d-prev":
        n = spec["n"]
        for dt in ("u1", "i2"):
            item = np.dtype(dt).itemsize
            for tol in TOLERANCES:
                cfg = {"chunk-size": "1kiB", "tolerance": tol}
                for L in range(1, (n + 2) * item + 1):
                    for comp in compositions(n):
                        _record(col, _mk((n,), "auto", dt, limit=L, prev=(comp,), cfg=cfg), ["exhaustive:auto1d-prev"])
                    for c in range(1, n + 2):
                        _record(col, _mk((n,), "auto", dt, limit=L, prev=(c,), cfg=cfg), ["exhaustive:auto1d-prev"])
                        _record(col, _mk((n,), "auto", dt, limit=L, prev=((c,),), cfg=cfg), ["exhaustive:auto1d-prev"])
    elif part == "auto2d":
        n0 = spec["n"]
        for n1 in range(0, spec["nmax"] + 1):
            partners = ["auto", -1, None] + list(range(1, n1 + 2)) + list(compositions(n1))
            for p in partners:
                for L in range(1, max(n0, 1) * max(n1, 1) + 3):
                    _record(col, _mk((n0, n1), ("auto", p), "u1", limit=L), ["exhaustive:auto2d"])
                    if p != "auto":
                        _record(col, _mk((n1, n0), (p, "auto"), "u1", limit=L), ["exhaustive:auto2d"])
            for L in range(2, 2 * (max(n0, 1) * max(n1, 1) + 2) + 1, 2):
                _record(col, _mk((n0, n1), "auto", "i2", limit=L), ["exhaustive:auto2d"])
    elif part == "auto2d-prev":
        n0, n1 = spec["n0"], spec["n1"]
        partners = ["auto", -1] + list(range(1, n1 + 1))
        for tol in TOLERANCES:
            cfg = {"chunk-size": "64B", "tolerance": tol}
            for p0 in compositions(n0):
                for p1 in compositions(n1):
                    for p in partners:
                        for L in range(1, n0 * n1 + 3):
                            _record(col, _mk((n0, n1), ("auto", p), "u1", limit=L, prev=(p0, p1), cfg=cfg), ["exhaustive:auto2d-prev"])
    elif part == "auto2d-prev-zero":
        # previous_chunks that contain one zero-size chunk (legal in dask: they arise from slicing / explicit chunks)
        nmax = spec["nmax"]

        def with_zero(comp):
            for pos in range(len(comp) + 1):
                yield comp[:pos] + (0,) + comp[pos:]

        for n0 in range(1, nmax + 1):
            for n1 in range(1, nmax + 1):
                for tol in TOLERANCES:
                    cfg = {"chunk-size": "64B", "tolerance": tol}
                    for c0 in compositions(n0):
                        for c1 in compositions(n1):
                            pairs = [(z0, c1) for z0 in with_zero(c0)] + [(c0, z1) for z1 in with_zero(c1)]
                            for p0, p1 in pairs:
                                for p in ("auto", -1):
                                    for L in range(1, n0 * n1 + 3):
                                        _record(col, _mk((n0, n1), ("auto", p), "u1", limit=L, prev=(p0, p1), cfg=cfg), ["exhaustive:auto2d-prev-zero"])
    elif part == "invalid-int":
        # sizes 0 and < -1: whatever is accepted must still be a valid layout
        for n in range(0, spec["nmax"] + 1):
            for c in [0] + [-k for k in range(2, n + 3)]:
                for f in (c, (c,), {0: c}, np.int64(c)):
                    _record(col, _mk((n,), f), ["exhaustive:invalid-int"])
                _record(col, _mk((n, 3), (c, 2)), ["exhaustive:invalid-int"])
                _record(col, _mk((n, 3), (c, "auto"), "u1", limit=2), ["exhaustive:invalid-int"])
                _record(col, _mk((3, n), ("auto", c), "u1", limit=2), ["exhaustive:invalid-int"])
            # explicit sizes with a negative entry that still sum to n
            for k in (1, 2):
                _record(col, _mk((n,), ((n + k, -k),)), ["exhaustive:invalid-int"])
                _record(col, _mk((n,), (n + k, -k)), ["exhaustive:invalid-int"])
                _record(col, _mk((2, n), (1, [-k, n + k])), ["exhaustive:invalid-int"])
        # the one fixed probe of negative size + auto + previous_chunks (loops forever on the unchanged tree)
        # (needs two auto axes: the negative budget is raised to the power 1/2)
        _record(col, _mk((1, 1), (-2, "auto"), "u1", prev=(1, 1)), ["exhaustive:invalid-int"])
        _record(col, _mk((1, 1, 1), (-2, "auto", "auto"), "u1", prev=(1, 1, 1)), ["exhaustive:invalid-int"])
    else:
        raise ValueError(part)
    col.exhaustive = True


# ---------------------------------------------------------------------------
# random part


def run_random(spec, seed, col):
    import hypothesis
    from hypothesis import HealthCheck, Phase, given, settings
    from hypothesis import strategies as st

    from vf.gen.draw import D

    profile = spec.get("profile", "mixed")

    def composition(d, n, maxblocks=8, zeros=False):
        if n == 0:
            return (0,) * d.weighted([(1, 8), (2, 1)])
        if d.chance(1, 3):
            # uniform blocks, at most 64 of them
            c = d.int(max(1, -(-n // 64)), n)
            return (c,) * (n // c) + ((n % c,) if n % c else ())
        k = d.int(1, min(maxblocks, n))
        cuts = sorted(d.draw(st.lists(st.integers(1, n - 1), min_size=k - 1, max_size=k - 1, unique=True))) if k > 1 else []
        b = [0] + cuts + [n]
        comp = [b[i + 1] - b[i] for i in range(len(b) - 1)]
        if zeros:
            comp.insert(d.int(0, len(comp)), 0)
        return tuple(comp)

    def axis_len(d, big):
        kind = d.weighted([("0", 2), ("1", 2), ("small", 9), ("mid", 4), ("big", 3 if big else 0)])
        if kind == "0":
            return 0
        if kind == "1":
            return 1
        if kind == "small":
            return d.int(2, 12)
        if kind == "mid":
            return d.int(13, 200)
        return d.int(201, 10000)

    def int_size(d, n):
        k = d.weighted([("in", 8), ("edge", 3), ("over", 1)])
        if k == "in" and n >= 1:
            return d.int(1, n)
        if k == "edge":
            return d.choice([1, max(n, 1), n + 1, max(1, n - 1), max(1, n // 2)])
        return d.int(n + 1, 2 * n + 5)

    def gen(d):
        if profile == "explicit":
            want_auto = False
        elif profile == "mixed":
            want_auto = d.chance(2, 3)
        else:
            want_auto = True
        rank = d.weighted([(0, 1), (1, 6), (2, 8), (3, 4), (4, 2)])
        if want_auto and rank == 0 and d.chance(9, 10):
            rank = d.int(1, 3)
        shape = [axis_len(d, want_auto) for _ in range(rank)]
        dtype = d.choice(DTYPES)
        if not want_auto and d.chance(1, 4):
            dtype = None
        cfg = {"chunk-size": d.choice(CFG_SIZES), "tolerance": d.choice(TOLERANCES)}
        bytestr = d.choice(BYTE_STRINGS)
        used_bytes = []
        p_prev = {"mixed": (1, 2), "auto-prev": (1, 1), "auto": (0, 1), "explicit": (1, 6)}[profile]
        with_prev = bool(p_prev[0]) and d.chance(*p_prev)
        # negative sizes + auto + previous_chunks never return on the unchanged tree (see ASSUMPTIONS)
        allow_odd = not (want_auto and with_prev)

        def bstr():
            s = bytestr if d.chance(29, 30) else d.choice(BYTE_STRINGS)
            used_bytes.append(s)
            return s

        def entry(n):
            kind = d.weighted(
                [
                    ("int", 7),
                    ("npint", 2),
                    ("explicit", 5),
                    ("explist", 1),
                    ("-1", 2),
                    ("none", 2),
                    ("auto", 7 if want_auto else 0),
                    ("bytes", 2 if want_auto else 0),
                    ("odd", 1 if (allow_odd and d.chance(1, 3)) else 0),
                ]
            )
            if kind == "int":
                return int_size(d, n)
            if kind == "npint":
                return getattr(np, d.choice(["int64", "int32", "intp"]))(int_size(d, n))
            if kind in ("explicit", "explist"):
                comp = composition(d, n, zeros=d.chance(1, 25))
                if d.chance(1, 40):
                    # wrong sum (possibly a negative entry, but never together with auto + previous_chunks)
                    comp = comp[:-1] + (comp[-1] + d.choice([1, 2, -1] if (allow_odd or comp[-1] >= 1) else [1, 2]),)
                return comp if kind == "explicit" else list(comp)
            if kind == "-1":
                return -1
            if kind == "none":
                return None
            if kind == "auto":
                return "auto"
            if kind == "bytes":
                return bstr()
            return d.choice([0, -2, -3, -n - 1, -max(n, 2)])

        form = d.weighted([("scalar", 4), ("tuple", 10), ("list", 2), ("dict", 3), ("ndarray", 1), ("flat1d", 2 if rank == 1 else 0), ("mismatch", 1 if (rank and d.chance(1, 4)) else 0)])
        if form == "scalar":
            nmax = max(shape) if shape else 1
            pool = [("int", 5), ("npint", 2), ("-1", 1), ("none", 1 if d.chance(1, 5) else 0)]
            if want_auto:
                pool = [("auto", 6), ("bytes", 4), ("int", 1)]
            k = d.weighted(pool)
            if k == "int":
                spec_py = int_size(d, nmax)
            elif k == "npint":
                spec_py = np.int64(int_size(d, nmax))
            elif k == "-1":
                spec_py = -1
            elif k == "none":
                spec_py = None
            elif k == "auto":
                spec_py = "auto"
            else:
                spec_py = bstr()
        elif form in ("tuple", "list", "mismatch"):
            ents = [entry(n) for n in shape]
            if want_auto and rank and not any(isinstance(e, str) for e in ents):
                ents[d.int(0, rank - 1)] = "auto" if d.chance(3, 4) else bstr()
            if form == "mismatch":
                if d.bool() and len(ents) > 1:
                    ents.pop(d.int(0, len(ents) - 1))
                else:
                    ents.insert(d.int(0, len(ents)), entry(3))
            spec_py = tuple(ents) if form != "list" else list(ents)
        elif form == "dict":
            ents = {}
            for i, n in enumerate(shape):
                if d.chance(2, 3):
                    ents[i] = entry(n)
            if want_auto and rank and not any(isinstance(e, str) for e in ents.values()):
                ents[d.int(0, rank - 1)] = "auto" if d.chance(3, 4) else bstr()
            spec_py = ents
        elif form == "ndarray":
            if rank == 1 and d.bool():
                comp = composition(d, shape[0])
                spec_py = np.array(comp)
            else:
                spec_py = np.array([int_size(d, n) for n in shape], dtype=d.choice(["int64", "int32"]))
            want_auto = False
        else:  # flat1d
            comp = composition(d, shape[0])
            if d.chance(1, 6):
                comp = tuple(np.int64(x) for x in comp)
            spec_py = comp if d.chance(3, 4) else list(comp)
            want_auto = False

        item = np.dtype(dtype).itemsize if dtype is not None else 1
        total = math.prod(max(n, 1) for n in shape) * item
        if used_bytes:
            lk = d.weighted([("none", 7), ("same", 3), ("other", 1)])
            if lk == "none":
                limit = None
            elif lk == "same":
                limit = own_parse_bytes(used_bytes[0])
            else:
                limit = d.choice(LIMIT_INTS)
        elif want_auto:
            lk = d.weighted([("none", 4), ("table", 3), ("derived", 6), ("str", 1), ("zero", 1 if d.chance(1, 5) else 0)])
            if lk == "none":
                limit = None
            elif lk == "table":
                limit = d.choice(LIMIT_INTS)
            elif lk == "derived":
                limit = max(1, total // d.choice([1, 2, 3, 5, 8, 17, 64, 100, 1000, 10**4]) + d.choice([-1, 0, 0, 1]))
            elif lk == "str":
                limit = d.choice(BYTE_STRINGS)
            else:
                limit = d.choice([0, -5])
        else:
            limit = None if d.chance(5, 6) else d.choice(LIMIT_INTS)

        prev = None
        if with_prev:
            prev = []
            for n in shape:
                style = d.weighted([("comp", 6), ("one", 2), ("int", 2)])
                if style == "comp":
                    prev.append(composition(d, n, zeros=d.chance(1, 30)))
                elif style == "one":
                    prev.append((int_size(d, n),) if n else (0,))
                else:
                    prev.append(int_size(d, n))
        return _mk(shape, spec_py, dtype, limit, prev, cfg)

    case_st = st.composite(lambda draw: gen(D(draw)))()

    @hypothesis.seed(seed)
    @settings(
        max_examples=spec["cases"],
        database=None,
        deadline=None,
        derandomize=False,
        phases=[Phase.generate],
        suppress_health_check=list(HealthCheck),
    )
    @given(case_st)
    def body(case):
        _record(col, case, ["random:" + profile])

    body()
    col.exhaustive = False


# ---------------------------------------------------------------------------
# shrinking: structural candidates first, then the generic JSON shrinker


def _refit(t, n):
    """Truncate / pad a list of sizes so that it sums to n."""
    out = []
    left = n
    for x in t:
        if left <= 0:
            break
        y = min(x, left)
        if y > 0:
            out.append(y)
            left -= y
    if left > 0 or not out:
        out.append(left)
    return out


def _map_axis_entry(e, n_new):
    if isinstance(e, dict) and ("t" in e or "l" in e) and all(isinstance(x, int) for x in (e.get("t") or e.get("l") or [])):
        k = "t" if "t" in e else "l"
        return {k: _refit(e[k], n_new)}
    return e


def shrink(case):
    import copy

    from vf.runner import _generic_shrink

    def cp():
        return copy.deepcopy(case)

    rank = len(case["shape"])
    if case.get("prev") is not None:
        c = cp()
        c["prev"] = None
        yield c
    if case.get("limit") is not None:
        c = cp()
        c["limit"] = None
        yield c
    if case["cfg"] != DEFAULT_CFG:
        c = cp()
        c["cfg"] = dict(DEFAULT_CFG)
        yield c
        for k in ("chunk-size", "tolerance"):
            c = cp()
            c["cfg"][k] = DEFAULT_CFG[k]
            yield c
    if case.get("dtype") not in (None, "u1"):
        c = cp()
        c["dtype"] = "u1"
        yield c
    s = case["spec"]
    # simplify the form
    if isinstance(s, dict) and "l" in s:
        c = cp()
        c["spec"] = {"t": s["l"]}
        yield c
    if isinstance(s, dict) and "d" in s:
        c = cp()
        m = {k: v for k, v in s["d"]}
        c["spec"] = {"t": [m.get(i) for i in range(rank)]}
        yield c
    if isinstance(s, dict) and "np" in s:
        c = cp()
        c["spec"] = s["np"]
        yield c
    seq_key = next((k for k in ("t", "l") if isinstance(s, dict) and k in s), None)
    per_axis = seq_key is not None and len(s[seq_key]) == rank and not (rank == 1 and len(s[seq_key]) > 1)
    # drop an axis
    for i in range(rank):
        c = cp()
        del c["shape"][i]
        if c.get("prev") is not None:
            del c["prev"][i]
        if per_axis:
            del c["spec"][seq_key][i]
        elif isinstance(s, dict) and "d" in s:
            c["spec"]["d"] = [[k - (k > i), v] for k, v in s["d"] if k != i]
        elif isinstance(s, dict):
            continue
        yield c
    # shorten an axis
    for i, n in enumerate(case["shape"]):
        for n_new in sorted({0, 1, n // 2, n - 1}):
            if not (0 <= n_new < n):
                continue
            c = cp()
            c["shape"][i] = n_new
            if c.get("prev") is not None:
                p = c["prev"][i]
                if isinstance(p, dict) and len(p["t"]) > 1:
                    c["prev"][i] = {"t": _refit(p["t"], n_new)}
                elif isinstance(p, dict) and n_new == 0:
                    c["prev"][i] = {"t": [0]}
            if per_axis:
                c["spec"][seq_key][i] = _map_axis_entry(s[seq_key][i], n_new)
            elif isinstance(s, dict) and "d" in s:
                c["spec"]["d"] = [[k, _map_axis_entry(v, n_new) if k == i else v] for k, v in s["d"]]
            elif rank == 1 and seq_key is not None and all(isinstance(x, int) for x in s[seq_key]):
                c["spec"][seq_key] = _refit(s[seq_key], n_new)
            yield c
    # simplify entries
    if per_axis:
        for i, e in enumerate(s[seq_key]):
            for repl in (-1, 1):
                if e != repl:
                    c = cp()
                    c["spec"][seq_key][i] = repl
                    yield c
            if isinstance(e, str) and e != "auto":
                c = cp()
                c["spec"][seq_key][i] = "auto"
                c["limit"] = own_parse_bytes(e) if _BYTES_RE.match(e) else None
                yield c
            if isinstance(e, dict) and "np" in e:
                c = cp()
                c["spec"][seq_key][i] = e["np"]
                yield c
    if case.get("prev") is not None:
        for i, p in enumerate(case["prev"]):
            n = case["shape"][i]
            for repl in ({"t": [n]}, max(n, 1)):
                if p != repl:
                    c = cp()
                    c["prev"][i] = repl
                    yield c
            if isinstance(p, dict) and len(p["t"]) > 2:
                for j in range(len(p["t"]) - 1):
                    c = cp()
                    t = list(p["t"])
                    t[j : j + 2] = [t[j] + t[j + 1]]
                    c["prev"][i] = {"t": t}
                    yield c
    yield from _generic_shrink(case)


# ---------------------------------------------------------------------------


def plan(tier):
    scale = float(os.environ.get("VERIF_SCALE", "1"))
    specs = []
    if tier == "quick":
        total, nshards = 64000, 16
        specs.append({"part": "invalid-int", "nmax": 6})
        specs.append({"part": "auto2d-prev-zero", "nmax": 3})
        specs.append({"part": "int1d", "nmax": 12})
        for n in range(0, 7):
            specs.append({"part": "int2d", "n": n, "nmax": 6})
        specs.append({"part": "explicit", "nmax": 8, "n2max": 4})
        specs.append({"part": "auto1d", "nmax": 12})
        for n in range(1, 8):
            specs.append({"part": "auto1d-prev", "n": n})
        for n in range(0, 6):
            specs.append({"part": "auto2d", "n": n, "nmax": 5})
        for n0 in range(1, 4):
            for n1 in range(1, 4):
                specs.append({"part": "auto2d-prev", "n0": n0, "n1": n1})
    else:
        total, nshards = 1000000, 48
        specs.append({"part": "invalid-int", "nmax": 9})
        specs.append({"part": "auto2d-prev-zero", "nmax": 4})
        specs.append({"part": "int1d", "nmax": 16})
        for n in range(0, 10):
            specs.append({"part": "int2d", "n": n, "nmax": 9})
        specs.append({"part": "explicit", "nmax": 11, "n2max": 5})
        specs.append({"part": "auto1d", "nmax": 24})
        for n in range(1, 13):
            specs.append({"part": "auto1d-prev", "n": n})
        for n in range(0, 8):
            specs.append({"part": "auto2d", "n": n, "nmax": 7})
        for n0 in range(1, 6):
            for n1 in range(1, 6):
                if n0 + n1 <= 10:
                    specs.append({"part": "auto2d-prev", "n0": n0, "n1": n1})
    per = max(20, int(total * scale / nshards))
    profiles = ["mixed", "mixed", "auto-prev", "auto-prev", "auto", "mixed", "explicit", "auto-prev"]
    rnd = [{"part": "random", "profile": profiles[i % len(profiles)], "cases": per} for i in range(nshards)]
    # long shards first
    return rnd + specs


def run_shard(spec, seed):
    col = Collector()
    if spec["part"] == "random":
        run_random(spec, seed, col)
    else:
        run_exhaustive(spec, col)
    return col.result()


_REQ = [
    "accepted",
    "form:scalar-int",
    "form:scalar-auto",
    "form:scalar-byte-string",
    "form:tuple",
    "form:list",
    "form:dict",
    "form:ndarray",
    "form:flat-1d-explicit",
    "entry:numpy-int",
    "entry:-1",
    "entry:None",
    "entry:auto",
    "entry:byte-string",
    "entry:explicit-tuple",
    "axis:int",
    "axis:full",
    "axis:explicit",
    "axis:auto",
    "explicit-nonuniform",
    "auto-axis",
    "auto+fixed",
    "auto:multi-axis",
    "previous_chunks",
    "previous_chunks:1-tuple-style",
    "previous_chunks:int-style",
    "auto+previous_chunks",
    "auto+previous_chunks:tolerance=1.0",
    "auto+previous_chunks:tolerance=1.25",
    "auto+previous_chunks:tolerance=2.0",
    "limit-binding",
    "limit-arg:int",
    "auto:within-limit",
    "auto:exempt-fixed-axes-exceed",
    "auto:over-limit-within-tolerance",
    "zero-length-axis",
    "zero-length-axis:int-or-full",
    "zero-length-auto-axis",
    "previous_chunks:zero-size-chunk",
    "exhaustive:auto2d-prev-zero",
    "tolerance=1.0",
    "chunk-size=64B",
    "chunk-size=128MiB",
    "itemsize=1",
    "itemsize=16",
    "rank=0",
    "rank=4",
    "rejected:ValueError",
    "exhaustive:int1d",
    "exhaustive:int2d",
    "exhaustive:explicit",
    "exhaustive:auto1d",
    "exhaustive:auto1d-prev",
    "exhaustive:auto2d",
    "exhaustive:auto2d-prev",
    "random:mixed",
    "random:auto-prev",
]
REQUIRED_CLASSES = {"quick": list(_REQ), "thorough": list(_REQ)}
