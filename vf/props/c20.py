"""C20 — map_blocks block_info/block_id match the layout it was built against."""

from __future__ import annotations

import itertools
import json

import numpy as np

from vf import exclusions, progrun, util
from vf.gen import programs as P

PROPERTY = "C20"
RULE = (
    "Program generator of C01 re-weighted, with two statements registered by this engine: `mb_info` = "
    "da.map_blocks(spy, x[, y], ...) with a module-level spy function taking block_info, block_id or both "
    "(variants keep/drop_axis/new_axis/explicit chunks, each with one input or two inputs where the second "
    "broadcasts, explicit chunks as ints or tuples, new_axis inferred from chunks, dtype inferred or given), and "
    "`swv_reduce` = reduction(sliding_window_view(x)) over the window axis (the documented drift source). One "
    "`mb_info` is forced into every program, so it sits above leaves, sliding-window reductions, slices, rechunks, "
    "broadcasting elemwise, concatenate/stack, reductions and below slices, rechunks, reductions, transposes. At "
    "call time the harness snapshots inputs[i].chunks and out.chunks. The spy logs (tag, block_id, block_info, "
    "block shapes, block copies) per invocation and returns block + weights*global index computed from the "
    "received array-location (block_id mode: from the call-time layout bound into the function, as a user writer "
    "would), so the NumPy twin is independent of the grid iff data and location agree. Oracle per logged call: "
    "chunk-location inside the snapshot output grid; array-location, chunk-shape, num-chunks, shape of "
    "block_info[None] equal the snapshot out.chunks at that location; block_info[i] equal the snapshot "
    "inputs[i].chunks at the (broadcast/dropped-axis aware) input location; block_id == chunk-location; every "
    "block has the snapshot shape and its content equals the NumPy value of that input at array-location; no grid "
    "location missing unless a later index/zero-size op can cull it; every output equals the NumPy twin. "
    "Non-trivial: some rewrite fired whose replaced node is below or above an mb_info node; distinct = distinct "
    "program JSON."
)
ASSUMPTIONS = [
    "NumPy is the reference for values; statements NumPy rejects are not programs; sync scheduler (the log is process-global)",
    "'the layout advertised when the call was made' = inputs[i].chunks read immediately before and out.chunks read immediately after da.map_blocks returns",
    "input block location under broadcasting as documented: an input axis with one chunk is location 0; a dropped axis is concatenated to one chunk (0, n)",
    "a second input whose chunks differ from the first along shared axes is rechunked by the harness before the call (map_blocks does not align); the snapshot is taken after that",
    "calls made for dtype/meta inference (block_info and block_id both None) are not invocations in the sense of the property",
    "a grid location computed twice in one compute is recorded as a class, not a violation (the property does not forbid recomputation)",
    "the KF-layout-drift-over-shuffle region predicate is extended in-process to the composite swv_reduce statement (same defect, same region)",
]
from vf import exclusions as _ex

EXCLUDE = _ex.ALL  # every program-level region of a listed open finding
WEIGHTS = {
    "map_blocks_info": 26,
    "window_reduce": 9,
    "index": 14,
    "rechunk": 10,
    "elemwise2": 9,
    "stack": 7,
    "reduction": 10,
    "shape": 10,
    "window": 2,
    "elemwise": 3,
    "scan": 1,
    "map_blocks": 1,
}

# ---------------------------------------------------------------------------
# the spy functions (module level: pickleable, tokenizable)

LOG = []  # one dict per real invocation; cleared by the oracle before each compute
CALLS = {}  # tag -> snapshot taken at call time
BUILT = []  # tags in the order mb_info statements were built
_TAG = itertools.count(1)

W_IN = (3, 5)
W_OUT = 7


def _plain_info(info):
    if info is None:
        return None
    out = {}
    for k, v in info.items():
        out[k] = {kk: (list(vv) if isinstance(vv, list) else vv) for kk, vv in v.items()}
    return out


def _frame_map(variant, axis, n):
    """frame axis (= axis of the first input) -> output axis, None when dropped."""
    if variant == "drop":
        d = axis % n
        return [None if f == d else (f if f < d else f - 1) for f in range(n)]
    if variant == "new":
        return [f if f < axis else f + 1 for f in range(n)]
    return list(range(n))


def _out_ndim(variant, n):
    return n - 1 if variant == "drop" else n + 1 if variant == "new" else n


def _locate_from_info(blocks, info, cfg):
    in_starts = [[int(lo) for lo, _ in info[i]["array-location"]] for i in range(len(blocks))]
    out_starts = [int(lo) for lo, _ in info[None]["array-location"]]
    new_len = int(info[None]["chunk-shape"][cfg["axis"]]) if cfg["variant"] == "new" else 1
    return in_starts, out_starts, new_len


def _locate_from_id(blocks, bid, cfg):
    """The user-code side of the contract: the layout seen at call time is bound into cfg."""
    n = blocks[0].ndim
    variant, axis = cfg["variant"], cfg["axis"]
    fmap = _frame_map(variant, axis, n)
    in_starts = []
    for i, b in enumerate(blocks):
        off = n - b.ndim
        st_ = []
        for j in range(b.ndim):
            m = fmap[off + j]
            cum = cfg["in_cum"][i][j]
            if m is None or len(cum) <= 2:
                st_.append(0)
            else:
                st_.append(cum[bid[m]])
        in_starts.append(st_)
    out_starts = [0] * _out_ndim(variant, n)
    for f, m in enumerate(fmap):
        if m is not None:
            out_starts[m] = in_starts[0][f] * (cfg["rep"] if variant == "chunks" and f == axis else 1)
    new_len = 1
    if variant == "new":
        cum = cfg["new_cum"]
        out_starts[axis] = cum[bid[axis]]
        new_len = cum[bid[axis] + 1] - cum[bid[axis]]
    return in_starts, out_starts, new_len


def _axis_ramp(start, length, axis, ndim):
    shp = [1] * ndim
    shp[axis] = length
    return (int(start) + np.arange(length, dtype=np.int64)).reshape(shp)


def _kernel(blocks, in_starts, out_starts, new_len, cfg):
    """block(s) -> output block.  Data enter through ``core``; locations enter as
    global indices start+arange, so one call over the whole array (all starts 0)
    equals the assembled per-block results exactly when every block got the
    array-location at which its data really sit."""
    dt = np.result_type(*[b.dtype for b in blocks], np.int64)
    b0 = blocks[0]
    n = b0.ndim
    core = b0.astype(dt)
    if len(blocks) > 1:
        core = core + blocks[1].astype(dt)
    for i, b in enumerate(blocks):
        off = n - b.ndim
        for j in range(b.ndim):
            core = core + (W_IN[i] * (j + 1)) * _axis_ramp(in_starts[i][j], b.shape[j], off + j, n)
    variant, axis = cfg["variant"], cfg["axis"]
    if variant == "drop":
        core = np.asarray(core.sum(axis=axis % n))
    elif variant == "new":
        core = np.stack([core] * int(new_len), axis=axis)
    elif variant == "chunks":
        core = np.repeat(core, cfg["rep"], axis=axis)
    for m in range(core.ndim):
        core = core + (W_OUT * (m + 1)) * _axis_ramp(out_starts[m], core.shape[m], m, core.ndim)
    return np.asarray(core).astype(dt, copy=False)


def _run(blocks, info, bid, cfg):
    if info is None and bid is None:
        # dtype / meta inference: not an invocation of the computation
        n = blocks[0].ndim
        z = [[0] * b.ndim for b in blocks]
        return _kernel(blocks, z, [0] * _out_ndim(cfg["variant"], n), 1, cfg)
    LOG.append(
        {
            "tag": cfg["tag"],
            "bid": None if bid is None else tuple(bid),
            "info": _plain_info(info),
            "blocks": [np.array(b, copy=True) for b in blocks],
        }
    )
    if info is not None:
        in_starts, out_starts, new_len = _locate_from_info(blocks, info, cfg)
    else:
        in_starts, out_starts, new_len = _locate_from_id(blocks, bid, cfg)
    return _kernel(blocks, in_starts, out_starts, new_len, cfg)


def info_fn(*blocks, block_info=None, cfg=None):
    return _run(blocks, block_info, None, cfg)


def id_fn(*blocks, block_id=None, cfg=None):
    return _run(blocks, None, block_id, cfg)


def both_fn(*blocks, block_info=None, block_id=None, cfg=None):
    return _run(blocks, block_info, block_id, cfg)


FNS = {"info": info_fn, "id": id_fn, "both": both_fn}


# ---------------------------------------------------------------------------
# statements


def _cum(c):
    out = [0]
    for v in c:
        out.append(out[-1] + int(v))
    return out


def _trailing_ok(w, x):
    return w.ndim <= x.ndim and all(a == b or a == 1 for a, b in zip(w.shape[::-1], x.shape[::-1]))


def _stmt_cfg(s):
    return {"variant": s["variant"], "axis": s.get("axis", 0), "rep": s.get("rep", 1)}


def _validate_stmt(s, shapes):
    assert s["variant"] in ("keep", "drop", "new", "chunks") and s["mode"] in FNS and len(s["args"]) in (1, 2)
    n = len(shapes[0])
    if s["variant"] == "drop":
        assert n >= 1 and -n <= s["axis"] < n
    elif s["variant"] == "new":
        assert 0 <= s["axis"] <= n
        assert s.get("new_chunks") is None or (len(s["new_chunks"]) >= 1 and all(isinstance(c, int) and c >= 1 for c in s["new_chunks"]))
        if s.get("infer_new_axis"):
            assert s["axis"] == 0 and s.get("new_chunks") is not None
    elif s["variant"] == "chunks":
        assert n >= 1 and 0 <= s["axis"] < n and isinstance(s["rep"], int) and 1 <= s["rep"] <= 3
    if len(shapes) > 1:
        assert len(shapes[1]) <= n and all(a == b or a == 1 for a, b in zip(shapes[1][::-1], shapes[0][::-1]))


class MbInfoBuildError(Exception):
    """da.map_blocks (or reading out.chunks right after it) raised for an mb_info statement."""


@P.op("mb_info", "map_blocks_info")
class _MbInfo:
    @staticmethod
    def gen(D_, vals):
        variant = D_.weighted([("keep", 5), ("drop", 3), ("new", 3), ("chunks", 4)])
        if variant in ("drop", "chunks"):
            pred = lambda v: v.ndim >= 1  # noqa: E731
        elif variant == "new":
            pred = lambda v: v.ndim <= 3  # noqa: E731
        else:
            pred = lambda v: True  # noqa: E731
        i = P._pick(D_, vals, pred)
        if i is None:
            return None
        x = vals[i]
        args = [i]
        if D_.chance(2, 5):
            cands = [j for j, w in enumerate(vals) if _trailing_ok(w, x)]
            other = [j for j in cands if j != i]
            args.append(D_.choice(other) if other and D_.chance(4, 5) else D_.choice(cands))
        s = {"op": "mb_info", "args": args, "variant": variant, "mode": D_.weighted([("info", 5), ("id", 2), ("both", 2)])}
        n = x.ndim
        if variant == "drop":
            s["axis"] = D_.int(-n, n - 1)
            s["explicit"] = D_.chance(1, 3)
        elif variant == "new":
            s["axis"] = D_.int(0, n)
            if D_.chance(2, 3):
                s["new_chunks"] = [D_.int(1, 2) for _ in range(D_.int(1, 2))]
                if s["axis"] == 0 and D_.chance(1, 3):
                    s["infer_new_axis"] = True
        elif variant == "chunks":
            s["axis"] = D_.int(0, n - 1)
            s["rep"] = D_.weighted([(1, 2), (2, 4), (3, 1)])
            s["int_chunks"] = D_.bool()
        if D_.chance(1, 8):
            s["infer_dtype"] = True
        return s

    @staticmethod
    def np(s, a):
        _validate_stmt(s, [v.shape for v in a])
        blocks = list(a)
        n = blocks[0].ndim
        new_len = sum(s["new_chunks"]) if s.get("new_chunks") else 1
        z = [[0] * b.ndim for b in blocks]
        return _kernel(blocks, z, [0] * _out_ndim(s["variant"], n), new_len, _stmt_cfg(s))

    @staticmethod
    def da(s, a):
        import dask_array as da

        x = a[0]
        arrays = [x]
        if len(a) > 1:
            y = a[1]
            off = x.ndim - y.ndim
            want = tuple(x.chunks[off + j] if y.shape[j] == x.shape[off + j] else y.chunks[j] for j in range(y.ndim))
            if tuple(map(tuple, want)) != tuple(map(tuple, y.chunks)):
                y = y.rechunk(want)
            arrays.append(y)
        n = x.ndim
        variant = s["variant"]
        axis = s.get("axis", 0)
        kw = {}
        if variant == "drop":
            kw["drop_axis"] = axis
            if s.get("explicit"):
                kw["chunks"] = tuple(c for f, c in enumerate(x.chunks) if f != axis % n)
        elif variant == "new":
            if not s.get("infer_new_axis"):
                kw["new_axis"] = axis
            if s.get("new_chunks"):
                ch = list(x.chunks)
                ch.insert(axis, tuple(s["new_chunks"]))
                kw["chunks"] = tuple(ch)
        elif variant == "chunks":
            ch = []
            for f, c in enumerate(x.chunks):
                c2 = tuple(v * s["rep"] for v in c) if f == axis else tuple(c)
                if s.get("int_chunks") and len(set(c2)) == 1:
                    ch.append(int(c2[0]))
                else:
                    ch.append(c2)
            kw["chunks"] = tuple(ch)
        if not s.get("infer_dtype"):
            kw["dtype"] = np.result_type(*[arr.dtype for arr in arrays], np.int64)
        tag = next(_TAG)
        in_chunks = [tuple(tuple(int(v) for v in c) for c in arr.chunks) for arr in arrays]
        cfg = {
            "tag": tag,
            "variant": variant,
            "axis": axis,
            "rep": s.get("rep", 1),
            "in_cum": [[_cum(c) for c in ch] for ch in in_chunks],
            "new_cum": _cum(s["new_chunks"]) if s.get("new_chunks") else [0, 1],
        }
        try:
            out = da.map_blocks(FNS[s["mode"]], *arrays, cfg=cfg, **kw)
            out_chunks = tuple(tuple(int(v) for v in c) for c in out.chunks)
        except NotImplementedError:
            raise
        except Exception as e:  # counted apart from other statements' build rejections
            raise MbInfoBuildError(f"{s['variant']}{len(a)} {type(e).__name__} {util.innermost_repo_frame(e)} {e}") from e
        CALLS[tag] = {
            "in_chunks": in_chunks,
            "out_chunks": out_chunks,
            "out_dtype": out.dtype,
            "rechunked_second": len(a) > 1 and arrays[1] is not a[1],
        }
        BUILT.append(tag)
        return out


SWV_REDS = ("sum", "mean", "max", "min")


@P.op("swv_reduce", "window_reduce", exact=False)
class _SwvReduce:
    """reduction(sliding_window_view(x, w, axis)) over the window axis: simplify replaces the advertised
    (window-coarsened) chunks with the input's native ones."""

    @staticmethod
    def gen(D_, vals):
        i = P._pick(D_, vals, lambda v: 1 <= v.ndim <= 3 and any(k > 1 for k in v.shape) and 0 not in v.shape and v.dtype.kind in "iuf")
        if i is None:
            return None
        v = vals[i]
        ax = D_.choice([k for k, m in enumerate(v.shape) if m > 1])
        n = v.shape[ax]
        # windows near the block sizes (a block shorter than the window, or exactly window-1 long, is where the
        # native kernel's layout differs from the advertised one without changing the block count)
        near = sorted({w for h in getattr(D_, "hints", ()) for w in (h, h + 1, h + 2) if 1 <= w <= n} | {w for w in (2, 3) if w <= n})
        w = D_.choice(near) if near and D_.chance(1, 2) else D_.int(1, n)
        layouts = getattr(D_, "leaf_layouts", ())
        if i < len(layouts) and tuple(layouts[i][0]) == v.shape:
            spots = [(k, c[j + 1] + 1) for k, c in enumerate(layouts[i][1]) if v.shape[k] > 1 for j in range(len(c) - 1) if c[j + 1] >= 1 and c[j] >= 2 * (c[j + 1] + 1)]
            if spots and D_.chance(2, 3):
                ax, w = D_.choice(spots)
        return {"op": "swv_reduce", "args": [i], "w": w, "axis": ax, "red": D_.choice(SWV_REDS), "keepdims": D_.chance(1, 5)}

    @staticmethod
    def np(s, a):
        assert s["red"] in SWV_REDS
        w = np.lib.stride_tricks.sliding_window_view(a[0], s["w"], axis=s["axis"])
        return getattr(np, s["red"])(w, axis=-1, keepdims=bool(s.get("keepdims")))

    @staticmethod
    def da(s, a):
        import dask_array as da

        w = da.sliding_window_view(a[0], s["w"], axis=s["axis"])
        return getattr(w, s["red"])(axis=-1, keepdims=bool(s.get("keepdims")))


def _extend_shuffle_region():
    """swv_reduce contains a sliding_window_view: same region of the listed finding."""
    fid = "KF-layout-drift-over-shuffle"
    orig = exclusions.EXCL.get(fid)
    if orig is None or getattr(orig, "_c20", False):
        return

    def pred(prog, vals):
        if orig(prog, vals):
            return True
        for s in prog["stmts"]:
            if s["op"] == "swv_reduce":
                up = [o for j in s["args"] for o in exclusions.ancestors_ops(prog, j)]
                if any(o in ("shuffle", "take", "getitem_list") for o in up):
                    return True
        return False

    pred._c20 = True
    exclusions.EXCL[fid] = pred


_extend_shuffle_region()


# ---------------------------------------------------------------------------
# oracle

TRANSPOSES = ("transpose", "T", "swapaxes", "moveaxis")
RECHUNKS = ("rechunk", "rechunk_auto")
FANCY = ("getitem_list", "take", "shuffle")


def _op_class(op):
    if op == "getitem":
        return "slice"
    if op in FANCY:
        return "fancy-index"
    if op in RECHUNKS:
        return "rechunk"
    if op in P.REDUCTIONS:
        return "reduction"
    if op in TRANSPOSES:
        return "transpose"
    if op in ("concatenate", "stack"):
        return "concat"
    if op == "swv_reduce":
        return "sliding-window-reduction"
    if op == "mb_info":
        return "mb_info"
    fam = P.OPS[op].family
    return fam


def _ancestors(prog, var):
    L = len(prog["leaves"])
    seen, stack = set(), [var]
    while stack:
        v = stack.pop()
        if v in seen:
            continue
        seen.add(v)
        if v >= L:
            stack.extend(prog["stmts"][v - L]["args"])
    return seen


def _variant_name(s):
    return f"{s['variant']}{len(s['args'])}"


def _ints(t):
    return tuple(int(v) for v in t)


def _expected_inputs(s, snap, out_loc):
    """Per input: (chunk-location, array-location, num-chunks, shape) from the snapshot alone."""
    n = len(snap["in_chunks"][0])
    fmap = _frame_map(s["variant"], s.get("axis", 0), n)
    res = []
    for ch in snap["in_chunks"]:
        off = n - len(ch)
        loc, arr, num = [], [], []
        for j, c in enumerate(ch):
            m = fmap[off + j]
            cum = _cum(c)
            if m is None:
                loc.append(0)
                arr.append((0, cum[-1]))
                num.append(1)
                continue
            k = out_loc[m] if len(c) > 1 else 0
            if k >= len(c):
                return None
            loc.append(k)
            arr.append((cum[k], cum[k + 1]))
            num.append(len(c))
        res.append((tuple(loc), arr, tuple(num), tuple(sum(c) for c in ch)))
    return res


def _check_record(rec, s, snap, np_inputs, atol, fails):
    vn = _variant_name(s)
    out_chunks = snap["out_chunks"]
    grid = tuple(len(c) for c in out_chunks)
    info, bid = rec["info"], rec["bid"]

    def bad(bucket, msg):
        fails.append((bucket, f"mb_info {json.dumps(s, sort_keys=True)} tag={rec['tag']}: {msg}\n snapshot in={snap['in_chunks']} out={out_chunks}\n block_id={bid} block_info={info}"))

    loc = info[None]["chunk-location"] if info is not None and None in info else bid
    if info is not None and None not in info:
        bad(f"info|missing-output-entry|{vn}", "block_info has no None key")
        if loc is None:
            return None
    try:
        loc = _ints(loc)
    except Exception:
        bad(f"info|chunk-location|{vn}", f"not a tuple of ints: {loc!r}")
        return None
    if len(loc) != len(grid) or any(k < 0 or k >= g for k, g in zip(loc, grid)):
        bad(f"info|chunk-location|{vn}" if info is not None else f"block_id|outside-grid|{vn}", f"location {loc} outside the advertised grid {grid}")
        return None
    if info is not None and bid is not None and _ints(bid) != loc:
        bad(f"block_id|differs-from-chunk-location|{vn}", f"block_id {bid} != chunk-location {loc}")
    if info is not None:
        o = info[None]
        cums = [_cum(c) for c in out_chunks]
        want_arr = [(cums[m][k], cums[m][k + 1]) for m, k in enumerate(loc)]
        if [_ints(t) for t in o["array-location"]] != want_arr:
            bad(f"info|array-location|{vn}", f"output array-location {o['array-location']} != {want_arr}")
        want_cs = tuple(out_chunks[m][k] for m, k in enumerate(loc))
        if _ints(o["chunk-shape"]) != want_cs:
            bad(f"info|chunk-shape|{vn}", f"output chunk-shape {o['chunk-shape']} != {want_cs}")
        if _ints(o["num-chunks"]) != grid:
            bad(f"info|num-chunks|{vn}", f"output num-chunks {o['num-chunks']} != {grid}")
        if _ints(o["shape"]) != tuple(sum(c) for c in out_chunks):
            bad(f"info|shape|{vn}", f"output shape {o['shape']} != {tuple(sum(c) for c in out_chunks)}")
        keys = set(info) - {None}
        if keys != set(range(len(snap["in_chunks"]))):
            bad(f"info|input-keys|{vn}", f"keys {sorted(keys)} for {len(snap['in_chunks'])} array inputs")
    exp = _expected_inputs(s, snap, loc)
    if exp is None:
        bad(f"info|grid-exceeds-input|{vn}", "output location beyond an input's block count")
        return loc
    for i, (eloc, earr, enum, eshape) in enumerate(exp):
        if info is not None and i in info:
            e = info[i]
            if _ints(e["chunk-location"]) != eloc:
                bad(f"info|input-chunk-location|{vn}", f"input {i} chunk-location {e['chunk-location']} != {eloc}")
            if [_ints(t) for t in e["array-location"]] != earr:
                bad(f"info|input-array-location|{vn}", f"input {i} array-location {e['array-location']} != {earr}")
            if _ints(e["num-chunks"]) != enum:
                bad(f"info|input-num-chunks|{vn}", f"input {i} num-chunks {e['num-chunks']} != {enum}")
            if _ints(e["shape"]) != eshape:
                bad(f"info|input-shape|{vn}", f"input {i} shape {e['shape']} != {eshape}")
        if i >= len(rec["blocks"]):
            bad(f"block|missing|{vn}", f"{len(rec['blocks'])} blocks passed")
            continue
        b = rec["blocks"][i]
        want_shape = tuple(hi - lo for lo, hi in earr)
        if tuple(b.shape) != want_shape:
            bad("block|shape", f"input {i} block shape {tuple(b.shape)} != advertised {want_shape} at {eloc}")
            continue
        ref = np_inputs[i][tuple(slice(lo, hi) for lo, hi in earr)]
        why = util.same(b, ref, rtol=0.0, atol=atol)
        if why:
            bad("block|content", f"input {i} block at {eloc} is not input[{earr}]: {why}\n got={util.short(b)} exp={util.short(ref)}")
    return loc


def _is_mb_node(node):
    try:
        return type(node).__name__ == "Blockwise" and any(op is f for op in node.operands for f in FNS.values())
    except Exception:
        return False


def _contains_mb(expr, cache):
    name = expr._name
    if name not in cache:
        try:
            cache[name] = any(_is_mb_node(n) for n in expr.walk())
        except Exception:
            cache[name] = False
    return cache[name]


def _rewrite_labels(prog):
    """Class accounting only (separate fresh build; the verdict pass runs on untouched objects)."""
    from dask_array import _expr as E

    from vf import rewrites

    labs = set()
    saved = (list(BUILT), dict(CALLS))
    drift = []
    orig = E.ChunksFreeze.lower_once

    def spy_lower_once(self, lowered):
        out = orig(self, lowered)
        try:
            arr = self.array
            while True:
                new = arr.lower_once(lowered)
                if new._name == arr._name:
                    break
                arr = new
            if not E._chunks_match(arr.chunks, self._chunks):
                drift.append("same-grid" if tuple(map(len, arr.chunks)) == tuple(map(len, self._chunks)) else "other-grid")
        except Exception:
            pass
        return out

    try:
        vars_ = P.build_da(prog)
        L = len(prog["leaves"])
        mb_vars = {L + k for k, s in enumerate(prog["stmts"]) if s["op"] == "mb_info"}
        cache = {}
        for o in prog["outputs"]:
            raw = vars_[o].expr
            if any(type(n).__name__ == "ChunksFreeze" for n in raw.walk()):
                labs.add("ChunksFreeze-present")
            E.ChunksFreeze.lower_once = spy_lower_once
            try:
                with rewrites.recording() as recs:
                    raw.optimize()
            finally:
                E.ChunksFreeze.lower_once = orig
            for rule, before, after in recs:
                hook = rule.rsplit(".", 1)[1]
                labs.add("rewrite-fired")
                if hook != "_lower":
                    labs.add("simplify-rewrite-fired")
                if _contains_mb(before, cache):
                    labs.add("rewrite-above")
                    if hook != "_lower":
                        labs.add("simplify-rewrite-above")
                elif _ancestors(prog, o) & mb_vars:
                    labs.add("rewrite-below")
                    if hook != "_lower":
                        labs.add("simplify-rewrite-below")
                    if rule == "SlidingWindowView._simplify_up":
                        labs.add("native-sliding-window-rewrite-below")
        if drift:
            labs.add("freeze-drift-bridged")
            labs.update("freeze-drift:" + d for d in drift)
    except Exception as e:  # accounting must never decide a verdict
        labs.add("rewrite-accounting-failed:" + type(e).__name__)
    finally:
        E.ChunksFreeze.lower_once = orig
        BUILT[:] = saved[0]
        CALLS.clear()
        CALLS.update(saved[1])
    return labs


def _placement_labels(prog, vars_chunks):
    L = len(prog["leaves"])
    labs = set()
    for k, s in enumerate(prog["stmts"]):
        if s["op"] != "mb_info":
            continue
        labs.add("variant:" + _variant_name(s))
        labs.add("mode:" + s["mode"])
        for key in ("explicit", "int_chunks", "infer_new_axis", "infer_dtype"):
            if s.get(key):
                labs.add("opt:" + key)
        if s["variant"] == "new":
            labs.add("opt:new_chunks" if s.get("new_chunks") else "opt:new_axis-default-1")
        if len(s["args"]) == 2:
            sh0, sh1 = vars_chunks[s["args"][0]], vars_chunks[s["args"][1]]
            labs.add("second:fewer-dims" if len(sh1) < len(sh0) else "second:size-1-axes" if sh1 != sh0 else "second:same-shape")
        for j in s["args"]:
            if j < L:
                labs.add("above:leaf")
            else:
                t = prog["stmts"][j - L]
                labs.add("above:" + _op_class(t["op"]))
        for t in prog["stmts"][k + 1 :]:
            if L + k in t["args"]:
                labs.add("below:" + _op_class(t["op"]))
        if L + k in prog["outputs"]:
            labs.add("is-output")
    return labs


UNFROZEN_LAYOUT_OPS = ("sliding_window_view", "swv_reduce", "repeat", "broadcast_to", "reshape", "ravel")


def _outside_domain(prog):
    """Design-round finding F7 and its siblings (not about map_blocks, not listed): a node that fixes chunk
    metadata at construction and has no ChunksFreeze (sliding_window_view, repeat: per-block adjust_chunks;
    broadcast_to: its own _chunks; reshape/ravel: the input->output chunk plan) downstream of a sliding-window
    reduction raises 'adjust_chunks specified with N blocks' / 'Missing dependency' / 'cannot reshape array of
    size N' or, for broadcast_to, silently reads the wrong input blocks once the native rewrite moved the
    reduction onto the input's chunks.  Steered around, counted."""
    L = len(prog["leaves"])
    wr = set()
    for k, s in enumerate(prog["stmts"]):
        if s["op"] == "swv_reduce":
            wr.add(L + k)
        elif s["op"] in P.REDUCTIONS and s["args"][0] >= L and prog["stmts"][s["args"][0] - L]["op"] == "sliding_window_view":
            wr.add(L + k)
    if not wr:
        return None
    for k, s in enumerate(prog["stmts"]):
        if s["op"] in UNFROZEN_LAYOUT_OPS:
            if any(_ancestors(prog, j) & wr for j in s["args"]):
                return "rejected:outside-C20|unfrozen-layout-node-over-window-reduction(F7)"
    return None


def check(case, vals=None):
    prog = case["program"]
    if vals is None:
        vals = P.eval_np(prog)
    L = len(prog["leaves"])
    mb = [k for k, s in enumerate(prog["stmts"]) if s["op"] == "mb_info"]
    if not mb:
        return "rejected:no-mb_info-statement", [], []
    out = _outside_domain(prog)
    if out:
        return out, [], []
    del BUILT[:]
    CALLS.clear()
    del LOG[:]
    vars_, status = progrun.build_or_reject(prog)
    if vars_ is None:
        return status, [], []
    if len(BUILT) != len(mb):
        raise RuntimeError(f"harness: {len(BUILT)} tags for {len(mb)} mb_info statements")
    tag_of = dict(zip(mb, BUILT))
    stmt_of = {t: k for k, t in tag_of.items()}
    snaps = {t: CALLS[t] for t in BUILT}
    fails = []
    labs = set(_placement_labels(prog, [tuple(v.shape) for v in vals]))
    atol = util.float_tolerance(vals, [s["op"] for s in prog["stmts"]])
    for k in mb:
        snap = snaps[tag_of[k]]
        if snap["rechunked_second"]:
            labs.add("second:rechunked-by-harness")
        if tuple(sum(c) for c in snap["out_chunks"]) != tuple(vals[L + k].shape):
            fails.append((f"advertised|shape|{_variant_name(prog['stmts'][k])}", f"out.chunks {snap['out_chunks']} for NumPy shape {vals[L + k].shape}"))
        if any(len(c) > 1 for ch in snap["in_chunks"] for c in ch):
            labs.add("multi-block-input")
    refused = False
    for o in prog["outputs"]:
        del LOG[:]
        anc = _ancestors(prog, o)
        err = None
        try:
            got = vars_[o].compute()
        except NotImplementedError:
            refused = True
            continue
        except Exception as e:
            err = e
            fails.append((util.exc_bucket("compute", e), util.exc_detail(e)))
        records = list(LOG)
        del LOG[:]
        seen = {}
        for rec in records:
            k = stmt_of.get(rec["tag"])
            if k is None:
                fails.append(("calls|unknown-tag", f"tag {rec['tag']}"))
                continue
            s = prog["stmts"][k]
            loc = _check_record(rec, s, snaps[rec["tag"]], [vals[j] for j in s["args"]], atol, fails)
            if loc is not None:
                seen.setdefault(k, {}).setdefault(loc, 0)
                seen[k][loc] += 1
        for k in mb:
            s = prog["stmts"][k]
            grid = [len(c) for c in snaps[tag_of[k]]["out_chunks"]]
            total = int(np.prod(grid)) if grid else 1
            calls = seen.get(k, {})
            if L + k not in anc:
                continue
            if any(c > 1 for c in calls.values()):
                labs.add("location-computed-twice")
            if len(calls) == total:
                labs.add("all-locations-called")
                continue
            if err is not None:
                continue
            labs.add("culled")
            path = [v for v in anc if v >= L and v != L + k and (L + k) in _ancestors(prog, v)]
            can_cull = any(P.OPS[prog["stmts"][v - L]["op"]].family == "index" or vals[v].size == 0 for v in path) or vals[L + k].size == 0
            if not can_cull:
                missing = [loc for loc in itertools.product(*[range(g) for g in grid]) if loc not in calls][:6]
                fails.append((f"calls|missing|{_variant_name(s)}", f"mb_info {s}: {len(calls)}/{total} grid locations invoked for output {o} with no index/zero-size op above; missing e.g. {missing}"))
        if err is not None:
            continue
        why = util.same(got, vals[o], rtol=0.0, atol=atol)
        if why:
            last = prog["stmts"][o - L]["op"] if o >= L else "leaf"
            where = "mb_info-output" if last == "mb_info" else "above-mb_info" if anc & {L + k for k in mb} else "no-mb_info-below"
            fails.append((f"values|{why.split(' ')[0]}|{where}", f"output {o} (last op {last}): {why}\n got={util.short(got)}\n exp={util.short(vals[o])}"))
    labs |= _rewrite_labels(prog)
    if refused:
        return "refused", fails, sorted(labs)
    return "ok", fails, sorted(labs)


def replay(case):
    prog = case["program"]
    assert isinstance(prog, dict) and prog.get("stmts") and prog.get("outputs")
    nv = len(prog["leaves"]) + len(prog["stmts"])
    assert all(isinstance(o, int) and 0 <= o < nv for o in prog["outputs"])
    for k, s in enumerate(prog["stmts"]):
        assert s["op"] in P.OPS and all(isinstance(j, int) and 0 <= j < len(prog["leaves"]) + k for j in s["args"])
    try:
        vals = P.eval_np(prog)
    except P.NumpyUndefined as e:
        raise AssertionError(f"invalid case: {e}")
    for v in vals:
        assert v.size <= 4000 and v.ndim <= 6
    status, fails, _ = check(case, vals)
    assert not status.startswith("rejected:no-mb_info"), status
    return fails


def shrink(case):
    yield from progrun.shrink_case(case)
    prog = case["program"]
    for k, s in enumerate(prog["stmts"]):
        if s["op"] == "mb_info":
            cands = []
            if len(s["args"]) == 2:
                cands.append({"args": s["args"][:1]})
            if s["mode"] != "info":
                cands.append({"mode": "info"})
            for key in ("explicit", "int_chunks", "infer_new_axis", "infer_dtype"):
                if s.get(key):
                    cands.append({key: False})
            if s.get("rep", 1) > 1:
                cands.append({"rep": 1})
            if s.get("new_chunks") and len(s["new_chunks"]) > 1:
                cands.append({"new_chunks": s["new_chunks"][:1]})
            if s["variant"] != "keep":
                cands.append({"variant": "keep"})
            for upd in cands:
                new = json.loads(json.dumps(case))
                new["program"]["stmts"][k].update(upd)
                yield new
        if s["op"] == "swv_reduce" and s.get("keepdims"):
            new = json.loads(json.dumps(case))
            new["program"]["stmts"][k]["keepdims"] = False
            yield new


def nontrivial(case, labels):
    return "rewrite-below" in labels or "rewrite-above" in labels


def run_shard(spec, seed):
    return progrun.run_program_shard(
        spec,
        seed,
        check,
        nontrivial,
        exclude_only=EXCLUDE,
        strategy_kwargs={"family_weights": WEIGHTS, "min_stmts": 2, "ensure_ops": ("mb_info",)},
    )


def plan(tier):
    return progrun.plan_cases(tier, 9000, 150000)


_VARIANTS = ["variant:%s%d" % (v, n) for v in ("keep", "drop", "new", "chunks") for n in (1, 2)]
_COMMON = _VARIANTS + [
    "mode:info",
    "mode:id",
    "mode:both",
    "opt:explicit",
    "opt:int_chunks",
    "opt:new_chunks",
    "opt:new_axis-default-1",
    "opt:infer_new_axis",
    "opt:infer_dtype",
    "second:fewer-dims",
    "second:size-1-axes",
    "second:rechunked-by-harness",
    "rewrite-below",
    "rewrite-above",
    "simplify-rewrite-below",
    "simplify-rewrite-above",
    "above:leaf",
    "above:sliding-window-reduction",
    "above:rechunk",
    "above:slice",
    "above:elemwise2",
    "above:concat",
    "above:reduction",
    "below:slice",
    "below:rechunk",
    "below:reduction",
    "below:transpose",
    "culled",
    "all-locations-called",
    "multi-block-input",
]
REQUIRED_CLASSES = {"quick": list(_COMMON), "thorough": list(_COMMON)}
