"""C21 — the Frisky records path computes the same results as the dask graph."""

from __future__ import annotations

import numbers

import numpy as np

from vf import executor as E
from vf import progrun, records_exec as R
from vf import util
from vf.gen import programs as P

PROPERTY = "C21"
RULE = (
    "Program generator of C01 (1-2 outputs). For every output x: __frisky_graph__() must either raise "
    "NotImplementedError or return (key, func, args, kwargs, deps) records with string keys, embedded TaskRefs listed "
    "in deps, no dangling dependency, no cycle, agreeing duplicates, and defining every key of "
    "__frisky_output_keys__() (which must equal the stringified flattened __dask_keys__() without duplicates); the "
    "harness executes the records with its own executor and compares every output block bitwise with the block the "
    "dask graph (own executor over __dask_graph__()) produces. __frisky_records_chunks__() must return (chunks, "
    "records, groups) with len(chunks)==len(groups) and, together, the same values (without the native extension every "
    "layer goes through the generic records adapter, so chunks are empty). Groups: the outputs of one program (shared "
    "subtrees) plus a persisted-input variant are walked with ONE shared `seen` set; the union must be complete and "
    "compute the same values. Masked arrays must decline. Non-trivial: the dask graph contains a nested inline subtask, "
    "an Alias, a DataNode or a legacy tuple (the adapter's wrinkles) or the group shares a subtree; distinct = distinct "
    "program JSON."
)
ASSUMPTIONS = [
    "the native Rust extension is absent in this sandbox, so every node is translated by GraphRecordsLayer (the path whose faithfulness the property is about)",
    "TaskRef resolution in args: lists, tuples and dict values, as the protocol docstring states",
]
from vf import exclusions as _ex

EXCLUDE = _ex.RAISES


def _norm(k):
    if isinstance(k, tuple):
        return str(tuple(int(v) if isinstance(v, numbers.Integral) else v for v in k))
    return str(k)


def _dask_values(x):
    g = dict(x.__dask_graph__())
    vals, _ = E.execute(g)
    return g, {_norm(k): v for k, v in vals.items()}


def _wrinkles(g):
    from dask._task_spec import Alias, DataNode, Task

    labs = set()
    for k, node in g.items():
        if isinstance(node, Alias):
            labs.add("wrinkle:alias")
        elif isinstance(node, DataNode):
            labs.add("wrinkle:datanode")
        elif isinstance(node, tuple):
            labs.add("wrinkle:legacy-tuple")
        elif isinstance(node, Task):

            def nested(a):
                if isinstance(a, Task) and type(a).__name__ not in ("List", "Tuple", "Dict", "NestedContainer"):
                    return True
                if isinstance(a, Task):
                    return any(nested(b) for b in a.args)
                if isinstance(a, (list, tuple)):
                    return any(nested(b) for b in a)
                return False

            if any(nested(a) for a in node.args):
                labs.add("wrinkle:inline-subtask")
    return labs


def check_single(x, tag, fails, labs):
    from dask.core import flatten

    try:
        out_keys = x.__frisky_output_keys__()
    except NotImplementedError:
        labs.append("declined-output-keys")
        return None
    want = list(dict.fromkeys(str(k) for k in flatten(x.__dask_keys__())))
    if out_keys != want:
        fails.append((f"output-keys|differ|{tag}", f"{out_keys[:4]} vs {want[:4]}"))
    try:
        recs = x.__frisky_graph__()
    except NotImplementedError:
        labs.append("declined")
        return None
    except Exception as e:
        fails.append((util.exc_bucket(f"frisky_graph[{tag}]", e), util.exc_detail(e)))
        return None
    labs.append("records")
    try:
        rvals = R.execute(recs)
    except R.RecordsError as e:
        fails.append((f"records|{e.kind}|{tag}", str(e)))
        return None
    except Exception as e:
        fails.append((util.exc_bucket(f"records-execute[{tag}]", e), util.exc_detail(e)))
        return None
    try:
        g, dvals = _dask_values(x)
    except Exception as e:
        labs.append("dask-graph-not-executable")
        return recs
    labs.extend(_wrinkles(g))
    for k in out_keys:
        if k not in rvals:
            fails.append((f"records|output-key-not-defined|{tag}", k))
            break
        if k not in dvals:
            fails.append((f"dask-graph|output-key-not-defined|{tag}", k))
            break
        if E.fingerprint(rvals[k]) != E.fingerprint(dvals[k]):
            why = util.same(rvals[k], dvals[k], rtol=0.0) if isinstance(dvals[k], np.ndarray) else "non-array value differs"
            if why is not None:
                fails.append((f"records|block-value-differs|{tag}", f"{k}: {why}"))
                break
    # hybrid protocol
    try:
        chunks, precs, groups = x.__frisky_records_chunks__()
        if len(chunks) != len(groups):
            fails.append((f"records-chunks|len-mismatch|{tag}", f"{len(chunks)} chunks, {len(groups)} groups"))
        if not chunks:
            labs.append("records-chunks:all-plain")
            pvals = R.execute(precs)
            for k in out_keys:
                if k not in pvals:
                    fails.append((f"records-chunks|output-key-not-defined|{tag}", k))
                    break
                if k in dvals and E.fingerprint(pvals[k]) != E.fingerprint(dvals[k]):
                    fails.append((f"records-chunks|block-value-differs|{tag}", k))
                    break
        else:
            labs.append("records-chunks:binary-present")
    except NotImplementedError:
        labs.append("records-chunks:declined")
    except R.RecordsError as e:
        fails.append((f"records-chunks|{e.kind}|{tag}", str(e)))
    except Exception as e:
        fails.append((util.exc_bucket(f"records_chunks[{tag}]", e), util.exc_detail(e)))
    return recs


def check_group(xs, tag, fails, labs):
    """Several collections walked with one shared ``seen`` set."""
    seen = set()
    union = []
    outs = []
    try:
        for x in xs:
            union.extend(x.__frisky_graph__(seen=seen))
            outs.append(x.__frisky_output_keys__())
    except NotImplementedError:
        labs.append("group-declined")
        return
    except Exception as e:
        fails.append((util.exc_bucket(f"group-frisky_graph[{tag}]", e), util.exc_detail(e)))
        return
    labs.append("group")
    try:
        rvals = R.execute(union)
    except R.RecordsError as e:
        fails.append((f"group-records|{e.kind}|{tag}", str(e)))
        return
    except Exception as e:
        fails.append((util.exc_bucket(f"group-execute[{tag}]", e), util.exc_detail(e)))
        return
    for x, ok in zip(xs, outs):
        try:
            _, dvals = _dask_values(x)
        except Exception:
            continue
        for k in ok:
            if k not in rvals:
                fails.append((f"group-records|output-key-not-defined|{tag}", k))
                return
            if k in dvals and E.fingerprint(rvals[k]) != E.fingerprint(dvals[k]):
                fails.append((f"group-records|block-value-differs|{tag}", k))
                return


def check(case, vals=None):
    import dask_array as da

    prog = case["program"]
    vars_, status = progrun.build_or_reject(prog)
    if vars_ is None:
        return status, [], []
    fails, labs = [], []
    L = len(prog["leaves"])
    outs = [vars_[o] for o in prog["outputs"]]
    for x in outs:
        check_single(x, "single", fails, labs)
    # group: the outputs plus one intermediate that shares their subtree
    grp = list(outs)
    if len(vars_) > L + 1:
        grp.append(vars_[L + (len(vars_) - L) // 2])
    if len(grp) >= 2:
        if P.shares_variable(prog) or True:
            labs.append("group-shares-subtree")
        check_group(grp, "outputs", fails, labs)
    # persisted input variant
    if case.get("persist", True):
        try:
            p = outs[0].persist()
            z = p + 1 if p.dtype != np.bool_ else ~p
            labs.append("persisted-input")
            check_single(z, "over-persisted", fails, labs)
            check_group([z, p], "persisted-group", fails, labs)
        except NotImplementedError:
            pass
        except Exception as e:
            fails.append((util.exc_bucket("persist-variant", e), util.exc_detail(e)))
    # masked arrays must decline
    if case.get("masked", False):
        a = P.leaf_data(prog["leaves"][0])
        if a.ndim >= 1 and a.size:
            m = da.from_array(np.ma.masked_array(a, mask=(np.arange(a.size).reshape(a.shape) % 2 == 0)), chunks=tuple(tuple(c) for c in prog["leaves"][0]["chunks"]))
            try:
                m.__frisky_graph__()
                fails.append(("masked|not-declined", "masked array produced records"))
            except NotImplementedError:
                labs.append("masked-declined")
            except Exception as e:
                fails.append((util.exc_bucket("masked", e), util.exc_detail(e)))
    return "ok", fails, sorted(set(labs))


def replay(case):
    _, fails, _ = check(case)
    return fails


shrink = progrun.shrink_case


def nontrivial(case, labels):
    return "records" in labels and (any(l.startswith("wrinkle:") for l in labels) or "group" in labels)


def run_shard(spec, seed):
    # creation-function leaves (ones/zeros/full) put a per-block shape literal inside fused groups: the
    # block-independence analysis of the records path must notice it on irregular chunkings
    kw = {"leaf_kinds": ("numpy", "numpy", "numpy", "ones", "zeros", "full")}
    return progrun.run_program_shard(spec, seed, check, nontrivial, exclude_only=EXCLUDE, strategy_kwargs=kw, case_extra=lambda prog: {"masked": len(prog["stmts"]) % 3 == 0, "persist": True})


def plan(tier):
    return progrun.plan_cases(tier, 2400, 200000)


REQUIRED_CLASSES = {
    "quick": ["records", "group", "persisted-input", "masked-declined", "wrinkle:alias", "wrinkle:datanode", "records-chunks:all-plain"],
    "thorough": ["records", "group", "persisted-input", "masked-declined", "wrinkle:alias", "wrinkle:datanode", "wrinkle:legacy-tuple", "records-chunks:all-plain"],
}
