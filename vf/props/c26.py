"""C26 — xarray integration is strictly opt-in.

Cases are import ORDERS executed in FRESH interpreters (``_c26_driver.py``; one
subprocess per case, one at a time per shard).  A case is JSON::

    {"order": ["dask_array._rechunk", "xarray", "dask_array.io", ...],
     "register_at": null | k,          # register() before order[k]; len(order) = after all
     "observe": "active" | "passive",  # see below
     "program": null | {...}}          # small xarray value program run after the order

Oracle (independent of dask_array: two fully qualified class names)
    before ``dask_array.xarray.register()`` every observation shows
    ``list_chunkmanagers()["dask"]`` and ``guess_chunkmanager(None)`` of type
    ``xarray.namedarray.daskmanager.DaskManager``, no manager of a ``dask_array``
    class under any name, ``isactive()`` False, and ``DataArray.chunk()`` yields a
    ``dask.array`` collection; after ``register()`` the type is
    ``dask_array._xarray.DaskArrayExprManager``, ``isactive()`` True, ``.chunk()``
    yields ``dask_array._collection.Array`` and stays so through later imports.
    The presence of ``dask_array._xarray`` in ``sys.modules`` is NOT part of the
    oracle (importing that submodule is one of the generated imports).

Observation and xarray's cache
    ``list_chunkmanagers`` is ``functools.lru_cache(maxsize=1)``: the first call
    builds the dict from entry points, later calls return the same dict object,
    and dask_array's ``_ensure_registered`` registers by mutating that cached
    dict.  The driver only reads the dict (fresh attribute lookup each time, the
    dict is never kept, ``cache_clear()`` is never called -- it would erase a
    registration).  The one way reading can matter is by being the *first*
    caller (populates the cache, imports dask.array via xarray's DaskManager).
    "active" observes after every import once xarray is loaded; "passive"
    consults ``cache_info()`` (which does not touch the cache) and reads at a
    step only if something else already populated it, and unconditionally only
    after the whole order -- the imports then run against a cold cache as in a
    script that starts with ``import xarray; import dask_array.foo``.
    ``isactive()`` is asked per step only via an already loaded
    ``sys.modules["dask_array.xarray"]`` and only when the dict is read anyway;
    after the order the driver performs an explicit recorded
    ``import dask_array.xarray`` step, re-observes, and asks ``isactive()``.
    Implicit parent-package imports (``dask_array``, ``dask_array._frisky``) are
    executed as separate recorded steps in Python's own sequence so that a
    change made by the package ``__init__`` chain is attributed to the package.

Parts
    (a) singles: every module of the package (directory walk at run time,
        ``dask_array.tests*`` excluded): [M, xarray], [xarray, M] active and
        [xarray, M] passive; quick tier: a Hypothesis-drawn sample.
    (b) Hypothesis-drawn permutations of 5-40 modules, xarray at a drawn
        position, optional register() at a drawn index; every prefix checked.
    (c) value programs after register(): NumPy-backed vs ``.chunk()``-ed
        (dask_array-backed) DataArray/Dataset programs, compared with
        ``vf.util.same``.
    (d) static: ``$VERIF_REPO/pyproject.toml`` declares no
        ``xarray.chunkmanagers`` entry point; ``importlib.metadata`` in a fresh
        interpreter lists none from / pointing into dask-array.
"""

from __future__ import annotations

import json
import os
import re
import subprocess
import sys
import tempfile

import numpy as np

from vf import util
from vf.runner import Collector

PROPERTY = "C26"
RULE = (
    "Each case is an import order run in a fresh interpreter (subprocess, PYTHONPATH=$VERIF_REPO): (a) for every module M "
    "of the dask_array package found by walking the package directory at run time (tests excluded) the orders [M, xarray], "
    "[xarray, M] (observing after every import) and [xarray, M] with a cold list_chunkmanagers cache (observing only at the "
    "end) -- quick tier: a Hypothesis-drawn sample of ~40 modules, half of them from the modules `import dask_array` does not "
    "load; (b) Hypothesis-drawn permutations of 5-40 modules (half drawn from the lazily loaded ones) with xarray inserted at a "
    "drawn position, register() at a drawn index or never, observation policy drawn, chunk-manager state checked after every "
    "import (one subprocess validates every prefix); (c) after register(), Hypothesis-drawn xarray programs (DataArray/Dataset, "
    "1-3 dims, f8/f4/i8 with NaNs, 1-6 ops from scalar arithmetic, anomalies, mean/sum/max/min/std/var(dim), isel, transpose, "
    "rolling().mean(), coarsen().mean(), cumsum, shift, diff, where, clip, broadcasting, .chunk(), .compute()) evaluated "
    "NumPy-backed and dask_array-backed; (d) pyproject.toml and installed entry-point metadata. Oracle: fully qualified class "
    "name of list_chunkmanagers()['dask'] / guess_chunkmanager(None), isactive(), type produced by DataArray.chunk(). "
    "Non-trivial: xarray is imported strictly between two dask_array modules, or register() happens mid-order; distinct = "
    "distinct case JSON."
)
ASSUMPTIONS = [
    "the sandbox has xarray installed with exactly its own 'dask' chunk-manager entry point (xarray.namedarray.daskmanager:DaskManager); that class name is the 'unchanged' reference",
    "dask-array is installed as an editable distribution whose dist-info was generated from /repo's pyproject.toml at install time; source edits to entry points are seen through the pyproject.toml check of $VERIF_REPO, the installed-metadata check covers the environment the subprocesses actually run in (PYTHONPATH=$VERIF_REPO first, so a dist-info/egg-info inside the repo would be seen too)",
    "the ~27 dask_array._frisky.* wrappers that need the native extension raise ImportError here; the import is attempted, the exception swallowed as a user's try/except would, and the state checked afterwards",
    "the observer reads xarray's cached manager dict (never clears it); under the 'active' policy it may be the first to populate the cache, the 'passive' policy avoids even that until the order has run",
    "value programs whose NumPy-backed evaluation raises are outside the domain (rejected); dtype differences with equal values are reported as a class, not a failure",
    "a subprocess crash or a 120 s timeout is a harness error, never a verdict",
]

XR_MANAGER = "xarray.namedarray.daskmanager.DaskManager"
DA_MANAGER = "dask_array._xarray.DaskArrayExprManager"
DA_ARRAY = "dask_array._collection.Array"
MARK = "@@C26-RESULT@@"
DRIVER = os.path.join(os.path.dirname(os.path.abspath(__file__)), "_c26_driver.py")
TIMEOUT = 120
MOD_RE = re.compile(r"^dask_array(\.[A-Za-z_][A-Za-z0-9_]*)*$")
# dask settings a case may run under: with query planning on, importing dask.array (which xarray's built-in
# manager does) takes over dask-core's shared collection-dispatch slot, and dask_array re-registers itself
# there on the next dispatch - a code path that must not opt anybody in
ENVS = {"DASK_ARRAY__QUERY_PLANNING": "True"}


def repo_dir():
    return os.path.abspath(os.environ.get("VERIF_REPO", "/repo"))


# ---------------------------------------------------------------------------
# subprocess plumbing


def run_driver(job):
    """One fresh interpreter.  Raises RuntimeError (harness error) on crash/timeout."""
    env = dict(os.environ)
    env.update(
        {
            "PYTHONPATH": repo_dir(),
            "PYTHONHASHSEED": "0",
            "PYTHONWARNINGS": "ignore",
            "PYTHONDONTWRITEBYTECODE": "1",
            "OMP_NUM_THREADS": "1",
            "OPENBLAS_NUM_THREADS": "1",
            "MKL_NUM_THREADS": "1",
            "NUMEXPR_NUM_THREADS": "1",
        }
    )
    env.update(job.get("env") or {})  # dask configuration of the fresh interpreter (see ENVS)
    try:
        p = subprocess.run(
            [sys.executable, "-P", DRIVER],
            input=json.dumps(job),
            capture_output=True,
            text=True,
            timeout=TIMEOUT,
            env=env,
            cwd=tempfile.gettempdir(),
        )
    except subprocess.TimeoutExpired:
        raise RuntimeError(f"C26 driver timed out after {TIMEOUT}s: {util.canon(job)[:400]}")
    pos = p.stdout.rfind(MARK)
    if p.returncode != 0 or pos < 0:
        raise RuntimeError(f"C26 driver crashed rc={p.returncode}: job={util.canon(job)[:300]}\nstderr: {p.stderr[-1500:]}")
    out = json.loads(p.stdout[pos + len(MARK) :].strip().splitlines()[0])
    if "driver_error" in out:
        raise RuntimeError(f"C26 driver error: {out['driver_error']}")
    f = out.get("dask_array_file")
    if f is not None and not os.path.abspath(f).startswith(repo_dir() + os.sep):
        raise RuntimeError(f"subprocess imported dask_array from {f}, not {repo_dir()}")
    return out


def walk_modules():
    """All modules of the package under test (directory walk), tests excluded."""
    root = os.path.join(repo_dir(), "dask_array")
    mods = []
    for dp, dns, fns in os.walk(root):
        dns[:] = sorted(d for d in dns if d != "__pycache__")
        if "__init__.py" not in fns:
            dns[:] = []  # data directory (templates), not a package
            continue
        rel = os.path.relpath(dp, root)
        pkg = "dask_array" if rel == "." else "dask_array." + rel.replace(os.sep, ".")
        if pkg == "dask_array.tests" or pkg.startswith("dask_array.tests."):
            dns[:] = []
            continue
        mods.append(pkg)
        for f in sorted(fns):
            if f.endswith(".py") and f != "__init__.py" and MOD_RE.match(pkg + "." + f[:-3]):
                mods.append(pkg + "." + f[:-3])
    return sorted(mods)


# ---------------------------------------------------------------------------
# validation


def _validate_program(prog):
    assert isinstance(prog, dict) and prog.get("kind") in ("da", "ds")
    dims, shape = prog["dims"], prog["shape"]
    assert isinstance(dims, list) and 1 <= len(dims) <= 3 and len(set(dims)) == len(dims) and all(d in ("x", "y", "z") for d in dims)
    assert isinstance(shape, list) and len(shape) == len(dims) and all(isinstance(s, int) and not isinstance(s, bool) and 1 <= s <= 12 for s in shape)

    def vspec(v):
        assert v["dtype"] in ("f8", "f4", "i8")
        assert isinstance(v["mult"], int) and isinstance(v["mod"], int) and v["mod"] >= 1 and v["mult"] >= 0
        assert isinstance(v.get("nan_every") or 0, int) and (v.get("nan_every") or 0) >= 0

    vspec(prog["a"])
    if prog["kind"] == "ds":
        vspec(prog["b"])
        assert isinstance(prog["b_dims"], list) and len(prog["b_dims"]) >= 1 and all(d in dims for d in prog["b_dims"])
    ch = prog["chunks"]
    assert isinstance(ch, dict) and all(k in dims and isinstance(v, int) and not isinstance(v, bool) and (v >= 1 or v == -1) for k, v in ch.items())
    assert isinstance(prog["ops"], list) and len(prog["ops"]) <= 12
    for op in prog["ops"]:
        assert isinstance(op, dict) and isinstance(op.get("op"), str)
        if op["op"] == "chunk":
            assert all(isinstance(v, int) and not isinstance(v, bool) and (v >= 1 or v == -1) for v in op["chunks"].values())
        if op["op"] in ("rolling_mean", "coarsen_mean"):
            assert isinstance(op["window"], int) and op["window"] >= 1
        if op["op"] == "scalar" and op["fn"] == "div":
            assert op["v"] != 0


def validate(case):
    assert isinstance(case, dict)
    if "static" in case:
        assert case["static"] in ("pyproject", "entrypoints")
        return
    order = case.get("order")
    assert isinstance(order, list) and order and all(isinstance(m, str) for m in order)
    assert order.count("xarray") == 1 and len(set(order)) == len(order) and len(order) <= 200
    for m in order:
        if m not in ("xarray", "dask.array"):
            assert MOD_RE.match(m) and not (m == "dask_array.tests" or m.startswith("dask_array.tests."))
    env = case.get("env") or {}
    assert isinstance(env, dict) and all(k in ENVS and v == ENVS[k] for k, v in env.items())
    reg = case.get("register_at")
    assert reg is None or (isinstance(reg, int) and not isinstance(reg, bool) and 0 <= reg <= len(order))
    # an order without any dask_array module only makes sense when register() is exercised
    assert len(order) >= 2 or reg is not None
    assert case.get("observe", "active") in ("active", "passive")
    if case.get("program") is not None:
        assert reg is not None, "value programs run after register()"
        _validate_program(case["program"])


# ---------------------------------------------------------------------------
# oracle


def _arr(v):
    return np.array(v["values"], dtype=np.dtype(v["dtype"])).reshape(v["shape"])


def _cmp_snapshot(got, exp, atol):
    """None when equal; else (what, text).  Values only (+ dims/shape); dtype reported separately."""
    if sorted(got) != sorted(exp):
        return ("vars", f"variables {sorted(got)} != {sorted(exp)}")
    for name in sorted(exp):
        g, e = got[name], exp[name]
        if g["dims"] != e["dims"]:
            return ("dims", f"{name or 'array'}: dims {g['dims']} != {e['dims']}")
        r = util.same(_arr(g), _arr(e), check_dtype=False, atol=atol)
        if r is not None:
            return ("values", f"{name or 'array'}: {r}; got {util.short(_arr(g))} expected {util.short(_arr(e))}")
    return None


def _opname(prog, i):
    """Name of the op producing prefix i (prefix 0 = the freshly chunked input)."""
    if i <= 0:
        return "chunk-input"
    op = prog["ops"][i - 1]
    if op["op"] in ("scalar", "reduce", "bcast"):
        return f"{op['op']}:{op['fn']}"
    return op["op"]


def check_program(prog, res):
    """-> (fails, labels, rejected_reason)"""
    fails, labels = [], []
    if "np_error" in res:
        return [], [], "program-invalid:" + res["np_error"]["type"]
    bad_backing = {k: v for k, v in (res.get("chunked_backing") or {}).items() if v != DA_ARRAY}
    if "chunked_backing" in res and bad_backing:
        fails.append(("registered-chunk-not-dask-array", f"after register(), .chunk({prog['chunks']}) is backed by {bad_backing}"))
        return fails, labels, None
    ce = res.get("chunked_error")
    if ce is not None and ce.get("phase") == "chunk":
        fails.append((f"values-raise|chunk-input|{ce['type']}|{util.norm_msg(ce['msg'], 60)}", ce.get("tb", "")))
        return fails, labels, None
    nps = res["np"]
    ops = [o.get("fn", o["op"]) for o in prog["ops"]]
    vals = [_arr(v) for snap in nps for v in snap.values()]
    atol = util.float_tolerance(vals, ops)
    if ce is not None:  # building the lazy chunked chain raised at op ce["at"] where NumPy-backed evaluation succeeded
        fails.append((f"values-raise|{_opname(prog, ce['at'] + 1)}|{ce['type']}|{util.norm_msg(ce['msg'], 60)}", f"op {prog['ops'][ce['at']]}\n{ce.get('tb', '')}"))
        return fails, labels, None
    got = res["chunked"]
    n = len(nps) - 1
    cerrs = res.get("compute_errors") or {}
    if cerrs:
        first = min(int(k) for k in cerrs)
        e = cerrs[str(first)]
        fails.append((f"values-raise|{_opname(prog, first)}|{e['type']}|{util.norm_msg(e['msg'], 60)}", f"compute of prefix {first}/{n} raised\n{e.get('tb', '')}"))
        return fails, labels, None
    final = _cmp_snapshot(got[n], nps[n], atol)
    first_bad = None
    for i in range(n + 1):
        r = _cmp_snapshot(got[i], nps[i], atol)
        if r is not None:
            first_bad = (i, r)
            break
    if final is not None or first_bad is not None:
        i, r = first_bad if first_bad is not None else (n, final)
        fails.append((f"values-differ|{_opname(prog, i)}", f"first difference after prefix {i}/{n} ({r[0]}): {r[1]}\nprogram={util.canon(prog)}"))
    for i in range(n + 1):
        if any(got[i][k]["dtype"] != nps[i][k]["dtype"] for k in nps[i] if k in got[i]):
            labels.append("value:dtype-differs")
            break
    rb = res.get("result_backing") or []
    if rb and all(v == DA_ARRAY for v in rb[-1].values()):
        labels.append("value:result-lazy")
    elif rb:
        labels.append("value:result-not-dask_array-backed")
    return fails, labels, None


def evaluate(case, out):
    """Pure function of the driver's records -> (fails, labels, rejected)."""
    fails, labels = [], []
    registered = False
    state_failed = False
    order = case["order"]
    xpos = order.index("xarray")
    x_implicit = False
    for rec in out["steps"]:
        kind = rec["kind"]
        mod = rec.get("module")
        if kind == "import":
            if rec.get("error") is not None:
                if mod in ("xarray", "dask_array"):
                    raise RuntimeError(f"C26: import {mod} failed in the subprocess: {rec['error']}")
                labels.append("import-error-swallowed")
            if mod != "xarray" and rec.get("loaded_xarray") and rec.get("index") is not None and rec["index"] < xpos:
                x_implicit = True
        if kind == "register":
            if rec.get("error") is not None:
                fails.append((f"register-raised|{rec['error']['type']}", str(rec["error"])))
                state_failed = True
            registered = True
        if kind == "probe":
            if rec.get("error") is not None:
                if not registered:
                    raise RuntimeError(f"C26: xarray .chunk() probe failed before register(): {rec['error']}")
                fails.append((f"registered-chunk-raised|{rec['error']['type']}", str(rec["error"])))
            elif not state_failed:
                ct = rec["chunk_type"]
                if not registered and not ct.startswith("dask.array."):
                    fails.append(("chunk-backend-changed-without-register", f"DataArray.chunk() produced {ct} although register() was never called; order={order}"))
                    state_failed = True
                if registered and ct != DA_ARRAY:
                    fails.append(("registered-chunk-not-dask-array", f"DataArray.chunk() produced {ct} after register(); order={order}"))
                    state_failed = True
        if rec.get("observe_error") is not None:
            raise RuntimeError(f"C26: observation failed: {rec['observe_error']}")
        if rec.get("isactive_error") is not None and not state_failed:
            fails.append((f"isactive-raised|{rec['isactive_error']['type']}", f"at {kind} {mod}: {rec['isactive_error']}"))
        if rec.get("isactive_loaded_xarray"):
            labels.append("isactive-loaded-xarray")
        if state_failed:
            continue
        where = mod if kind == "import" else f"<{kind}>"
        if "managers" in rec:
            want = DA_MANAGER if registered else XR_MANAGER
            mg = rec["managers"]
            foreign = sorted(k for k, v in mg.items() if v.startswith("dask_array.")) if not registered else []
            if mg.get("dask") != want or rec.get("guess") != want or foreign:
                detail = f"after {where}: list_chunkmanagers()={mg} guess_chunkmanager(None)={rec.get('guess')} expected {want}; order={order} register_at={case.get('register_at')} observe={case.get('observe', 'active')}"
                if kind == "register":
                    fails.append(("register-did-not-activate", detail))
                elif registered:
                    fails.append((f"manager-reverted-after-register|{where}", detail))
                else:
                    if kind == "final":
                        where = "unattributed"
                    fails.append((f"manager-changed-by-import|{where}", detail))
                state_failed = True
                continue
        if "isactive" in rec:
            ia = rec["isactive"]
            if ia and not registered:
                fails.append(("isactive-true-before-register", f"after {where}: isactive() True, managers={rec.get('managers')}; order={order}"))
                state_failed = True
            elif registered and not ia:
                fails.append(("register-did-not-activate" if kind == "register" else f"isactive-false-after-register|{where}", f"after {where}: isactive() False, managers={rec.get('managers')}; order={order}"))
                state_failed = True
    if x_implicit:
        labels.append("xarray-loaded-implicitly-before-its-import")
    rejected = None
    if case.get("program") is not None and "program" in out and not state_failed:
        pf, pl, rejected = check_program(case["program"], out["program"])
        fails.extend(pf)
        labels.extend(pl)
    return fails, sorted(set(labels)), rejected


# ---------------------------------------------------------------------------
# static facts


def check_pyproject():
    import tomllib

    root = repo_dir()
    fails = []
    with open(os.path.join(root, "pyproject.toml"), "rb") as f:
        doc = tomllib.load(f)
    proj = doc.get("project", {})
    eps = proj.get("entry-points", {}) or {}
    if "xarray.chunkmanagers" in eps:
        fails.append(("entrypoint-declared|pyproject", f"pyproject.toml [project.entry-points.\"xarray.chunkmanagers\"] = {eps['xarray.chunkmanagers']}"))
    for grp, table in eps.items():
        if grp != "xarray.chunkmanagers" and isinstance(table, dict) and any("ChunkManager" in str(v) or "_xarray" in str(v) for v in table.values()):
            fails.append(("entrypoint-declared|pyproject-other-group", f"{grp}: {table}"))
    if "entry-points" in (proj.get("dynamic") or []):
        fails.append(("entrypoint-declared|dynamic", "project.dynamic lists entry-points: they would be supplied by the build backend"))
    for name in ("setup.py", "setup.cfg"):
        p = os.path.join(root, name)
        if os.path.exists(p):
            with open(p, errors="replace") as f:
                if "xarray.chunkmanagers" in f.read():
                    fails.append((f"entrypoint-declared|{name}", f"{name} mentions xarray.chunkmanagers"))
    return fails


def check_entrypoints():
    out = run_driver({"job": "entrypoints"})
    fails = []
    eps = out["entry_points"]
    dask_eps = [e for e in eps if e["name"] == "dask"]
    if len(dask_eps) != 1 or dask_eps[0]["value"].replace(" ", "") != "xarray.namedarray.daskmanager:DaskManager":
        # the reference class of the oracle would be wrong: environment problem unless dask-array did it
        if not any(e["dist"] == "dask-array" or e["value"].startswith("dask_array") for e in dask_eps):
            raise RuntimeError(f"C26: unexpected 'dask' chunk-manager entry points in the sandbox: {eps}")
    for e in eps:
        if e["dist"] == "dask-array" or e["value"].split(":")[0].split(".")[0] == "dask_array":
            fails.append(("entrypoint-declared|installed-metadata", f"entry point {e} in group xarray.chunkmanagers"))
    if not out["dists"]:
        raise RuntimeError("C26: no dask-array distribution visible to importlib.metadata (cannot check its entry points)")
    for d in out["dists"]:
        for e in d["entry_points"]:
            if e["group"] == "xarray.chunkmanagers":
                fails.append(("entrypoint-declared|installed-metadata", f"dask-array {d['version']} at {d['location']} declares {e}"))
    return fails, out


# ---------------------------------------------------------------------------
# case execution


def run_case(case):
    """-> (fails, labels, rejected).  One subprocess."""
    validate(case)
    if "static" in case:
        if case["static"] == "pyproject":
            return check_pyproject(), ["static:pyproject"], None
        fails, out = check_entrypoints()
        labs = ["static:entrypoints"]
        if any('"editable": true' in (d.get("direct_url") or "") or '"editable":true' in (d.get("direct_url") or "") for d in out["dists"]):
            labs.append("static:editable-install")
        return fails, labs, None
    job = {"job": "order", "order": case["order"], "register_at": case.get("register_at"), "observe": case.get("observe", "active"), "program": case.get("program"), "env": case.get("env") or {}}
    out = run_driver(job)
    return evaluate(case, out)


def replay(case):
    fails, _, _ = run_case(case)
    return fails


def structure_labels(case):
    order = case["order"]
    n = len(order)
    x = order.index("xarray")
    reg = case.get("register_at")
    labs = ["xarray-first" if x == 0 else ("xarray-last" if x == n - 1 else "xarray-middle")]
    labs.append("observe:" + case.get("observe", "active"))
    if reg is not None:
        labs.append("registered")
        labs.append("register:first" if reg == 0 else ("register:after-all" if reg == n else "register:mid-order"))
        if reg <= x:
            labs.append("register:before-xarray-import")
    else:
        labs.append("never-registered")
    if "dask_array._xarray" in order:
        labs.append("imports-dask_array._xarray")
    if case.get("env"):
        labs.append("env:query-planning")
    if "dask.array" in order:
        labs.append("imports-dask.array")
    nontrivial = (0 < x < n - 1) or (reg is not None and 0 < reg < n)
    return labs, nontrivial


def record(col, case, extra_labels=()):
    labs, nontrivial = structure_labels(case)
    fails, rlabs, rejected = run_case(case)
    if rejected is not None:
        col.reject(rejected)
        return
    col.case(case, nontrivial, list(extra_labels) + labs + list(rlabs))
    for b, d in fails:
        col.fail(b, case, d)


# ---------------------------------------------------------------------------
# generators


def _settings(n):
    from hypothesis import HealthCheck, Phase, settings

    return settings(max_examples=n, database=None, deadline=None, derandomize=False, phases=[Phase.generate], suppress_health_check=list(HealthCheck))


def module_strategy(mods, lazy):
    """Half of the draws come from the modules `import dask_array` does not load
    (their import is the only one that executes new code after the first
    dask_array import), the other half from the whole package."""
    from hypothesis import strategies as st

    lz = [m for m in mods if m in set(lazy)]
    if not lz:
        return st.sampled_from(mods)
    return st.one_of(st.sampled_from(lz), st.sampled_from(mods))


def run_singles(spec, seed, col):
    mods = spec["modules"]

    def one(m, kind, observe):
        run_single(col, m, kind, observe)

    if spec.get("sample") is None:
        for m in mods:
            for kind, observe in SINGLE_VARIANTS:
                one(m, kind, observe)
        col.exhaustive = True
        return
    import hypothesis
    from hypothesis import given
    from hypothesis import strategies as st

    seen = set()

    @hypothesis.seed(seed)
    @_settings(spec["sample"])
    @given(module_strategy(mods, spec["lazy"]), st.booleans())
    def body(m, passive):
        if m in seen:
            col.reject("single-duplicate-draw")
            return
        seen.add(m)
        one(m, "M-then-xarray", "active")
        one(m, "xarray-then-M", "passive" if passive else "active")

    body()
    col.exhaustive = False


def perm_strategy(mods, lazy, lo=5, hi=40):
    from hypothesis import strategies as st

    from vf.gen.draw import D

    ms = module_strategy(mods, lazy)

    @st.composite
    def build(draw):
        d = D(draw)
        n = d.int(lo, min(hi, len(mods)))
        chosen = draw(st.lists(ms, min_size=n, max_size=n, unique=True))
        where = d.weighted([("first", 1), ("last", 1), ("middle", 4)])
        pos = 0 if where == "first" else (len(chosen) if where == "last" else d.int(1, len(chosen) - 1))
        order = chosen[:pos] + ["xarray"] + chosen[pos:]
        reg = d.int(0, len(order)) if d.chance(1, 2) else None
        observe = d.choice(["active", "passive"])
        case = {"order": order, "register_at": reg, "observe": observe, "program": None}
        if d.chance(1, 3):
            # query planning on, dask.array imported somewhere along the way, usually never registered
            case["env"] = dict(ENVS)
            order.insert(d.int(0, len(order)), "dask.array")
            if d.chance(2, 3) and "dask_array._xarray" not in order:
                order.insert(d.int(0, len(order)), "dask_array._xarray")
            if d.chance(2, 3):
                case["register_at"] = None
        return case

    return build()


def run_perms(spec, seed, col):
    import hypothesis
    from hypothesis import given

    @hypothesis.seed(seed)
    @_settings(spec["cases"])
    @given(perm_strategy(spec["modules"], spec["lazy"]))
    def body(case):
        record(col, case, ["perm"])

    body()
    col.exhaustive = False


def draw_program(d):
    kind = d.weighted([("da", 3), ("ds", 2)])
    ndim = d.weighted([(1, 2), (2, 4), (3, 2)])
    dims = ["x", "y", "z"][:ndim]
    hi = 8 if ndim < 3 else 5
    shape = [d.int(1, hi) for _ in dims]

    def vspec():
        dt = d.weighted([("f8", 4), ("f4", 1), ("i8", 2)])
        return {"dtype": dt, "mult": d.choice([1, 3, 7, 11, 13]), "mod": d.choice([5, 17, 41, 101]), "nan_every": 0 if dt == "i8" else d.weighted([(0, 3), (3, 1), (5, 1), (7, 1)])}

    prog = {"kind": kind, "dims": dims, "shape": shape, "a": vspec()}
    if kind == "ds":
        prog["b"] = vspec()
        prog["b_dims"] = [d.choice(dims)] if d.chance(2, 3) else list(dims)

    def chunks_for(cur):
        return {k: (-1 if d.chance(1, 5) else d.int(1, s)) for k, s in cur}

    prog["chunks"] = chunks_for(list(zip(dims, shape)))
    cur = [[k, s] for k, s in zip(dims, shape)]  # dims of the running result (for a Dataset: of the dataset)
    ops = []
    for _ in range(d.int(1, 6)):
        names = [("scalar", 4), ("where", 1), ("clip", 1)]
        if cur:
            names += [("reduce", 4), ("isel", 4), ("rolling_mean", 4), ("anom", 2), ("cumsum", 2), ("shift", 2), ("coarsen_mean", 2), ("bcast", 2), ("chunk", 3), ("compute", 1)]
            if any(s >= 2 for _, s in cur):
                names.append(("diff", 2))
        if len(cur) >= 2:
            names.append(("transpose", 4))
        if kind == "ds" and not any(o["op"] == "assign_prod" for o in ops):
            names.append(("assign_prod", 3))
        k = d.weighted(names)
        op = {"op": k}
        if k == "scalar":
            op["fn"] = d.choice(["add", "sub", "rsub", "mul", "div", "pow2", "neg", "abs"])
            if op["fn"] not in ("pow2", "neg", "abs"):
                op["v"] = d.choice([2, 3, -1, 0.5, 4, 10])
        elif k == "where":
            op["thr"] = d.int(-3, 3)
        elif k == "clip":
            op["lo"] = d.int(-4, 0)
            op["hi"] = d.int(1, 5)
        elif k == "reduce":
            op["fn"] = d.choice(["mean", "mean", "sum", "max", "min", "std", "var"])
            sel = d.subset([c[0] for c in cur], min_size=1)
            op["dims"] = sel
            cur = [c for c in cur if c[0] not in sel]
        elif k == "transpose":
            p = d.perm(len(cur))
            cur = [cur[i] for i in p]
            op["dims"] = [c[0] for c in cur]
        else:
            i = d.int(0, len(cur) - 1) if cur else 0
            if k not in ("chunk", "compute", "assign_prod"):
                dim, size = cur[i]
                op["dim"] = dim
            if k == "isel":
                how = d.weighted([("int", 2), ("slice", 4), ("list", 2)])
                if how == "int":
                    op["idx"] = d.int(-size, size - 1)
                    cur.pop(i)
                elif how == "slice":
                    step = d.choice([1, 1, 2, 3, -1, -2])
                    a, b = d.int(0, size - 1), d.int(0, size - 1)
                    lo_, hi_ = min(a, b), max(a, b)
                    sl = [lo_, hi_ + 1, step] if step > 0 else [hi_, (lo_ - 1 if lo_ > 0 else None), step]
                    m = len(range(size)[slice(*sl)])
                    assert m >= 1
                    op["idx"] = {"slice": sl}
                    cur[i][1] = m
                else:
                    lst = d.ints(-size, size - 1, min_size=1, max_size=4)
                    op["idx"] = {"list": lst}
                    cur[i][1] = len(lst)
            elif k == "rolling_mean":
                w = d.int(1, size)
                op["window"] = w
                op["center"] = d.bool()
                op["min_periods"] = d.int(1, w) if d.chance(1, 2) else None
            elif k == "shift":
                op["n"] = d.choice([n for n in range(-size, size + 1) if n != 0])
            elif k == "diff":
                cands = [j for j, c in enumerate(cur) if c[1] >= 2]
                i = d.choice(cands)
                op["dim"] = cur[i][0]
                cur[i][1] -= 1
            elif k == "coarsen_mean":
                w = d.int(1, size)
                op["window"] = w
                cur[i][1] = size // w
            elif k == "bcast":
                op["fn"] = d.choice(["add", "sub", "mul"])
            elif k == "chunk":
                op["chunks"] = chunks_for(cur)
        ops.append(op)
    prog["ops"] = ops
    return prog


def value_strategy(mods, lazy):
    from hypothesis import strategies as st

    from vf.gen.draw import D

    ms = module_strategy(mods, lazy)

    @st.composite
    def build(draw):
        d = D(draw)
        n = d.int(0, 4)
        chosen = draw(st.lists(ms, min_size=n, max_size=n, unique=True))
        pos = d.int(0, len(chosen))
        order = chosen[:pos] + ["xarray"] + chosen[pos:]
        reg = d.weighted([(len(order), 2), (d.int(0, len(order)), 2)])
        return {"order": order, "register_at": reg, "observe": d.choice(["active", "passive"]), "program": draw_program(d)}

    return build()


def run_values(spec, seed, col):
    import hypothesis
    from hypothesis import given

    @hypothesis.seed(seed)
    @_settings(spec["cases"])
    @given(value_strategy(spec["modules"], spec["lazy"]))
    def body(case):
        labs = ["value-program", "value:" + case["program"]["kind"]]
        labs += sorted({"value-op:" + o["op"] for o in case["program"]["ops"]})
        record(col, case, labs)

    body()
    col.exhaustive = False


SINGLE_VARIANTS = [("M-then-xarray", "active"), ("xarray-then-M", "active"), ("xarray-then-M", "passive")]
# modules the property names: always run as singles, also in the sampled quick tier
ANCHORS = ["dask_array", "dask_array.xarray", "dask_array._xarray"]


def run_single(col, m, kind, observe, extra=()):
    order = [m, "xarray"] if kind == "M-then-xarray" else ["xarray", m]
    case = {"order": order, "register_at": None, "observe": observe, "program": None}
    record(col, case, ["single:" + kind, "single"] + list(extra))


def run_static(spec, col):
    for what in ("pyproject", "entrypoints"):
        case = {"static": what}
        fails, labs, _ = run_case(case)
        col.case(case, False, labs)
        for b, d in fails:
            col.fail(b, case, d)
    for m in spec.get("anchors", []):
        for kind, observe in SINGLE_VARIANTS:
            run_single(col, m, kind, observe, ["single:anchor"])
    col.exhaustive = True


# ---------------------------------------------------------------------------
# engine protocol


def _split(lst, k):
    k = max(1, min(k, len(lst)))
    return [lst[i::k] for i in range(k)]


def plan(tier):
    scale = float(os.environ.get("VERIF_SCALE", "1"))
    mods = walk_modules()
    eager = run_driver({"job": "eager"})
    # (if `import dask_array` itself loads xarray the orders below still run: the
    # driver reports per step when xarray appeared and the oracle is absolute)
    loaded = set(eager["loaded"])
    lazy = [m for m in mods if m not in loaded]
    specs = [{"part": "static", "lazy": lazy, "anchors": [m for m in ANCHORS if m in mods] if tier == "quick" else []}]
    if tier == "quick":
        n_single, n_perm, n_val = max(8, int(40 * scale)), max(5, int(24 * scale)), max(3, int(8 * scale))
        k_single, k_perm, k_val = 8, 5, 2
        for part in _split(mods, k_single):
            specs.append({"part": "singles", "modules": part, "lazy": lazy, "sample": -(-n_single // k_single) + 1})  # +1: duplicate draws are skipped
    else:
        n_perm, n_val = max(16, int(400 * scale)), max(7, int(200 * scale))
        k_single, k_perm, k_val = 24, 16, 7
        for part in _split(mods, k_single):
            specs.append({"part": "singles", "modules": part, "lazy": lazy, "sample": None})
    for _ in range(k_perm):
        specs.append({"part": "perms", "modules": mods, "lazy": lazy, "cases": -(-n_perm // k_perm)})
    for _ in range(k_val):
        specs.append({"part": "values", "modules": mods, "lazy": lazy, "cases": -(-n_val // k_val)})
    return specs


def run_shard(spec, seed):
    col = Collector()
    part = spec["part"]
    if part == "static":
        run_static(spec, col)
    elif part == "singles":
        run_singles(spec, seed, col)
    elif part == "perms":
        run_perms(spec, seed, col)
    elif part == "values":
        run_values(spec, seed, col)
    else:
        raise ValueError(part)
    if part == "static":
        col.extra["package_modules"] = len(walk_modules())
        col.extra["lazily_loaded_modules"] = len(spec.get("lazy", []))
    return col.result()


def shrink(case):
    """Smaller candidates: drop the program / the register step, delta-debug the
    order (xarray stays), then simplify the program."""
    if "static" in case:
        return

    def clone(**kw):
        c = json.loads(json.dumps(case))
        c.update(kw)
        return c

    order = case["order"]
    reg = case.get("register_at")
    prog = case.get("program")
    if prog is not None:
        yield clone(program=None)
    if reg is not None and prog is None:
        yield clone(register_at=None)
    n = len(order)
    size = max(1, n // 2)
    while size >= 1:
        for start in range(0, n, size):
            idx = [i for i in range(start, min(n, start + size)) if order[i] != "xarray"]
            if not idx:
                continue
            keep = [m for i, m in enumerate(order) if i not in idx]
            nreg = None if reg is None else reg - sum(1 for i in idx if i < reg)
            yield clone(order=keep, register_at=nreg)
        size //= 2
    if reg is not None:
        for r in (len(order), 0):
            if r != reg:
                yield clone(register_at=r)
    if case.get("observe") == "passive":
        yield clone(observe="active")
    x = order.index("xarray")
    rest = [m for m in order if m != "xarray"]
    if x != len(order) - 1 and reg is None:
        yield clone(order=rest + ["xarray"])
    if x != 0 and reg is None:
        yield clone(order=["xarray"] + rest)
    if prog is not None:
        ops = prog["ops"]
        for i in range(len(ops)):
            p = json.loads(json.dumps(prog))
            del p["ops"][i]
            yield clone(program=p)
        if prog["kind"] == "ds":
            p = json.loads(json.dumps(prog))
            p["kind"] = "da"
            p.pop("b", None)
            p.pop("b_dims", None)
            p["ops"] = [o for o in p["ops"] if o["op"] != "assign_prod"]
            yield clone(program=p)
        for key in ("a", "b"):
            if key in prog:
                for field, val in (("nan_every", 0), ("dtype", "f8"), ("mod", 5), ("mult", 1)):
                    if prog[key].get(field) != val:
                        p = json.loads(json.dumps(prog))
                        p[key][field] = val
                        yield clone(program=p)
        for i, s in enumerate(prog["shape"]):
            for v in (s // 2, s - 1):
                if 1 <= v < s:
                    p = json.loads(json.dumps(prog))
                    p["shape"][i] = v
                    yield clone(program=p)
        for k, v in prog["chunks"].items():
            for nv in (-1, v + 1):
                if nv != v:
                    p = json.loads(json.dumps(prog))
                    p["chunks"][k] = nv
                    yield clone(program=p)


_REQ = [
    "single:M-then-xarray",
    "single:xarray-then-M",
    "perm",
    "xarray-first",
    "xarray-last",
    "xarray-middle",
    "import-error-swallowed",
    "registered",
    "register:mid-order",
    "never-registered",
    "observe:active",
    "observe:passive",
    "value-program",
    "static:pyproject",
    "static:entrypoints",
]
REQUIRED_CLASSES = {"quick": list(_REQ), "thorough": list(_REQ) + ["imports-dask_array._xarray", "value:ds", "value:da"]}
