"""C06 — equal names denote equal arrays."""

from __future__ import annotations

import math

import dask
import hypothesis
import numpy as np
from hypothesis import HealthCheck, Phase, given, settings
from hypothesis import strategies as st

from vf import executor as E
from vf import progrun, util
from vf.gen import indices as gidx
from vf.gen import programs as P
from vf.gen.draw import D
from vf.runner import Collector

PROPERTY = "C06"
RULE = (
    "HISTORIES: each shard is one process-long history of small programs drawn from a deliberately collision-prone "
    "family: a pool of 12 source arrays (2 shapes x 2 dtypes x 3 payloads, equal bytes re-created as fresh objects), 3 "
    "chunkings per shape, seeded random arrays with 3 seeds x 2 chunkings, slice chains that reach the same region by "
    "different routes (x[2:8][1:3] vs x[3:5]), rechunks to the same target from different parents, regions and "
    "rechunks composed in both orders, scalar ops, transposes, reductions, concatenations, copies and persisted "
    "results. A per-process registry records, for every expression node reached by walk() in the raw, simplified, "
    "lowered, fused and materialised forms: name -> (shape, chunks, dtype); and for every array-valued graph key the "
    "harness' executor materialises (optimised and un-fused graphs): key -> digest(bytes, shape, dtype). A later "
    "program that mints an existing name or key with different metadata or a different digest is a violation; the "
    "replay holds both programs and re-runs them in order with a fresh registry. User-pinned names are not generated. "
    "Non-trivial: the program re-minted at least one name first minted by a DIFFERENT program (a genuine dedup "
    "event); distinct = distinct program JSON."
)
ASSUMPTIONS = [
    "only array-valued task results enter the key->digest registry (reprs of locks/functions carry addresses)",
    "conflicts are detected within one process history; the pair replay assumes the conflict does not need a third program",
]

SHAPES = [(12,), (6, 4), (8, 6)]
CHUNKS = {(12,): [[[12]], [[4, 4, 4]], [[5, 7]]], (6, 4): [[[6], [4]], [[3, 3], [2, 2]], [[2, 4], [4]]], (8, 6): [[[2, 2, 2, 2], [1, 1, 1, 1, 1, 1]]]}
SLICES_1D = [(2, 8), (1, 3), (3, 5), (0, 6), (6, 12), (0, 12), (4, 8), (2, 4)]


def leaf_pool():
    pool = []
    for shape in SHAPES:
        for dt in ("f8", "i8"):
            for off in (0, 1, 10):
                for ch in CHUNKS[shape]:
                    pool.append({"shape": list(shape), "dtype": dt, "chunks": ch, "offset": off, "kind": "numpy"})
        for seed in (1, 2, 3):
            for ch in CHUNKS[shape][1:]:
                pool.append({"shape": list(shape), "dtype": "f8", "chunks": ch, "offset": 0, "kind": "random", "seed": seed})
        for k in (0, 1):
            pool.append({"shape": list(shape), "dtype": "f8", "chunks": CHUNKS[shape][-1], "offset": 0, "kind": "random", "seed": 7, "spawn": k})
    return pool


POOL = leaf_pool()


def leaf_factory(leaf, data):
    import dask_array as da

    ch = tuple(tuple(c) for c in leaf["chunks"])
    if leaf.get("kind") == "random":
        if "spawn" in leaf:
            # sibling streams the way NumPy recommends: children of one SeedSequence
            child = np.random.SeedSequence(leaf["seed"]).spawn(2)[leaf["spawn"]]
            return da.random.default_rng(child).random(tuple(leaf["shape"]), chunks=ch)
        return da.random.default_rng(leaf["seed"]).random(tuple(leaf["shape"]), chunks=ch)
    return da.from_array(data.copy(), chunks=ch)


@st.composite
def program_st(draw):
    D_ = D(draw)
    leaves = [dict(D_.choice(POOL))]
    if D_.chance(1, 3):
        same = [l for l in POOL if l["shape"] == leaves[0]["shape"] and l["kind"] == "numpy"]
        leaves.append(dict(D_.choice(same)))
    vals_shape = [tuple(l["shape"]) for l in leaves]
    stmts = []
    shapes = list(vals_shape)
    for _ in range(D_.int(1, 4)):
        i = len(shapes) - 1 if D_.chance(2, 3) else D_.int(0, len(shapes) - 1)
        shp = shapes[i]
        kind = D_.weighted([("slice", 6), ("rechunk", 5), ("add_s", 2), ("neg", 1), ("T", 1 if len(shp) == 2 else 0), ("sum", 1 if len(shp) >= 1 else 0), ("concat", 1), ("copy", 1), ("add", 1), ("swvred", (8 if shp == (8, 6) else 3) if len(shp) == 2 and min(shp) >= 4 else 0)])
        if len(shp) >= 1 and D_.chance(1, 10):
            # the same input reduced under two different weight arrays (da.reduction(weights=...)): the weights are
            # an operand like any other and must separate the names
            ax = D_.int(0, len(shp) - 1)
            stmts.append({"op": "wsum", "args": [i], "axis": ax, "keepdims": False, "wshape": D_.choice(["full", "axis"])})
            shapes.append(tuple(n for k, n in enumerate(shp) if k != ax))
            continue
        if kind == "swvred":
            # the same input under windows along different axes / of different length: helper tasks of the
            # native kernel must not be shared between them
            ax = D_.int(0, 1)
            w = D_.choice([w for w in (3, 4, 5, 6) if w <= shp[ax]])
            stmts.append({"op": "sliding_window_view", "args": [i], "w": w, "axis": ax})
            shapes.append(tuple(n - w + 1 if k == ax else n for k, n in enumerate(shp)) + (w,))
            stmts.append({"op": D_.choice(["sum", "sum", "max"]), "args": [len(shapes) - 1], "axis": -1, "keepdims": False})
            shapes.append(shapes[-1][:-1])
            continue
        if kind == "slice" and shp and shp[0] >= 2:
            n = shp[0]
            cands = [(a, b) for a, b in SLICES_1D if b <= n and a < b]
            if not cands:
                cands = [(0, n)]
            a, b = D_.choice(cands)
            idx = (slice(a, b),) + ((slice(None),) if len(shp) == 2 and D_.bool() else ())
            stmts.append({"op": "getitem", "args": [i], "index": gidx.enc(idx)})
            shapes.append((b - a,) + tuple(shp[1:]))
        elif kind == "rechunk" and shp:
            spec = [D_.choice([-1, 2, 3, 4]) for _ in shp]
            stmts.append({"op": "rechunk", "args": [i], "chunks": spec})
            shapes.append(shp)
        elif kind == "add_s":
            stmts.append({"op": "add_s", "args": [i], "k": D_.choice([1, 2])})
            shapes.append(shp)
        elif kind == "neg":
            stmts.append({"op": "neg", "args": [i]})
            shapes.append(shp)
        elif kind == "T":
            stmts.append({"op": "T", "args": [i]})
            shapes.append(tuple(reversed(shp)))
        elif kind == "sum" and shp:
            ax = D_.int(0, len(shp) - 1)
            stmts.append({"op": "sum", "args": [i], "axis": ax, "keepdims": False})
            shapes.append(tuple(n for k, n in enumerate(shp) if k != ax))
        elif kind == "concat" and shp:
            js = [j for j, s2 in enumerate(shapes) if len(s2) == len(shp) and s2[1:] == shp[1:]]
            j = D_.choice(js)
            stmts.append({"op": "concatenate", "args": [i, j], "axis": 0})
            shapes.append((shp[0] + shapes[j][0],) + tuple(shp[1:]))
        elif kind == "copy":
            stmts.append({"op": "copy", "args": [i]})
            shapes.append(shp)
        elif kind == "add":
            js = [j for j, s2 in enumerate(shapes) if s2 == shp]
            stmts.append({"op": "add", "args": [i, D_.choice(js)]})
            shapes.append(shp)
    if not stmts:
        stmts.append({"op": "copy", "args": [0]})
        shapes.append(shapes[0])
    return {"leaves": leaves, "stmts": stmts, "outputs": [len(shapes) - 1], "persist": D_.chance(1, 6)}


def _meta(node):
    def c(v):
        return "nan" if isinstance(v, float) and math.isnan(v) else int(v)

    try:
        return (tuple(c(s) for s in node.shape), tuple(tuple(c(v) for v in ax) for ax in node.chunks), str(node.dtype))
    except Exception as e:
        return ("<meta-error>", type(e).__name__)


class Registry:
    def __init__(self):
        self.names = {}  # name -> (meta, type name, program index)
        self.keys = {}  # key -> (digest, program index)

    def observe(self, prog, pi):
        """Build ``prog``, register everything; returns (conflicts, labels)."""
        from dask._expr import Expr

        conflicts, labs = [], []
        vars_ = P.build_da(prog, leaf_factory=leaf_factory)
        x = vars_[prog["outputs"][0]]
        if prog.get("persist"):
            x = x.persist() + 1
            labs.append("persisted-input")
        forms = {"raw": x.expr}
        try:
            forms["simplified"] = x.expr.simplify()
            forms["lowered"] = forms["simplified"].lower_completely()
            forms["fused"] = forms["lowered"].fuse()
            forms["materialised"] = x._lowered_expr
        except NotImplementedError:
            return conflicts, labs + ["refused"]
        reminted = False
        for fname, ex in forms.items():
            for node in ex.walk():
                if not hasattr(node, "chunks"):
                    continue
                nm = node._name
                meta = _meta(node)
                if nm in self.names:
                    m0, t0, p0 = self.names[nm]
                    if p0 != pi:
                        reminted = True
                        labs.append("dedup:" + type(node).__name__)
                    if m0 != meta:
                        conflicts.append((f"name|metadata-differs|{t0}-vs-{type(node).__name__}", p0, f"name {nm}: first ({t0}, program #{p0}) {m0}; now ({type(node).__name__}, form {fname}) {meta}"))
                else:
                    self.names[nm] = (meta, type(node).__name__, pi)
        graphs = []
        try:
            graphs.append(("optimised", dict(x.__dask_graph__())))
            graphs.append(("unfused", dict(Expr.__dask_graph__(forms["lowered"]))))
        except NotImplementedError:
            return conflicts, labs + ["refused"]
        for gname, g in graphs:
            values, _ = E.execute(g)
            for k, v in values.items():
                if not isinstance(v, (np.ndarray, np.generic)):
                    continue
                fp = E.fingerprint(np.asarray(v))
                if k in self.keys:
                    fp0, p0 = self.keys[k]
                    if p0 != pi:
                        reminted = True
                    if fp0 != fp:
                        conflicts.append((f"key|value-differs|{util.norm_msg((k[0] if isinstance(k, tuple) else str(k)), 40)}", p0, f"key {k!r}: first minted by program #{p0} with {fp0}, now ({gname} graph) {fp}"))
                else:
                    self.keys[k] = (fp, pi)
        if reminted:
            labs.append("dedup-event")
        return conflicts, labs


def replay(case):
    progs = case["programs"]
    reg = Registry()
    fails = []
    for pi, prog in enumerate(progs):
        try:
            conflicts, _ = reg.observe(prog, pi)
        except Exception as e:
            raise AssertionError(f"program #{pi} cannot be built/executed: {type(e).__name__}: {e}")
        for b, p0, d in conflicts:
            fails.append((b, d))
    return fails


def shrink(case):
    progs = case["programs"]
    if len(progs) > 2:
        for i in range(len(progs) - 1):
            yield {"programs": progs[:i] + progs[i + 1 :]}
    for i, prog in enumerate(progs):
        for p2 in P.shrink_program({k: v for k, v in prog.items() if k != "persist"}):
            if not p2["stmts"]:
                continue
            p2 = dict(p2)
            p2["persist"] = False
            yield {"programs": progs[:i] + [p2] + progs[i + 1 :]}
        if prog.get("persist"):
            p2 = dict(prog)
            p2["persist"] = False
            yield {"programs": progs[:i] + [p2] + progs[i + 1 :]}


def run_shard(spec, seed):
    col = Collector()
    reg = Registry()
    history = []

    @hypothesis.seed(seed)
    @settings(max_examples=spec["cases"], database=None, deadline=None, derandomize=False, phases=[Phase.generate], suppress_health_check=list(HealthCheck))
    @given(program_st())
    def body(prog):
        pi = len(history)
        history.append(prog)
        try:
            conflicts, labs = reg.observe(prog, pi)
        except NotImplementedError:
            col.reject("NotImplementedError")
            return
        except Exception as e:
            col.reject("build-or-execute:" + util.exc_bucket("c06", e)[:80])
            return
        labs = labs + ["op:" + s["op"] for s in prog["stmts"]] + ["leaf:" + l["kind"] for l in prog["leaves"]]
        col.case({"program": prog}, "dedup-event" in labs, labs)
        for b, p0, d in conflicts:
            col.fail(b, {"programs": [history[p0], prog]}, d)

    body()
    col.extra["names_registered"] = len(reg.names)
    col.extra["keys_registered"] = len(reg.keys)
    return col.result()


def plan(tier):
    return progrun.plan_cases(tier, 4800, 64000, shards_quick=16, shards_thorough=16)


REQUIRED_CLASSES = {
    "quick": ["dedup-event", "dedup:FromArray", "dedup:Rechunk", "dedup:Random", "persisted-input", "leaf:random"],
    "thorough": ["dedup-event", "dedup:FromArray", "dedup:Rechunk", "dedup:Random", "dedup:FusedBlockwise", "dedup:FromGraph", "persisted-input"],
}
