"""Shared shard runner for engines whose cases are generated programs."""

from __future__ import annotations

import os

import hypothesis
from hypothesis import HealthCheck, Phase, given, settings

from vf import exclusions, util
from vf.gen import programs as P
from vf.runner import Collector


def base_labels(prog):
    labs = ["fam:" + f for f in P.families(prog)]
    labs += ["op:" + s["op"] for s in prog["stmts"]]
    if P.has_zero_axis(prog):
        labs.append("zero-axis")
    if P.shares_variable(prog):
        labs.append("shared-variable")
    if len(prog["outputs"]) > 1:
        labs.append("two-outputs")
    labs += sorted({"leaf:" + l.get("kind", "numpy") for l in prog["leaves"] if l.get("kind", "numpy") != "numpy"})
    return labs


def run_program_shard(spec, seed, check, nontrivial, extra_labels=None, strategy_kwargs=None, exclude_only=None, use_exclusions=True, case_extra=None):
    """check(case, vals) -> (status, fails, labels); status 'ok' | 'rejected:...' | 'refused'.

    ``case`` = {"program": prog, **case_extra(draw-free extras)}.
    """
    col = Collector()
    kw = dict(strategy_kwargs or {})
    kw.setdefault("max_stmts", spec.get("max_stmts", 6))

    @hypothesis.seed(seed)
    @settings(max_examples=spec["cases"], database=None, deadline=None, derandomize=False, phases=[Phase.generate], suppress_health_check=list(HealthCheck))
    @given(P.program_strategy(**kw))
    def body(pg):
        prog, stats = pg
        if stats["discarded"]:
            col.rejected["generator-discarded-statements"] += stats["discarded"]
        if not prog["stmts"]:
            col.reject("empty-program")
            return
        vals = P.eval_np(prog)
        if use_exclusions:
            fid = exclusions.excluded(prog, vals, only=exclude_only)
            if fid:
                col.exclude(fid)
                return
        case = {"program": prog}
        if case_extra:
            case.update(case_extra(prog))
        status, fails, labs = check(case, vals)
        if status.startswith("rejected"):
            col.reject(status[:120])
            return
        labels = base_labels(prog) + list(labs or [])
        if extra_labels:
            labels += extra_labels(prog)
        if status == "refused":
            labels.append("refused-NotImplementedError")
        col.case(case, nontrivial(case, labels), labels)
        for b, d in fails:
            col.fail(b, case, d)

    body()
    return col.result()


def shrink_case(case):
    for p in P.shrink_program(case["program"]):
        new = dict(case)
        new["program"] = p
        yield new


def plan_cases(tier, quick_total, thorough_total, shards_quick=16, shards_thorough=48, **extra):
    scale = float(os.environ.get("VERIF_SCALE", "1"))
    if tier == "quick":
        n, k = quick_total, shards_quick
    else:
        # the thorough tier is 12x the quick tier (more with --scale / VERIF_SCALE): deep enough to reach rarer
        # shapes, shallow enough that every run on the unchanged tree was actually made and triaged
        n, k = min(thorough_total, 12 * quick_total), shards_thorough
    per = max(5, int(n * scale / k))
    return [dict(cases=per, **extra) for _ in range(k)]


def build_or_reject(prog, leaf_factory=None):
    """(vars, None) or (None, status)."""
    try:
        return P.build_da(prog, leaf_factory=leaf_factory), None
    except NotImplementedError:
        return None, "rejected:NotImplementedError"
    except Exception as e:
        return None, "rejected:" + util.exc_bucket("build", e)
